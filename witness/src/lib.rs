//! Type-level witnesses for C30: `release` / `abort` consume the association, so no data transfer can
//! follow a completed release and the socket is dropped. Each `compile_fail,E0382` doctest has a compiling
//! twin that differs only by the offending line (a witness whose path is merely wrong would also
//! "fail to compile" and pass vacuously). Run with `cargo +nightly test --doc` (the error code is only
//! honoured on nightly).

/// Sync client: use after release is E0382 (use of moved value).
/// ```compile_fail,E0382
/// use dicom_ul::association::{ClientAssociation, SyncAssociation};
/// fn f(a: ClientAssociation<std::net::TcpStream>) {
///     a.release().unwrap();
///     let _ = a.send(&dicom_ul::pdu::Pdu::ReleaseRQ); // `a` was moved by release
/// }
/// ```
/// Twin without the offending line:
/// ```
/// use dicom_ul::association::{ClientAssociation, SyncAssociation};
/// fn f(mut a: ClientAssociation<std::net::TcpStream>) {
///     let _ = a.send(&dicom_ul::pdu::Pdu::ReleaseRQ);
///     a.release().unwrap();
/// }
/// ```
pub struct SyncClientReleaseConsumes;

/// Sync server: use after abort is E0382.
/// ```compile_fail,E0382
/// use dicom_ul::association::{ServerAssociation, SyncAssociation};
/// fn f(a: ServerAssociation<std::net::TcpStream>) {
///     a.abort().unwrap();
///     let _ = a.receive(); // `a` was moved by abort
/// }
/// ```
/// Twin:
/// ```
/// use dicom_ul::association::{ServerAssociation, SyncAssociation};
/// fn f(mut a: ServerAssociation<std::net::TcpStream>) {
///     let _ = a.receive();
///     a.abort().unwrap();
/// }
/// ```
pub struct SyncServerAbortConsumes;

/// Async client: use after release is E0382.
/// ```compile_fail,E0382
/// use dicom_ul::association::{AsyncClientAssociation, AsyncAssociation};
/// async fn f(a: AsyncClientAssociation<tokio::net::TcpStream>) {
///     a.release().await.unwrap();
///     let _ = a.send(&dicom_ul::pdu::Pdu::ReleaseRQ).await; // moved
/// }
/// ```
/// Twin:
/// ```
/// use dicom_ul::association::{AsyncClientAssociation, AsyncAssociation};
/// async fn f(mut a: AsyncClientAssociation<tokio::net::TcpStream>) {
///     let _ = a.send(&dicom_ul::pdu::Pdu::ReleaseRQ).await;
///     a.release().await.unwrap();
/// }
/// ```
pub struct AsyncClientReleaseConsumes;

/// Async server: no P-DATA writer can be obtained after release (E0382).
/// ```compile_fail,E0382
/// use dicom_ul::association::{AsyncServerAssociation, AsyncAssociation};
/// async fn f(a: AsyncServerAssociation<tokio::net::TcpStream>) {
///     a.release().await.unwrap();
///     let _w = a.send_pdata(1); // moved
/// }
/// ```
/// Twin:
/// ```
/// use dicom_ul::association::{AsyncServerAssociation, AsyncAssociation};
/// async fn f(mut a: AsyncServerAssociation<tokio::net::TcpStream>) {
///     { let _w = a.send_pdata(1); }
///     a.release().await.unwrap();
/// }
/// ```
pub struct AsyncServerReleaseConsumes;
