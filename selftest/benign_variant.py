#!/usr/bin/env python3
"""benign_variant.py <tree> : apply a set of behaviour-preserving edits to a scratch copy / worktree of dicom-rs (never /repo):
logging added to one twin only, comment blocks that shift every line of seven files, struct literal fields reordered, a function-local
constant with constant arithmetic in a guard and a slice. Every check must stay silent on the result (run them with
VERIF_REPO=<tree> ./vcheck Cxx, e.g. through tools/vprobe.sh). Companion of tools/alpha_test.sh (renamed locals)."""
import sys
root = sys.argv[1].rstrip("/")
assert root not in ("/repo", ""), "never on /repo"


def sub(p, old, new):
    p = f"{root}/{p}"
    s = open(p).read()
    assert s.count(old) >= 1, (p, old[:40])
    open(p, "w").write(s.replace(old, new, 1))


sub("ul/src/association/server.rs", "    fn send(&mut self, pdu: &Pdu) -> Result<()> {\n        self.write_buffer.clear();",
    "    fn send(&mut self, pdu: &Pdu) -> Result<()> {\n        tracing::debug!(\"sending PDU {}\", pdu.short_description());\n        self.write_buffer.clear();")
for f in ["parser/src/dataset/read.rs", "object/src/mem.rs", "encoding/src/decode/explicit_le.rs", "ul/src/pdu/reader.rs", "core/src/value/primitive.rs", "json/src/ser/mod.rs",
          "object/src/meta.rs"]:
    s = open(f"{root}/{f}").read()
    open(f"{root}/{f}", "w").write("// benign: a comment block that shifts every line\n// of this file by three\n//\n" + s)
sub("parser/src/dataset/read.rs",
    "            delimiter_check_pending: false,\n            offset_table_next: false,\n            in_sequence: false,\n            hard_break: false,\n            last_header: None,\n            peek: None,",
    "            offset_table_next: false,\n            delimiter_check_pending: false,\n            hard_break: false,\n            in_sequence: false,\n            peek: None,\n            last_header: None,")
sub("object/src/mem.rs", "        if buflen >= 132 && &buf[128..132] == b\"DICM\" {",
    "        const PREAMBLE: usize = 128;\n        if buflen >= PREAMBLE + 4 && &buf[PREAMBLE..PREAMBLE + 4] == b\"DICM\" {")
# second set (kept as a patch): two disjoint match arms swapped, an unused helper and a new accessor added, `?` rewritten as a match,
# `len() == 0` -> `is_empty()`, operands of an equality swapped -- apply with `git -C <tree> apply selftest/benign_variant2.diff`
print("benign edits applied to", root)
