//! Reference formatting templates, compiled by the same rustc/driver as /repo: the rules compare the
//! compiler's lowered `format_args!` template of a dicom-rs function with the template of the
//! reference expression written here from the standard (PS3.18 F.2.2: tag keys are 8 upper-case hex digits;
//! PS3.5 text form of tags `(GGGG,EEEE)`).
pub fn tag_key_8hex(g: u16, e: u16) -> String {
    format!("{g:04X}{e:04X}")
}
pub fn tag_paren(g: u16, e: u16) -> String {
    format!("({g:04X},{e:04X})")
}
pub fn tag_key_lower(g: u16, e: u16) -> String {
    format!("{g:04x}{e:04x}")
}
pub fn tag_key_nopad(g: u16, e: u16) -> String {
    format!("{g:X}{e:X}")
}
/// selector step text form `TAG[ITEM]` (dicom_core::ops::AttributeSelectorStep, documented form)
pub fn selector_nested(tag: u32, item: u32) -> String {
    format!("{tag}[{item}]")
}
// PS3.5 6.2: DA = YYYYMMDD (and its leading parts for range matching / partial precision),
// TM = HHMMSS.FFFFFF (and its leading parts). Fixed widths: 4, 2, 2 and 2, 2, 2, '.', fraction digits.
pub fn da_y(y: &u16) -> String {
    format!("{y:04}")
}
pub fn da_ym(y: &u16, m: &u8) -> String {
    format!("{y:04}{m:02}")
}
pub fn da_ymd(y: &u16, m: &u8, d: &u8) -> String {
    format!("{y:04}{m:02}{d:02}")
}
pub fn tm_h(h: &u8) -> String {
    format!("{h:02}")
}
pub fn tm_hm(h: &u8, m: &u8) -> String {
    format!("{h:02}{m:02}")
}
pub fn tm_hms(h: &u8, m: &u8, s: &u8) -> String {
    format!("{h:02}{m:02}{s:02}")
}
pub fn tm_hmsf(h: &u8, m: &u8, s: &u8, frac: &str) -> String {
    format!("{h:02}{m:02}{s:02}.{}", frac)
}
