//! Reference formatting templates, compiled by the same rustc/driver as /repo: the rules compare the
//! compiler's lowered `format_args!` template of a dicom-rs function with the template of the
//! reference expression written here from the standard (PS3.18 F.2.2: tag keys are 8 upper-case hex digits;
//! PS3.5 text form of tags `(GGGG,EEEE)`).
pub fn tag_key_8hex(g: u16, e: u16) -> String {
    format!("{g:04X}{e:04X}")
}
pub fn tag_paren(g: u16, e: u16) -> String {
    format!("({g:04X},{e:04X})")
}
pub fn tag_key_lower(g: u16, e: u16) -> String {
    format!("{g:04x}{e:04x}")
}
pub fn tag_key_nopad(g: u16, e: u16) -> String {
    format!("{g:X}{e:X}")
}
/// selector step text form `TAG[ITEM]` (dicom_core::ops::AttributeSelectorStep, documented form)
pub fn selector_nested(tag: u32, item: u32) -> String {
    format!("{tag}[{item}]")
}
