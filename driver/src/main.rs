// dcmfacts — rustc_private driver that dumps resolved-program facts of a crate as JSON.
//
// Injected with RUSTC_WORKSPACE_WRAPPER under `cargo +nightly check`; argv[1] is the real rustc.
// For every workspace crate compiled, one JSON file is written to $DCMFACTS_OUT (one write per
// process). The driver is rule-agnostic: it serialises
//   * adts    : enums/structs with variants, discriminants, fields
//   * consts  : compiler-evaluated values of const items (Display of mir::Const)
//   * fns     : every MIR body (post-analysis, mir-opt-level=0) as a structured CFG with resolved callees
//   * hir     : every body as a resolved expression tree (paths resolved through typeck results)
// The rules (Python) decide properties from these facts; nothing of the analysed program is run.
#![feature(rustc_private)]
#![allow(clippy::all)]

extern crate rustc_abi;
extern crate rustc_ast;
extern crate rustc_driver;
extern crate rustc_hir;
extern crate rustc_interface;
extern crate rustc_middle;
extern crate rustc_span;

use rustc_driver::Compilation;
use rustc_hir as hir;
use rustc_hir::def::{DefKind, Res};
use rustc_hir::def_id::{DefId, LocalDefId};
use rustc_middle::mir;
use rustc_middle::ty::{self, Ty, TyCtxt};
use rustc_span::Span;
use std::fmt::Write as _;

mod json;
use json::J;

struct Cb;

impl rustc_driver::Callbacks for Cb {
    fn after_analysis<'tcx>(
        &mut self,
        _c: &rustc_interface::interface::Compiler,
        tcx: TyCtxt<'tcx>,
    ) -> Compilation {
        if let Ok(out) = std::env::var("DCMFACTS_OUT") {
            use rustc_middle::ty::print::{with_no_trimmed_paths, with_no_visible_paths, with_resolve_crate_name};
            with_no_visible_paths!(with_no_trimmed_paths!(with_resolve_crate_name!(dump(tcx, &out))));
        }
        Compilation::Continue
    }
}

fn main() {
    let mut args: Vec<String> = std::env::args().collect();
    // RUSTC_WORKSPACE_WRAPPER passes the real rustc as argv[1]
    if args.len() > 1 && (args[1].ends_with("rustc") || args[1].contains("/rustc")) {
        args.remove(1);
    }
    let mut cb = Cb;
    rustc_driver::run_compiler(&args, &mut cb);
}

// ---------------------------------------------------------------------------------------------

struct Cx<'tcx> {
    tcx: TyCtxt<'tcx>,
    #[allow(dead_code)]
    manifest_rel: String,
    root: String,
}

fn s<T: std::fmt::Display>(x: T) -> String {
    format!("{}", x)
}
fn d<T: std::fmt::Debug>(x: T) -> String {
    format!("{:?}", x)
}

impl<'tcx> Cx<'tcx> {
    fn path(&self, did: DefId) -> String {
        self.tcx.def_path_str(did)
    }

    /// "file:line:col" of the *call site* (outermost expansion), plus macro name if from an expansion
    fn span(&self, sp: Span) -> (String, u32, Option<String>) {
        let mut mac = None;
        let mut cs = sp;
        if sp.from_expansion() {
            let bt: Vec<_> = sp.macro_backtrace().collect();
            if let Some(last) = bt.last() {
                cs = last.call_site;
            }
            // innermost user-visible macro names chain
            let names: Vec<String> = bt
                .iter()
                .map(|e| match e.kind {
                    rustc_span::ExpnKind::Macro(_, name) => name.to_string(),
                    rustc_span::ExpnKind::Desugaring(k) => format!("desugar:{:?}", k),
                    _ => "?".to_string(),
                })
                .collect();
            mac = Some(names.join("<"));
        }
        let sm = self.tcx.sess.source_map();
        let lo = sm.lookup_char_pos(cs.lo());
        let fname = match &lo.file.name {
            rustc_span::FileName::Real(r) => match r.local_path() {
                Some(p) => p.to_string_lossy().to_string(),
                None => format!("{:?}", r),
            },
            other => format!("{:?}", other),
        };
        // cargo runs rustc for workspace members from the workspace root: paths are root-relative
        let f = match fname.strip_prefix(&format!("{}/", self.root)) { Some(r) => r.to_string(), None => fname };
        (f, lo.line as u32, mac)
    }

    fn loc(&self, sp: Span) -> J {
        let (f, l, m) = self.span(sp);
        let mut o = J::obj();
        o.set("f", J::s(f));
        o.set("l", J::n(l as i64));
        if let Some(m) = m {
            o.set("m", J::s(m));
        }
        o
    }
    fn line(&self, sp: Span) -> i64 {
        self.span(sp).1 as i64
    }
}

fn dump<'tcx>(tcx: TyCtxt<'tcx>, out: &str) {
    let crate_name = tcx.crate_name(rustc_span::def_id::LOCAL_CRATE).to_string();
    let manifest = std::env::var("CARGO_MANIFEST_DIR").unwrap_or_default();
    let root = std::env::var("DCMFACTS_ROOT").unwrap_or_default();
    // only workspace crates (manifest dir under the root)
    if root.is_empty() || !manifest.starts_with(&root) {
        return;
    }
    let manifest_rel = manifest[root.len()..].trim_start_matches('/').to_string();
    let cx = Cx { tcx, manifest_rel: manifest_rel.clone(), root: root.clone() };
    let crate_types: Vec<String> = tcx.crate_types().iter().map(|t| d(t)).collect();
    let is_test = tcx.sess.opts.test;

    let mut top = J::obj();
    top.set("crate", J::s(crate_name.clone()));
    top.set("crate_types", J::arr(crate_types.iter().map(|x| J::s(x.clone())).collect()));
    top.set("manifest_rel", J::s(manifest_rel.clone()));
    top.set("config", J::s(std::env::var("DCMFACTS_CONFIG").unwrap_or_default()));
    top.set("is_test", J::b(is_test));
    let mut feats: Vec<String> = tcx
        .sess
        .config
        .iter()
        .filter(|(k, v)| k.as_str() == "feature" && v.is_some())
        .map(|(_, v)| v.unwrap().to_string())
        .collect();
    feats.sort();
    let feats: Vec<J> = feats.into_iter().map(J::s).collect();
    top.set("features", J::arr(feats));

    // ---- adts & consts
    let mut adts = vec![];
    let mut consts = vec![];
    let mut statics = vec![];
    for ldid in tcx.hir_crate_items(()).definitions() {
        let did = ldid.to_def_id();
        match tcx.def_kind(did) {
            DefKind::Enum | DefKind::Struct => {
                let adt = tcx.adt_def(did);
                let mut a = J::obj();
                a.set("path", J::s(cx.path(did)));
                a.set("kind", J::s(if adt.is_enum() { "enum" } else { "struct" }));
                a.set("loc", cx.loc(tcx.def_span(did)));
                let mut vs = vec![];
                for (vi, v) in adt.variants().iter_enumerated() {
                    let mut vj = J::obj();
                    vj.set("name", J::s(v.name.to_string()));
                    vj.set("idx", J::n(vi.as_u32() as i64));
                    if adt.is_enum() {
                        let dv = adt.discriminant_for_variant(tcx, vi);
                        vj.set("discr", J::s(format!("{}", dv.val)));
                    }
                    let mut fs = vec![];
                    for f in v.fields.iter() {
                        let fty = tcx.type_of(f.did).instantiate_identity().skip_norm_wip();
                        let mut fj = J::obj();
                        fj.set("name", J::s(f.name.to_string()));
                        fj.set("ty", J::s(s(fty)));
                        fs.push(fj);
                    }
                    vj.set("fields", J::arr(fs));
                    vs.push(vj);
                }
                a.set("variants", J::arr(vs));
                adts.push(a);
            }
            DefKind::Const { .. } | DefKind::AssocConst { .. } => {
                let g = tcx.generics_of(did);
                if g.count() != 0 || g.parent_count != 0 {
                    // generic context: only evaluate if parent has no generics either
                    if tcx.generics_of(did).requires_monomorphization(tcx) {
                        continue;
                    }
                }
                let ty = tcx.type_of(did).instantiate_identity().skip_norm_wip();
                let mut c = J::obj();
                c.set("path", J::s(cx.path(did)));
                c.set("ty", J::s(s(ty)));
                c.set("loc", cx.loc(tcx.def_span(did)));
                match tcx.const_eval_poly(did) {
                    Ok(val) => {
                        let cst = mir::Const::Val(val, ty);
                        c.set("val", J::s(s(cst)));
                    }
                    Err(_) => {
                        c.set("val", J::Null);
                    }
                }
                consts.push(c);
            }
            DefKind::Static { .. } => {
                let ty = tcx.type_of(did).instantiate_identity().skip_norm_wip();
                let mut c = J::obj();
                c.set("path", J::s(cx.path(did)));
                c.set("ty", J::s(s(ty)));
                c.set("loc", cx.loc(tcx.def_span(did)));
                statics.push(c);
            }
            _ => {}
        }
    }
    top.set("adts", J::arr(adts));
    top.set("consts", J::arr(consts));
    top.set("statics", J::arr(statics));

    // ---- impls: trait impls in this crate
    let mut impls = vec![];
    for ldid in tcx.hir_crate_items(()).definitions() {
        let did = ldid.to_def_id();
        if let DefKind::Impl { of_trait } = tcx.def_kind(did) {
            let mut ij = J::obj();
            let self_ty = tcx.type_of(did).instantiate_identity().skip_norm_wip();
            ij.set("self", J::s(s(self_ty)));
            if of_trait {
                let tr = tcx.impl_trait_ref(did).instantiate_identity().skip_norm_wip();
                ij.set("trait", J::s(cx.path(tr.def_id)));
                ij.set("trait_ref", J::s(s(tr)));
            }
            ij.set("loc", cx.loc(tcx.def_span(did)));
            let items: Vec<J> = tcx
                .associated_items(did)
                .in_definition_order()
                .map(|it| {
                    let mut o = J::obj();
                    o.set("name", J::s(it.opt_name().map(|x| x.to_string()).unwrap_or_default()));
                    o.set("path", J::s(cx.path(it.def_id)));
                    o
                })
                .collect();
            ij.set("items", J::arr(items));
            impls.push(ij);
        }
    }
    top.set("impls", J::arr(impls));

    // ---- MIR bodies
    let mut fns = vec![];
    for ldid in tcx.mir_keys(()) {
        let ldid: LocalDefId = *ldid;
        let did = ldid.to_def_id();
        let kind = tcx.def_kind(did);
        match kind {
            DefKind::Fn | DefKind::AssocFn | DefKind::Closure => {}
            _ => continue, // consts/statics/anon consts: values are in `consts`
        }
        if !tcx.is_mir_available(did) {
            continue;
        }
        fns.push(dump_mir(&cx, ldid, kind));
    }
    top.set("fns", J::arr(fns));

    // ---- HIR bodies
    let mut hirs = vec![];
    for ldid in tcx.hir_body_owners() {
        let did = ldid.to_def_id();
        let kind = tcx.def_kind(did);
        match kind {
            DefKind::Fn | DefKind::AssocFn | DefKind::Closure => {}
            _ => continue,
        }
        // closures are dumped inline within their parent
        if matches!(kind, DefKind::Closure) {
            continue;
        }
        let Some(body) = tcx.hir_maybe_body_owned_by(ldid) else { continue };
        let tr = tcx.typeck(ldid);
        let hx = Hx { cx: &cx, tr, depth: 0 };
        let mut o = J::obj();
        o.set("path", J::s(cx.path(did)));
        o.set("loc", cx.loc(tcx.def_span(did)));
        let params: Vec<J> = body.params.iter().map(|p| hx.pat(p.pat)).collect();
        o.set("params", J::arr(params));
        o.set("body", hx.expr(body.value));
        hirs.push(o);
    }
    top.set("hir", J::arr(hirs));

    let mut text = String::new();
    top.write(&mut text);
    let kind = if crate_types.iter().any(|t| t.contains("Executable")) { "bin" } else { "lib" };
    let fname = format!(
        "{}/{}-{}-{}{}.json",
        out,
        manifest_rel.replace('/', "_"),
        crate_name,
        kind,
        if is_test { "-test" } else { "" }
    );
    let tmp = format!("{}.tmp{}", fname, std::process::id());
    std::fs::write(&tmp, text).expect("write facts");
    std::fs::rename(&tmp, &fname).expect("rename facts");
}

// ---------------------------------------------------------------------------------------------
// MIR

fn dump_mir<'tcx>(cx: &Cx<'tcx>, ldid: LocalDefId, kind: DefKind) -> J {
    let tcx = cx.tcx;
    let did = ldid.to_def_id();
    let body: &mir::Body<'tcx> = tcx.optimized_mir(did);
    let mut f = J::obj();
    f.set("path", J::s(cx.path(did)));
    f.set("kind", J::s(d(kind)));
    f.set("loc", cx.loc(tcx.def_span(did)));
    if matches!(kind, DefKind::Closure) {
        let parent = tcx.typeck_root_def_id(did);
        f.set("root", J::s(cx.path(parent)));
        f.set("coroutine", J::b(tcx.is_coroutine(did)));
    }
    if matches!(kind, DefKind::Fn | DefKind::AssocFn) {
        f.set("vis", J::s(d(tcx.visibility(did))));
        f.set("asyncness", J::b(tcx.asyncness(did).is_async()));
        let sig = tcx.fn_sig(did).instantiate_identity().skip_norm_wip();
        f.set("sig", J::s(s(sig)));
    }
    if let Some(impl_did) = tcx.impl_of_assoc(did) {
        let mut ij = J::obj();
        let self_ty = tcx.type_of(impl_did).instantiate_identity().skip_norm_wip();
        ij.set("self", J::s(s(self_ty)));
        if tcx.impl_opt_trait_ref(impl_did).is_some() {
            let tr = tcx.impl_trait_ref(impl_did).instantiate_identity().skip_norm_wip();
            ij.set("trait", J::s(cx.path(tr.def_id)));
        }
        f.set("impl", ij);
    } else if let Some(tr_did) = tcx.trait_of_assoc(did) {
        let mut ij = J::obj();
        ij.set("trait_default", J::s(cx.path(tr_did)));
        f.set("impl", ij);
    }
    f.set("argc", J::n(body.arg_count as i64));
    let locals: Vec<J> = body.local_decls.iter().map(|l| J::s(s(l.ty))).collect();
    f.set("locals", J::arr(locals));
    let mut names = J::obj();
    for v in &body.var_debug_info {
        if let mir::VarDebugInfoContents::Place(p) = &v.value {
            if v.composite.is_none() {
                let key = place_str(cx, body, p);
                names.set(&key, J::s(v.name.to_string()));
            }
        }
    }
    f.set("names", names);

    let typing_env = ty::TypingEnv::post_analysis(tcx, did);
    let mut blocks = vec![];
    for (_bb, data) in body.basic_blocks.iter_enumerated() {
        let mut bj = J::obj();
        if data.is_cleanup {
            bj.set("cleanup", J::b(true));
        }
        let mut stmts = vec![];
        for st in &data.statements {
            match &st.kind {
                mir::StatementKind::Assign(b) => {
                    let (pl, rv) = &**b;
                    let mut sj = J::obj();
                    sj.set("d", place(cx, body, pl));
                    sj.set("r", rvalue(cx, body, rv));
                    sj.set("l", J::n(cx.line(st.source_info.span)));
                    if st.source_info.span.from_expansion() {
                        if let Some(m) = cx.span(st.source_info.span).2 {
                            sj.set("m", J::s(m));
                        }
                    }
                    stmts.push(sj);
                }
                mir::StatementKind::SetDiscriminant { place: pl, variant_index } => {
                    let mut sj = J::obj();
                    sj.set("d", place(cx, body, pl));
                    let mut r = J::obj();
                    r.set("rv", J::s("setdiscr"));
                    r.set("v", J::n(variant_index.as_u32() as i64));
                    sj.set("r", r);
                    sj.set("l", J::n(cx.line(st.source_info.span)));
                    stmts.push(sj);
                }
                _ => {}
            }
        }
        bj.set("s", J::arr(stmts));
        let term = data.terminator();
        bj.set("t", terminator(cx, body, typing_env, term));
        blocks.push(bj);
    }
    f.set("blocks", J::arr(blocks));
    f
}

fn field_name<'tcx>(cx: &Cx<'tcx>, base_ty: mir::PlaceTy<'tcx>, fidx: rustc_abi::FieldIdx) -> String {
    match base_ty.ty.kind() {
        ty::Adt(adt, _) => {
            let vi = base_ty.variant_index.unwrap_or(rustc_abi::FIRST_VARIANT);
            if adt.is_union() || vi.as_usize() < adt.variants().len() {
                let v = adt.variant(vi);
                if fidx.as_usize() < v.fields.len() {
                    return v.fields[fidx].name.to_string();
                }
            }
            format!("{}", fidx.as_u32())
        }
        ty::Closure(did, _) | ty::Coroutine(did, _) | ty::CoroutineClosure(did, _) => {
            // captured upvar names
            let names = cx.tcx.closure_saved_names_of_captured_variables(*did);
            if fidx.as_usize() < names.len() {
                return format!("{}", names[fidx]);
            }
            format!("{}", fidx.as_u32())
        }
        _ => format!("{}", fidx.as_u32()),
    }
}

fn place_parts<'tcx>(cx: &Cx<'tcx>, body: &mir::Body<'tcx>, pl: &mir::Place<'tcx>) -> (i64, Vec<J>, String) {
    let tcx = cx.tcx;
    let mut pty = mir::PlaceTy::from_ty(body.local_decls[pl.local].ty);
    let mut projs = vec![];
    let mut text = format!("_{}", pl.local.as_u32());
    for elem in pl.projection.iter() {
        match elem {
            mir::ProjectionElem::Deref => {
                projs.push(J::s("*"));
                text = format!("(*{})", text);
            }
            mir::ProjectionElem::Field(fi, _) => {
                let n = field_name(cx, pty, fi);
                let _ = write!(text, ".{}", n);
                let mut o = J::obj();
                o.set("f", J::s(n));
                projs.push(o);
            }
            mir::ProjectionElem::Index(l) => {
                let _ = write!(text, "[_{}]", l.as_u32());
                let mut o = J::obj();
                o.set("i", J::n(l.as_u32() as i64));
                projs.push(o);
            }
            mir::ProjectionElem::ConstantIndex { offset, min_length, from_end } => {
                let _ = write!(text, "[{}{}]", if from_end { "-" } else { "" }, offset);
                let mut o = J::obj();
                o.set("ci", J::n(offset as i64));
                o.set("min", J::n(min_length as i64));
                o.set("fe", J::b(from_end));
                projs.push(o);
            }
            mir::ProjectionElem::Subslice { from, to, from_end } => {
                let _ = write!(text, "[{}..{}{}]", from, if from_end { "-" } else { "" }, to);
                let mut o = J::obj();
                o.set("sub", J::arr(vec![J::n(from as i64), J::n(to as i64), J::b(from_end)]));
                projs.push(o);
            }
            mir::ProjectionElem::Downcast(name, vi) => {
                let n = name.map(|x| x.to_string()).unwrap_or_else(|| format!("{}", vi.as_u32()));
                let _ = write!(text, " as {}", n);
                text = format!("({})", text);
                let mut o = J::obj();
                o.set("dc", J::s(n));
                o.set("vi", J::n(vi.as_u32() as i64));
                projs.push(o);
            }
            _ => {
                projs.push(J::s("?"));
            }
        }
        pty = pty.projection_ty(tcx, elem);
    }
    (pl.local.as_u32() as i64, projs, text)
}

fn place_str<'tcx>(cx: &Cx<'tcx>, body: &mir::Body<'tcx>, pl: &mir::Place<'tcx>) -> String {
    place_parts(cx, body, pl).2
}

fn place<'tcx>(cx: &Cx<'tcx>, body: &mir::Body<'tcx>, pl: &mir::Place<'tcx>) -> J {
    let (l, projs, text) = place_parts(cx, body, pl);
    let mut o = J::obj();
    o.set("l", J::n(l));
    if !projs.is_empty() {
        o.set("p", J::arr(projs));
    }
    o.set("s", J::s(text));
    o
}

fn operand<'tcx>(cx: &Cx<'tcx>, body: &mir::Body<'tcx>, op: &mir::Operand<'tcx>) -> J {
    let mut o = J::obj();
    match op {
        mir::Operand::Copy(p) => {
            o.set("c", place(cx, body, p));
        }
        mir::Operand::Move(p) => {
            o.set("m", place(cx, body, p));
        }
        mir::Operand::Constant(c) => {
            let ty = c.const_.ty();
            o.set("k", J::s(s(c.const_)));
            o.set("ty", J::s(s(ty)));
            match ty.kind() {
                ty::FnDef(did, _) => {
                    o.set("fn", J::s(cx.path(*did)));
                }
                _ => {
                    // try to evaluate scalar ints
                    if let Some(si) = c.const_.try_to_scalar_int() {
                        let size = si.size();
                        let v = si.to_bits(size);
                        o.set("int", J::s(format!("{}", v)));
                    }
                }
            }
        }
        #[allow(unreachable_patterns)]
        _ => {
            o.set("other", J::s(d(op)));
        }
    }
    o
}

fn rvalue<'tcx>(cx: &Cx<'tcx>, body: &mir::Body<'tcx>, rv: &mir::Rvalue<'tcx>) -> J {
    let tcx = cx.tcx;
    let mut o = J::obj();
    match rv {
        mir::Rvalue::Use(op, ..) => {
            o.set("rv", J::s("use"));
            o.set("o", operand(cx, body, op));
        }
        mir::Rvalue::Repeat(op, n) => {
            o.set("rv", J::s("repeat"));
            o.set("o", operand(cx, body, op));
            o.set("n", J::s(s(n)));
        }
        mir::Rvalue::Ref(_, bk, p) => {
            o.set("rv", J::s("ref"));
            o.set("mut", J::b(matches!(bk, mir::BorrowKind::Mut { .. })));
            o.set("p", place(cx, body, p));
        }
        mir::Rvalue::RawPtr(_, p) => {
            o.set("rv", J::s("rawptr"));
            o.set("p", place(cx, body, p));
        }
        mir::Rvalue::Cast(kind, op, ty) => {
            o.set("rv", J::s("cast"));
            o.set("kind", J::s(d(kind)));
            o.set("o", operand(cx, body, op));
            o.set("from", J::s(s(op.ty(&body.local_decls, tcx))));
            o.set("to", J::s(s(*ty)));
        }
        mir::Rvalue::BinaryOp(bop, ops) => {
            o.set("rv", J::s("bin"));
            o.set("op", J::s(d(bop)));
            o.set("a", operand(cx, body, &ops.0));
            o.set("b", operand(cx, body, &ops.1));
        }
        mir::Rvalue::UnaryOp(uop, op) => {
            o.set("rv", J::s("un"));
            o.set("op", J::s(d(uop)));
            o.set("o", operand(cx, body, op));
        }
        mir::Rvalue::Discriminant(p) => {
            o.set("rv", J::s("discr"));
            o.set("p", place(cx, body, p));
            let pty = p.ty(&body.local_decls, tcx).ty;
            o.set("ty", J::s(s(pty)));
            if let ty::Adt(adt, _) = pty.kind() {
                o.set("adt", J::s(cx.path(adt.did())));
            }
        }
        mir::Rvalue::Aggregate(kind, ops) => {
            o.set("rv", J::s("agg"));
            match &**kind {
                mir::AggregateKind::Array(_) => o.set("kind", J::s("array")),
                mir::AggregateKind::Tuple => o.set("kind", J::s("tuple")),
                mir::AggregateKind::Adt(did, vi, _, _, _) => {
                    o.set("kind", J::s("adt"));
                    let adt = tcx.adt_def(*did);
                    o.set("adt", J::s(cx.path(*did)));
                    let v = adt.variant(*vi);
                    o.set("variant", J::s(v.name.to_string()));
                    let fns: Vec<J> = v.fields.iter().map(|f| J::s(f.name.to_string())).collect();
                    o.set("fields", J::arr(fns));
                }
                mir::AggregateKind::Closure(did, _) => {
                    o.set("kind", J::s("closure"));
                    o.set("def", J::s(cx.path(*did)));
                }
                mir::AggregateKind::Coroutine(did, _) => {
                    o.set("kind", J::s("coroutine"));
                    o.set("def", J::s(cx.path(*did)));
                }
                mir::AggregateKind::CoroutineClosure(did, _) => {
                    o.set("kind", J::s("coroutine_closure"));
                    o.set("def", J::s(cx.path(*did)));
                }
                mir::AggregateKind::RawPtr(..) => o.set("kind", J::s("rawptr")),
            }
            let os: Vec<J> = ops.iter().map(|x| operand(cx, body, x)).collect();
            o.set("ops", J::arr(os));
        }
        mir::Rvalue::CopyForDeref(p) => {
            o.set("rv", J::s("use"));
            let mut c = J::obj();
            c.set("c", place(cx, body, p));
            o.set("o", c);
        }
        other => {
            o.set("rv", J::s("other"));
            o.set("s", J::s(d(other)));
        }
    }
    o
}

fn bbn(b: mir::BasicBlock) -> J {
    J::n(b.as_u32() as i64)
}

fn unwind(u: &mir::UnwindAction) -> J {
    match u {
        mir::UnwindAction::Cleanup(b) => bbn(*b),
        _ => J::Null,
    }
}

fn terminator<'tcx>(
    cx: &Cx<'tcx>,
    body: &mir::Body<'tcx>,
    typing_env: ty::TypingEnv<'tcx>,
    term: &mir::Terminator<'tcx>,
) -> J {
    let tcx = cx.tcx;
    let mut o = J::obj();
    o.set("l", J::n(cx.line(term.source_info.span)));
    match &term.kind {
        mir::TerminatorKind::Goto { target } => {
            o.set("t", J::s("goto"));
            o.set("bb", bbn(*target));
        }
        mir::TerminatorKind::SwitchInt { discr, targets } => {
            o.set("t", J::s("switch"));
            o.set("o", operand(cx, body, discr));
            o.set("ty", J::s(s(discr.ty(&body.local_decls, tcx))));
            let vals: Vec<J> = targets.iter().map(|(v, b)| J::arr(vec![J::s(format!("{}", v)), bbn(b)])).collect();
            o.set("vals", J::arr(vals));
            o.set("else", bbn(targets.otherwise()));
        }
        mir::TerminatorKind::Return => o.set("t", J::s("ret")),
        mir::TerminatorKind::Unreachable => o.set("t", J::s("unreach")),
        mir::TerminatorKind::UnwindResume => o.set("t", J::s("resume")),
        mir::TerminatorKind::UnwindTerminate(_) => o.set("t", J::s("terminate")),
        mir::TerminatorKind::Drop { place: p, target, unwind: u, .. } => {
            o.set("t", J::s("drop"));
            o.set("p", place(cx, body, p));
            o.set("bb", bbn(*target));
            o.set("uw", unwind(u));
        }
        mir::TerminatorKind::Call { func, args, destination, target, unwind: u, fn_span, .. } => {
            o.set("t", J::s("call"));
            let (f, l, m) = cx.span(*fn_span);
            o.set("l", J::n(l as i64));
            let _ = f;
            if let Some(m) = m {
                o.set("m", J::s(m));
            }
            let fty = func.ty(&body.local_decls, tcx);
            let mut fj = J::obj();
            match fty.kind() {
                ty::FnDef(did, gargs) => {
                    fj.set("path", J::s(cx.path(*did)));
                    fj.set("krate", J::s(tcx.crate_name(did.krate).to_string()));
                    let ga: Vec<J> = gargs.iter().map(|a| J::s(s(a))).collect();
                    fj.set("ga", J::arr(ga));
                    if let Some(tr) = tcx.trait_of_assoc(*did) {
                        fj.set("trait", J::s(cx.path(tr)));
                    }
                    if let Some(imp) = tcx.impl_of_assoc(*did) {
                        let self_ty = tcx.type_of(imp).instantiate_identity().skip_norm_wip();
                        fj.set("impl_self", J::s(s(self_ty)));
                    }
                    // resolution
                    let res = std::panic::catch_unwind(std::panic::AssertUnwindSafe(|| {
                        ty::Instance::try_resolve(tcx, typing_env, *did, gargs)
                    }));
                    if let Ok(Ok(Some(inst))) = res {
                        let rdid = inst.def_id();
                        if rdid != *did {
                            fj.set("res", J::s(cx.path(rdid)));
                            fj.set("res_krate", J::s(tcx.crate_name(rdid.krate).to_string()));
                            if let Some(imp) = tcx.impl_of_assoc(rdid) {
                                let self_ty = tcx.type_of(imp).instantiate_identity().skip_norm_wip();
                                fj.set("res_self", J::s(s(self_ty)));
                            }
                        }
                        match inst.def {
                            ty::InstanceKind::Item(_) => {}
                            ty::InstanceKind::Virtual(..) => fj.set("virt", J::b(true)),
                            ref other => {
                                let k = d(other);
                                let k = k.split('(').next().unwrap_or("").to_string();
                                fj.set("shim", J::s(k));
                            }
                        }
                    }
                }
                _ => {
                    fj.set("ptr", operand(cx, body, func));
                    fj.set("ty", J::s(s(fty)));
                }
            }
            o.set("fn", fj);
            let a: Vec<J> = args.iter().map(|x| operand(cx, body, &x.node)).collect();
            o.set("a", J::arr(a));
            o.set("d", place(cx, body, destination));
            o.set("bb", target.map(bbn).unwrap_or(J::Null));
            o.set("uw", unwind(u));
        }
        mir::TerminatorKind::TailCall { .. } => o.set("t", J::s("tailcall")),
        mir::TerminatorKind::Assert { cond, expected, msg, target, unwind: u } => {
            o.set("t", J::s("assert"));
            o.set("o", operand(cx, body, cond));
            o.set("exp", J::b(*expected));
            let (k, ops): (String, Vec<J>) = match &**msg {
                mir::AssertKind::BoundsCheck { len, index } => {
                    ("BoundsCheck".into(), vec![operand(cx, body, len), operand(cx, body, index)])
                }
                mir::AssertKind::Overflow(op, a, b) => {
                    (format!("Overflow({:?})", op), vec![operand(cx, body, a), operand(cx, body, b)])
                }
                mir::AssertKind::OverflowNeg(a) => ("OverflowNeg".into(), vec![operand(cx, body, a)]),
                mir::AssertKind::DivisionByZero(a) => ("DivisionByZero".into(), vec![operand(cx, body, a)]),
                mir::AssertKind::RemainderByZero(a) => ("RemainderByZero".into(), vec![operand(cx, body, a)]),
                other => {
                    let k = d(other);
                    (k.split(|c| c == '(' || c == ' ').next().unwrap_or("").to_string(), vec![])
                }
            };
            o.set("msg", J::s(k));
            o.set("ops", J::arr(ops));
            o.set("bb", bbn(*target));
            o.set("uw", unwind(u));
            if let Some(m) = cx.span(term.source_info.span).2 {
                o.set("m", J::s(m));
            }
        }
        mir::TerminatorKind::Yield { resume, drop, .. } => {
            o.set("t", J::s("yield"));
            o.set("bb", bbn(*resume));
            o.set("drop", drop.map(bbn).unwrap_or(J::Null));
        }
        mir::TerminatorKind::CoroutineDrop => o.set("t", J::s("codrop")),
        mir::TerminatorKind::FalseEdge { real_target, .. } => {
            o.set("t", J::s("goto"));
            o.set("bb", bbn(*real_target));
        }
        mir::TerminatorKind::FalseUnwind { real_target, .. } => {
            o.set("t", J::s("goto"));
            o.set("bb", bbn(*real_target));
        }
        mir::TerminatorKind::InlineAsm { .. } => o.set("t", J::s("asm")),
    }
    o
}

// ---------------------------------------------------------------------------------------------
// HIR trees: arrays [kind, line, ...]

struct Hx<'a, 'tcx> {
    cx: &'a Cx<'tcx>,
    tr: &'tcx ty::TypeckResults<'tcx>,
    #[allow(dead_code)]
    depth: usize,
}

fn node(kind: &str, line: i64, rest: Vec<J>) -> J {
    let mut v = vec![J::s(kind), J::n(line)];
    v.extend(rest);
    J::arr(v)
}

impl<'a, 'tcx> Hx<'a, 'tcx> {
    fn tcx(&self) -> TyCtxt<'tcx> {
        self.cx.tcx
    }

    fn res_str(&self, res: Res) -> (String, String) {
        match res {
            Res::Def(kind, did) => {
                let k = match kind {
                    DefKind::Ctor(of, ck) => format!("ctor:{:?}:{:?}", of, ck),
                    other => format!("{:?}", other),
                };
                let mut did2 = did;
                if let DefKind::Ctor(..) = kind {
                    // name the variant / struct, not the ctor
                    did2 = self.tcx().parent(did);
                }
                (self.cx.path(did2), k)
            }
            Res::Local(hid) => (self.tcx().hir_name(hid).to_string(), "local".into()),
            Res::SelfCtor(did) | Res::SelfTyAlias { alias_to: did, .. } => (self.cx.path(did), "self".into()),
            Res::PrimTy(p) => (format!("{:?}", p), "prim".into()),
            other => (format!("{:?}", other), "other".into()),
        }
    }

    fn qpath(&self, qp: &hir::QPath<'tcx>, hid: hir::HirId) -> (String, String) {
        let res = self.tr.qpath_res(qp, hid);
        self.res_str(res)
    }

    fn ty_of(&self, e: &hir::Expr<'tcx>) -> String {
        match self.tr.expr_ty_opt(e) {
            Some(t) => s(t),
            None => "?".into(),
        }
    }

    fn wrap_mac(&self, sp: Span, parent_sp: Option<Span>, inner: J) -> J {
        let _ = parent_sp;
        let _ = sp;
        inner
    }

    fn exprs(&self, es: &[hir::Expr<'tcx>]) -> J {
        J::arr(es.iter().map(|e| self.expr(e)).collect())
    }

    fn lit(&self, l: &hir::Lit) -> J {
        use rustc_ast::LitKind;
        match &l.node {
            LitKind::Str(sym, _) => J::arr(vec![J::s("str"), J::s(sym.to_string())]),
            LitKind::ByteStr(b, _) => {
                let bytes: &[u8] = b.as_byte_str();
                let hex: String = bytes.iter().map(|x| format!("{:02x}", x)).collect();
                J::arr(vec![J::s("bstr"), J::s(String::from_utf8_lossy(bytes).to_string()), J::s(hex)])
            }
            LitKind::CStr(b, _) => J::arr(vec![J::s("cstr"), J::s(String::from_utf8_lossy(b.as_byte_str()).to_string())]),
            LitKind::Byte(b) => J::arr(vec![J::s("int"), J::s(format!("{}", b))]),
            LitKind::Char(c) => J::arr(vec![J::s("char"), J::s(c.to_string())]),
            LitKind::Int(v, _) => J::arr(vec![J::s("int"), J::s(format!("{}", v.get()))]),
            LitKind::Float(sym, _) => J::arr(vec![J::s("float"), J::s(sym.to_string())]),
            LitKind::Bool(b) => J::arr(vec![J::s("bool"), J::s(format!("{}", b))]),
            LitKind::Err(_) => J::arr(vec![J::s("err"), J::s("")]),
        }
    }

    fn expr(&self, e: &hir::Expr<'tcx>) -> J {
        let ln = self.cx.line(e.span);
        let mac = if e.span.from_expansion() { self.cx.span(e.span).2 } else { None };
        let n = self.expr_inner(e, ln);
        // a path that names a local carries the identity of its binder ("b": item-local id of the binding pattern), so that a
        // re-binding of the same name (shadowing) can be told from the original binding
        let bind: Option<i64> = if let hir::ExprKind::Path(qp) = &e.kind {
            match self.tr.qpath_res(qp, e.hir_id) {
                Res::Local(hid) => Some(hid.local_id.as_u32() as i64),
                _ => None,
            }
        } else {
            None
        };
        if mac.is_none() && bind.is_none() {
            return n;
        }
        if let J::Arr(mut v) = n {
            // annotate nodes that come out of a macro expansion with the macro chain
            let mut o = J::obj();
            if let Some(m) = mac {
                o.set("m", J::s(m));
            }
            if let Some(b) = bind {
                o.set("b", J::n(b));
            }
            v.push(o);
            J::Arr(v)
        } else {
            n
        }
    }

    fn expr_inner(&self, e: &hir::Expr<'tcx>, ln: i64) -> J {
        use hir::ExprKind as K;
        match &e.kind {
            K::ConstBlock(_) => node("constblock", ln, vec![]),
            K::Array(es) => node("array", ln, vec![self.exprs(es)]),
            K::Call(f, args) => {
                // resolved callee if path
                let callee = self.expr(f);
                node("call", ln, vec![callee, self.exprs(args), J::s(self.ty_of(e))])
            }
            K::MethodCall(seg, recv, args, _) => {
                let def = self.tr.type_dependent_def_id(e.hir_id);
                let p = def.map(|d| self.cx.path(d)).unwrap_or_else(|| "?".into());
                let rty = self.tr.expr_ty_adjusted_opt(recv).map(s).unwrap_or_else(|| "?".into());
                node(
                    "mcall",
                    ln,
                    vec![J::s(p), J::s(seg.ident.to_string()), self.expr(recv), self.exprs(args), J::s(rty), J::s(self.ty_of(e))],
                )
            }
            K::Use(e2, _) => self.expr(e2),
            K::Tup(es) => node("tuple", ln, vec![self.exprs(es)]),
            K::Binary(op, a, b) => node("bin", ln, vec![J::s(d(op.node)), self.expr(a), self.expr(b)]),
            K::Unary(op, a) => node("un", ln, vec![J::s(d(op)), self.expr(a)]),
            K::Lit(l) => node("lit", ln, vec![self.lit(l), J::s(self.ty_of(e))]),
            K::Cast(a, _) => node("cast", ln, vec![self.expr(a), J::s(self.ty_of(a)), J::s(self.ty_of(e))]),
            K::Type(a, _) => self.expr(a),
            K::DropTemps(a) => self.expr(a),
            K::Let(l) => node("let", ln, vec![self.pat(l.pat), self.expr(l.init), J::s(self.ty_of(l.init))]),
            K::If(c, t, el) => node(
                "if",
                ln,
                vec![self.expr(c), self.expr(t), el.map(|x| self.expr(x)).unwrap_or(J::Null)],
            ),
            K::Loop(b, _, src, _) => node("loop", ln, vec![self.block(b), J::s(d(src))]),
            K::Match(scrut, arms, src) => {
                let arms_j: Vec<J> = arms
                    .iter()
                    .map(|a| {
                        J::arr(vec![
                            self.pat(a.pat),
                            a.guard.map(|g| self.expr(g)).unwrap_or(J::Null),
                            self.expr(a.body),
                            J::n(self.cx.line(a.span)),
                        ])
                    })
                    .collect();
                node(
                    "match",
                    ln,
                    vec![self.expr(scrut), J::s(self.ty_of(scrut)), J::arr(arms_j), J::s(d(src))],
                )
            }
            K::Closure(c) => {
                let body = self.tcx().hir_body(c.body);
                let did = c.def_id.to_def_id();
                let params: Vec<J> = body.params.iter().map(|p| self.pat(p.pat)).collect();
                node(
                    "closure",
                    ln,
                    vec![J::s(self.cx.path(did)), J::arr(params), self.expr(body.value), J::s(d(c.kind))],
                )
            }
            K::Block(b, _) => self.block(b),
            K::Assign(l, r, _) => node("assign", ln, vec![self.expr(l), self.expr(r)]),
            K::AssignOp(op, l, r) => node("assignop", ln, vec![J::s(d(op.node)), self.expr(l), self.expr(r)]),
            K::Field(b, id) => node("field", ln, vec![self.expr(b), J::s(id.to_string()), J::s(self.ty_of(b))]),
            K::Index(b, i, _) => node("index", ln, vec![self.expr(b), self.expr(i), J::s(self.ty_of(b))]),
            K::Path(qp) => {
                let (p, k) = self.qpath(qp, e.hir_id);
                node("path", ln, vec![J::s(p), J::s(k), J::s(self.ty_of(e))])
            }
            K::AddrOf(_, m, a) => node("ref", ln, vec![J::b(matches!(m, hir::Mutability::Mut)), self.expr(a)]),
            K::Break(_, v) => node("break", ln, vec![v.map(|x| self.expr(x)).unwrap_or(J::Null)]),
            K::Continue(_) => node("continue", ln, vec![]),
            K::Ret(v) => node("ret", ln, vec![v.map(|x| self.expr(x)).unwrap_or(J::Null)]),
            K::Become(a) => node("become", ln, vec![self.expr(a)]),
            K::InlineAsm(_) => node("asm", ln, vec![]),
            K::OffsetOf(..) => node("offsetof", ln, vec![]),
            K::Struct(qp, fields, tail) => {
                let (p, k) = self.qpath(qp, e.hir_id);
                let fs: Vec<J> = fields
                    .iter()
                    .map(|f| J::arr(vec![J::s(f.ident.to_string()), self.expr(f.expr)]))
                    .collect();
                let base = match tail {
                    hir::StructTailExpr::Base(b) => self.expr(b),
                    hir::StructTailExpr::DefaultFields(_) => J::s(".."),
                    _ => J::Null,
                };
                node("struct", ln, vec![J::s(p), J::s(k), J::arr(fs), base, J::s(self.ty_of(e))])
            }
            K::Repeat(v, _) => node("repeat", ln, vec![self.expr(v), J::s(self.ty_of(e))]),
            K::Yield(a, src) => node("yield", ln, vec![self.expr(a), J::s(d(src))]),
            K::UnsafeBinderCast(_, a, _) => self.expr(a),
            K::Err(_) => node("err", ln, vec![]),
        }
    }

    fn block(&self, b: &hir::Block<'tcx>) -> J {
        let ln = self.cx.line(b.span);
        let mut stmts = vec![];
        for st in b.stmts {
            let sl = self.cx.line(st.span);
            match &st.kind {
                hir::StmtKind::Let(l) => {
                    stmts.push(node(
                        "slet",
                        sl,
                        vec![
                            self.pat(l.pat),
                            l.init.map(|x| self.expr(x)).unwrap_or(J::Null),
                            l.els.map(|x| self.block(x)).unwrap_or(J::Null),
                            l.init.map(|x| J::s(self.ty_of(x))).unwrap_or(J::Null),
                        ],
                    ));
                }
                hir::StmtKind::Item(_) => {}
                hir::StmtKind::Expr(e) => stmts.push(node("sexpr", sl, vec![self.expr(e)])),
                hir::StmtKind::Semi(e) => stmts.push(node("semi", sl, vec![self.expr(e)])),
            }
        }
        node("block", ln, vec![J::arr(stmts), b.expr.map(|x| self.expr(x)).unwrap_or(J::Null)])
    }

    fn pat_expr(&self, pe: &hir::PatExpr<'tcx>) -> J {
        match &pe.kind {
            hir::PatExprKind::Lit { lit, negated } => {
                J::arr(vec![J::s("plit"), self.lit(lit), J::b(*negated)])
            }
            hir::PatExprKind::Path(qp) => {
                let (p, k) = self.qpath(qp, pe.hir_id);
                J::arr(vec![J::s("ppath"), J::s(p), J::s(k)])
            }
        }
    }

    fn pat(&self, p: &hir::Pat<'tcx>) -> J {
        use hir::PatKind as P;
        match &p.kind {
            P::Missing => J::arr(vec![J::s("pwild")]),
            P::Wild => J::arr(vec![J::s("pwild")]),
            P::Binding(mode, hid, id, sub) => J::arr(vec![
                J::s("pbind"),
                J::s(id.to_string()),
                J::s(d(mode)),
                sub.map(|x| self.pat(x)).unwrap_or(J::Null),
                J::n(hid.local_id.as_u32() as i64),
            ]),
            P::Struct(qp, fields, rest) => {
                let (pp, k) = self.qpath(qp, p.hir_id);
                let fs: Vec<J> = fields.iter().map(|f| J::arr(vec![J::s(f.ident.to_string()), self.pat(f.pat)])).collect();
                J::arr(vec![J::s("pstruct"), J::s(pp), J::s(k), J::arr(fs), J::b(rest.is_some())])
            }
            P::TupleStruct(qp, pats, ddpos) => {
                let (pp, k) = self.qpath(qp, p.hir_id);
                J::arr(vec![
                    J::s("pts"),
                    J::s(pp),
                    J::s(k),
                    J::arr(pats.iter().map(|x| self.pat(x)).collect()),
                    ddpos.as_opt_usize().map(|x| J::n(x as i64)).unwrap_or(J::Null),
                ])
            }
            P::Or(pats) => J::arr(vec![J::s("por"), J::arr(pats.iter().map(|x| self.pat(x)).collect())]),
            P::Never => J::arr(vec![J::s("pnever")]),
            P::Tuple(pats, ddpos) => J::arr(vec![
                J::s("ptuple"),
                J::arr(pats.iter().map(|x| self.pat(x)).collect()),
                ddpos.as_opt_usize().map(|x| J::n(x as i64)).unwrap_or(J::Null),
            ]),
            P::Box(x) => J::arr(vec![J::s("pbox"), self.pat(x)]),
            P::Deref(x) => J::arr(vec![J::s("pderef"), self.pat(x)]),
            P::Ref(x, ..) => J::arr(vec![J::s("pref"), self.pat(x)]),
            P::Expr(pe) => self.pat_expr(pe),
            P::Guard(x, g) => J::arr(vec![J::s("pguard"), self.pat(x), self.expr(g)]),
            P::Range(lo, hi, end) => J::arr(vec![
                J::s("prange"),
                lo.map(|x| self.pat_expr(x)).unwrap_or(J::Null),
                hi.map(|x| self.pat_expr(x)).unwrap_or(J::Null),
                J::s(d(end)),
            ]),
            P::Slice(a, m, b) => J::arr(vec![
                J::s("pslice"),
                J::arr(a.iter().map(|x| self.pat(x)).collect()),
                m.map(|x| self.pat(x)).unwrap_or(J::Null),
                J::arr(b.iter().map(|x| self.pat(x)).collect()),
            ]),
            P::Err(_) => J::arr(vec![J::s("perr")]),
        }
    }
}

#[allow(dead_code)]
fn _unused<'tcx>(_: Ty<'tcx>) {}
