#!/bin/bash
# usage: run.sh <repo_root> <out_dir> <config-name> <target_dir|-> [cargo check args...]
# Runs `cargo +nightly check` on <repo_root> with the dcmfacts driver as workspace wrapper.
# target_dir "-"  : fresh temporary target dir, removed afterwards.
# target_dir path : persistent dir holding third-party dependency artefacts only; the fingerprints of
#                   all workspace members are deleted first so that cargo re-runs the wrapper on each
#                   of them (cargo's freshness cache would otherwise skip the wrapper).
set -euo pipefail
ROOT=$(cd "$1" && pwd); OUT=$2; CFG=$3; TGT=$4; shift 4
HERE=$(cd "$(dirname "$0")" && pwd)
DRV=$HERE/target/release/dcmfacts
[ -x "$DRV" ] || { echo "dcmfacts driver not built (run setup)"; exit 2; }
mkdir -p "$OUT"
export CARGO_NET_OFFLINE=true
cd "$ROOT"
if [ "$TGT" = "-" ]; then
  TGT=$(mktemp -d /var/tmp/dcmfacts_tgt.XXXXXX)
  trap 'rm -rf "$TGT"' EXIT
else
  mkdir -p "$TGT"
  if [ -d "$TGT/debug/.fingerprint" ]; then
    for name in $(cargo +nightly metadata --no-deps --offline --format-version 1 2>/dev/null | python3 -c 'import json,sys; [print(p["name"]) for p in json.load(sys.stdin)["packages"]]'); do
      rm -rf "$TGT"/debug/.fingerprint/"$name"-????????????????
    done
  fi
fi
export LD_LIBRARY_PATH=$(rustc +nightly --print sysroot)/lib
export RUSTFLAGS="-Zmir-opt-level=0 -Cdebug-assertions=off -Coverflow-checks=off -Awarnings"
export RUSTC_WORKSPACE_WRAPPER=$DRV
export DCMFACTS_OUT=$OUT DCMFACTS_ROOT=$ROOT DCMFACTS_CONFIG=$CFG CARGO_TARGET_DIR=$TGT
export CARGO_INCREMENTAL=0
cargo +nightly check --offline "$@" >"$OUT/cargo.log" 2>&1 || { tail -40 "$OUT/cargo.log"; echo "cargo check failed"; exit 3; }
