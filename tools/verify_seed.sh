#!/bin/bash
# usage: verify_seed.sh <ID> <demo cargo args...>   e.g. verify_seed.sh C30 -p dicom-ul --features async --test seeded_c30
# Confirms, in the agent's own scratch worktree /tmp/wt/<ID>: patch == worktree diff, demo fails with the change,
# passes without it, workspace compiles, and no test of the workspace that passes on the unchanged tree fails with it.
ID=$1; shift
WT=/tmp/wt/$ID; OUT=/tmp/wt/$ID-out; LOG=$OUT/verify.log
exec >"$LOG" 2>&1
set -x
cd "$WT" || exit 9
export CARGO_NET_OFFLINE=true
git diff > "$OUT/current.diff"
if diff -q <(grep -v '^index ' "$OUT/current.diff") <(grep -v '^index ' "$OUT/patch.diff"); then echo "PATCH_MATCHES_WORKTREE=yes"; else echo "PATCH_MATCHES_WORKTREE=no"; fi
cargo check --workspace --offline -j 14 2>&1 | tail -2; echo "CHECK_RC=${PIPESTATUS[0]}"
cargo test --offline -j 14 "$@" 2>&1 | grep -E "^test |test result" | tail -15; echo "DEMO_WITH_CHANGE_RC=${PIPESTATUS[0]}"
cargo test --workspace --offline --no-fail-fast -j 14 2>&1 | grep -E "^test .* \.\.\. FAILED" | sort -u > "$OUT/failed_with_change.txt"
git apply -R "$OUT/patch.diff" || { echo "REVERT_FAILED"; exit 8; }
cargo test --offline -j 14 "$@" 2>&1 | grep -E "^test |test result" | tail -15; echo "DEMO_WITHOUT_CHANGE_RC=${PIPESTATUS[0]}"
git apply "$OUT/patch.diff" || echo "REAPPLY_FAILED"
echo "NEW_FAILURES_VS_BASELINE:"; comm -23 "$OUT/failed_with_change.txt" /tmp/wt/baseline_failed.txt
echo VERIFY_DONE
