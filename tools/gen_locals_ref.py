#!/usr/bin/env python3
"""gen_locals_ref.py : write refs/locals.json -- per crate and function, the local names (with their binder/use/type signature) of
the pinned tree, in binding order. rules/facts.py uses it to alpha-normalise renamed locals (canonical_locals). Run on the pinned,
unchanged /repo only; function paths that occur more than once in a crate are left out (no normalisation there)."""
import json, os, sys
V = os.path.dirname(os.path.dirname(os.path.abspath(__file__)))
sys.path.insert(0, V)
os.environ["VERIF_NO_CANON"] = "1"
from rules import facts  # noqa: E402
out = {}
total = 0
for config in ["W"] + [c for c in facts.CONFIGS if c != "W"]:
    try:
        fx = facts.load(config)
    except Exception as e:  # configs that are only extracted on demand
        print("skip", config, e)
        continue
    for (c, k), d in fx.all_crates():
        key = f"{c}/{k}"
        tab = out.setdefault(key, {})
        seen = {}
        for h in d["hir"]:
            seen[h["path"]] = seen.get(h["path"], 0) + 1
        for h in d["hir"]:
            if seen[h["path"]] > 1:
                continue
            names = facts.local_names(h)
            if names and h["path"] not in tab:
                tab[h["path"]] = names
                total += 1
json.dump(out, open(os.path.join(V, "refs", "locals.json"), "w"), separators=(",", ":"))
print("functions with locals:", total, "crates:", len(out))
