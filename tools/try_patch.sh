#!/bin/bash
# usage: try_patch.sh <patch file> <Cxx> [more Cxx...] : apply a patch to /repo's working tree, run the checks, undo. Never commits.
P=$1; shift
cd /verif
export VERIF_EVIDENCE_DIR=$(mktemp -d)  # evidence of runs on deliberately broken trees does not replace /verif/evidence
if ! git -C /repo diff --quiet; then echo "dirty /repo, aborting"; exit 3; fi
git -C /repo apply "$P" || { echo "PATCH DOES NOT APPLY"; exit 3; }
for c in "$@"; do ./vcheck $c 2>&1 | grep -a -v KNOWN-FINDING | grep -a -E "VIOLATION|key:|\] OK:|cannot analyse" | head -8; done
git -C /repo checkout -- . ; git -C /repo status --short | head -3
