#!/bin/bash
# usage: try_seed.sh <seed-dir-name> <Cxx> [more Cxx...] : apply a kept seed to /repo, run the checks, undo
S=/verif/seeded/$1; shift
cd /verif
git -C /repo apply "$S/patch.diff" || { echo "PATCH DOES NOT APPLY"; exit 3; }
for c in "$@"; do ./vcheck $c 2>&1 | grep -a -E "VIOLATION|key:|\] OK:|cannot analyse" | head -6; done
git -C /repo checkout -- . ; git -C /repo status --short | head -3
