#!/usr/bin/env python3
"""Generate MANIFEST.json from the rule modules present in rules/ (keeps the manifest valid at all times)."""
import importlib
import json
import os
import subprocess
import sys

HERE = os.path.dirname(os.path.dirname(os.path.abspath(__file__)))
sys.path.insert(0, HERE)

NA = {
    "C12": "partial date/time text round trip and range bounds are calendar arithmetic over runtime values; no table, pairing, ordering or sibling clause is a necessary condition that static analysis could decide without re-implementing format!/parse",
    "C17": "pure value round trip of person-name components through text; the only structure is two separator literals",
    "C18": "offset-table entries, fragment lengths and totals are arithmetic over runtime sizes; no structural clause stands for the property",
    "C19": "equality of pixel values after two codecs (third-party encoders/decoders); nothing structural beyond C16's codec tables",
    "C20": "RLE segment placement and byte interleaving are index arithmetic over runtime sizes; control-byte classes alone are too thin to stand for the property",
    "C21": "bit/byte slicing arithmetic over rows x columns x frames of runtime data",
    "C22": "numeric formulas (rescale, window functions) evaluated over every stored value; needs evaluation, not shape",
    "C35": "pixel value equality through two binaries and the image crate",
    "C36": "string value round trip; a single '@' literal is all there is to compare",
}
PENDING_REASON = "not claimed in this commit: rule module not built yet (see DESIGN.md section 3 for the planned rules)"


def main():
    props = [json.loads(l) for l in open(os.path.join(HERE, "properties.jsonl"))]
    checks = []
    na = []
    for p in props:
        pid = p["id"]
        modp = os.path.join(HERE, "rules", pid.lower() + ".py")
        if os.path.exists(modp):
            mod = importlib.import_module("rules." + pid.lower())
            checks.append({
                "property_id": pid,
                "quick_cmd": f"./vcheck {pid} --tier quick",
                "thorough_cmd": f"./vcheck {pid} --tier thorough",
                "evidence_file": f"/verif/evidence/{pid}.json",
                "replay_cmd_template": f"./vcheck {pid} --tier quick  # violations are listed in {{path}} under coverage.violation_details",
                "engine": "dcmfacts+rules",
                "level_claimed": {
                    "category": "other",
                    "text": getattr(mod, "LEVEL_TEXT", "structural necessary conditions decided by static analysis"),
                    "design_ref": f"DESIGN.md section 3, {pid}",
                },
                "level_note": getattr(mod, "LEVEL_NOTE", "Trusted: rustc's HIR/MIR as the meaning of the source; third-party crates and std behave as documented; "
                                      "reference tables in refs/ transcribe the DICOM standard correctly. Decides the structural clauses listed in DESIGN.md, "
                                      "not the runtime behaviour as a whole."),
                "technique": getattr(mod, "TECHNIQUE", "static analysis: custom rustc_private driver (resolved HIR + MIR CFG) and repository-specific rules"),
            })
        elif pid in NA:
            na.append({"property_id": pid, "reason": NA[pid]})
        else:
            na.append({"property_id": pid, "reason": PENDING_REASON})
    fixes = []
    try:
        out = subprocess.run(["git", "-C", "/repo", "log", "--format=%H %s"], capture_output=True, text=True).stdout
        for line in out.splitlines():
            h, _, s = line.partition(" ")
            if s.startswith("fix:"):
                fixes.append(h)
    except Exception:
        pass
    man = {
        "version": 1,
        "setup_cmd": "cd /verif/driver && CARGO_NET_OFFLINE=true cargo +nightly build --release --offline && cd /verif && ./vcheck --warm",
        "hooks": {
            "guard": "dicom_rs_verif",
            "enable": "none needed: the analysis reads the normal build (cargo +nightly check with the dcmfacts RUSTC_WORKSPACE_WRAPPER); no hook code exists in /repo",
            "baseline_off_cmd": "cd /repo && cargo test --workspace --no-fail-fast --offline",
            "source_commits": fixes,
            "add_only": True,
        },
        "engines": [
            {"name": "dcmfacts", "path": "/verif/driver", "kind_free_text": "rustc_private driver (nightly) dumping resolved HIR trees, MIR CFGs, ADTs and compiler-evaluated constants of every workspace crate",
             "serves_properties": [c["property_id"] for c in checks]},
            {"name": "rules", "path": "/verif/rules", "kind_free_text": "Python rule engine: table extraction, sibling agreement, CFG pairing/dominance, provenance, cast guards, reachability inventories",
             "serves_properties": [c["property_id"] for c in checks]},
        ],
        "checks": checks,
        "not_applicable": na,
        "notes": "Technique family: static analysis only. Every verdict is computed from /repo's current source (facts re-extracted whenever the tree hash changes); nothing of dicom-rs is executed. See DESIGN.md.",
    }
    with open(os.path.join(HERE, "MANIFEST.json"), "w") as fh:
        json.dump(man, fh, indent=1)
    print(f"MANIFEST.json: {len(checks)} checks, {len(na)} not_applicable")


if __name__ == "__main__":
    main()
