#!/usr/bin/env python3
"""make_round_task.py <suffix> <ID...> : write /tmp/wt/<ID><suffix>-out/TASK.txt for a fresh seeding sub-agent (the agent gets the
property text and its own worktree only -- nothing from /verif). Files touched by earlier kept seeds of the property are named so that
the new change lands somewhere else."""
import glob, json, os, re, sys
suffix, ids = sys.argv[1], sys.argv[2:]
props = {json.loads(l)["id"]: json.loads(l) for l in open("/verif/properties.jsonl")}
tmpl = open("/verif/tools/task_template.txt").read()
for pid in ids:
    p = props[pid]
    touched = []
    for d in sorted(glob.glob(f"/verif/seeded/{pid}*/patch.diff")) + sorted(glob.glob(f"/tmp/wt/{pid}?-out/patch.diff")):
        for m in re.finditer(r"^diff --git a/(\S+)", open(d).read(), re.M):
            if m.group(1) not in touched:
                touched.append(m.group(1))
    wid = pid + suffix
    os.makedirs(f"/tmp/wt/{wid}-out", exist_ok=True)
    n = len(glob.glob(f"/verif/seeded/{pid}*/patch.diff"))
    txt = tmpl.replace("@WID@", wid).replace("@wid@", wid.lower()).replace("@PID@", pid).replace("@TITLE@", p["title"]).replace("@STATEMENT@", p["statement"])
    txt = txt.replace("@OTHERS@", f"{n} other reviewers have already proposed changes in: {', '.join(touched)}. Yours must be DIFFERENT from all of them: in another function, and preferably another file or another aspect of the property (read the property statement again: every clause and every listed case is fair game; code that the property depends on indirectly -- helpers, option plumbing, sibling implementations, constants, tables -- is fair game too).")
    open(f"/tmp/wt/{wid}-out/TASK.txt", "w").write(txt)
    print(wid, len(touched), "files excluded")
