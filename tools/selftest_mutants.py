#!/usr/bin/env python3
"""usage: selftest_mutants.py [Cxx ...] [--only <rule>]
Apply each hand-made mutant of selftest/mutants.py to /repo's working tree (one at a time), run the property's check, require a
VIOLATION whose key starts with the mutant's rule, restore the tree. Never commits to /repo. Writes selftest/mutants.last.tsv."""
import os
import subprocess
import sys

V = os.path.dirname(os.path.dirname(os.path.abspath(__file__)))
sys.path.insert(0, os.path.join(V, "selftest"))
from mutants import MUTANTS  # noqa: E402

REPO = os.environ.get("VERIF_REPO", "/repo")  # a scratch worktree can be used while /repo is busy (VERIF_TARGET for its dependency cache)
args = [a for a in sys.argv[1:]]
only_rule = None
if "--only" in args:
    i = args.index("--only")
    only_rule = args[i + 1]
    del args[i:i + 2]
only_new = "--new" in args
if only_new:
    args.remove("--new")
want = set(args)


def clean():
    return subprocess.run(["git", "-C", REPO, "diff", "--quiet"]).returncode == 0


import tempfile
scratch_evidence = tempfile.mkdtemp()
results = {}
prev = os.path.join(V, "selftest", "mutants.last.tsv")
if os.path.exists(prev):
    for line in open(prev):
        r = line.rstrip("\n").split("\t")
        if len(r) >= 4 and not line.startswith("#"):
            results[(r[0], r[1], r[2])] = r
for entry in MUTANTS:
    (prop, rule, path, old, new, what) = entry[:6]
    every = len(entry) > 6 and entry[6] == "all"
    if want and prop not in want:
        continue
    if only_rule and rule != only_rule:
        continue
    if only_new and results.get((prop, rule, what), [None] * 4)[3] == "CAUGHT":
        continue
    if not clean():
        print("dirty /repo, aborting")
        sys.exit(3)
    full = os.path.join(REPO, path)
    src = open(full).read()
    if src.count(old) != 1 and not (every and src.count(old) > 1):
        res = f"NOAPPLY({src.count(old)} occurrences)"
        keys = ""
    else:
        open(full, "w").write(src.replace(old, new))
        try:
            env = dict(os.environ)
            env["VERIF_EVIDENCE_DIR"] = scratch_evidence  # never replace /verif/evidence with a run on a mutant
            out = subprocess.run([os.path.join(V, "vcheck"), prop], cwd=V, env=env, stdout=subprocess.PIPE, stderr=subprocess.STDOUT).stdout.decode("utf-8", "replace")
        finally:
            subprocess.run(["git", "-C", REPO, "checkout", "--", "."])
        ks = [l.split("key:", 1)[1].strip() for l in out.splitlines() if "key:" in l]
        hit = [k for k in ks if k.startswith(rule + "/")]
        if "cannot analyse" in out or "does /repo compile" in out:
            res = "NOCOMPILE"
        elif f"VIOLATION property={prop}" in out and hit:
            res = "CAUGHT"
        elif f"VIOLATION property={prop}" in out:
            res = "OTHER-RULE"
        else:
            res = "MISSED"
        keys = " ".join((hit or ks)[:3])
    print(f"{res:10s} {prop} {rule:24s} {what[:70]}", flush=True)
    results[(prop, rule, what)] = [prop, rule, what, res, keys]
with open(prev, "w") as fh:
    fh.write("# property\trule\tmutant\tresult\tfirst keys (tools/selftest_mutants.py)\n")
    for k in sorted(results):
        fh.write("\t".join(results[k]) + "\n")
