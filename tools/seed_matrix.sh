#!/bin/bash
# usage: seed_matrix.sh [seed-dir-name ...] : apply each kept seed to /repo's working tree, run the check of its property
# (plus any extra checks listed in seeded/<name>/also.txt), record which rule keys fire, restore the tree. Never commits to /repo.
# Writes seeded/MATRIX.tsv and fills "detected_by" in each meta.json.
cd /verif
export VERIF_EVIDENCE_DIR=$(mktemp -d)  # evidence of runs on deliberately broken trees does not replace /verif/evidence
names="$*"; [ -z "$names" ] && names=$(ls seeded | grep -v MATRIX)
: > /tmp/seed_matrix.$$
for n in $names; do
  S=/verif/seeded/$n; [ -f "$S/patch.diff" ] || continue
  p=$(python3 -c "import json;print(json.load(open('$S/meta.json'))['property'])")
  if ! git -C /repo diff --quiet; then echo "dirty /repo, aborting"; exit 3; fi
  if ! git -C /repo apply "$S/patch.diff" 2>/dev/null; then echo -e "$n\t$p\tNOAPPLY\t" >> /tmp/seed_matrix.$$; continue; fi
  checks="$p"; [ -f "$S/also.txt" ] && checks="$checks $(cat $S/also.txt)"
  for c in $checks; do
    out=$(./vcheck "$c" 2>&1)
    if echo "$out" | grep -q "^VIOLATION property=$c"; then
      keys=$(echo "$out" | grep -a 'key:' | sed 's/^ *key: //' | head -4 | tr '\n' ' ')
      echo -e "$n\t$c\tCAUGHT\t$keys" >> /tmp/seed_matrix.$$
    else
      echo -e "$n\t$c\tMISSED\t" >> /tmp/seed_matrix.$$
    fi
  done
  git -C /repo checkout -- .
done
python3 - "$$" <<'PY'
import sys, json, os, collections
rows=[l.rstrip("\n").split("\t") for l in open(f"/tmp/seed_matrix.{sys.argv[1]}")]
old={}
if os.path.exists("seeded/MATRIX.tsv"):
    for l in open("seeded/MATRIX.tsv"):
        if l.startswith("#"): continue
        r=l.rstrip("\n").split("\t")
        if len(r)>=3: old[(r[0],r[1])]=r
for r in rows: old[(r[0],r[1])]=r
with open("seeded/MATRIX.tsv","w") as fh:
    fh.write("# seed\tcheck\tresult\tfirst rule keys reported (tools/seed_matrix.sh)\n")
    for k in sorted(old): fh.write("\t".join(old[k])+"\n")
by=collections.defaultdict(list)
for (n,c),r in old.items():
    if r[2]=="CAUGHT": by[n].append({"check":c,"keys":r[3].split()})
for n,v in by.items():
    mp=f"seeded/{n}/meta.json"
    if os.path.exists(mp):
        m=json.load(open(mp)); m["detected_by"]=v; json.dump(m,open(mp,"w"),indent=1)
PY
rm -f /tmp/seed_matrix.$$
