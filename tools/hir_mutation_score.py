#!/usr/bin/env python3
"""hir_mutation_score.py [--per-fn K] [--jobs J] [--seed S] Cxx [Cxx ...]

Checker self-assessment: for every function defined in the files a property is anchored in, apply up to K single facts-level mutations
(rules/hirmut.py: operator flips, literal +1, dropped `!`, swapped same-typed arguments), run the property's check on the mutated
facts and record whether it reports a violation. Writes selftest/hirmut/<Cxx>.tsv (one row per mutant) and prints, per function, how
many mutants went unnoticed. Survivors are leads to read (many are equivalent or irrelevant to the property), not verdicts.
Nothing in /repo is touched; evidence of these runs goes to a scratch directory."""
import concurrent.futures as cf
import json
import os
import random
import re
import subprocess
import sys
import tempfile

V = os.path.dirname(os.path.dirname(os.path.abspath(__file__)))
sys.path.insert(0, V)
from rules import facts, hirmut  # noqa: E402

args = sys.argv[1:]


def opt(name, default):
    if name in args:
        i = args.index(name)
        v = args[i + 1]
        del args[i:i + 2]
        return v
    return default


per_fn = int(opt("--per-fn", "2"))
jobs = int(opt("--jobs", "6"))
seed = int(opt("--seed", "1"))
only = opt("--fn", None)
props = {json.loads(l)["id"]: json.loads(l) for l in open(os.path.join(V, "properties.jsonl"))}
fx = facts.load("W")
scratch = tempfile.mkdtemp()


def run_one(pid, spec):
    env = dict(os.environ, VERIF_MUTATE=spec, VERIF_EVIDENCE_DIR=scratch)
    r = subprocess.run([os.path.join(V, "vcheck"), pid], env=env, stdout=subprocess.PIPE, stderr=subprocess.STDOUT, text=True)
    if "VIOLATION property=" in r.stdout:
        keys = re.findall(r"key: (\S+)", r.stdout)
        return "killed", (keys[0] if keys else "")
    if re.search(r"\] OK:", r.stdout):
        return "survived", ""
    return "error", r.stdout[-200:].replace("\n", " ")


for pid in args:
    files = set(props[pid]["anchors"]["files"])
    wanted = {"dicom_" + f.split("/")[0].replace("-", "_") for f in files}
    rng = random.Random(seed)
    todo = []
    for key in sorted(fx.files):
        if key[0] not in wanted:
            continue
        d = fx.crate(*key)
        for h in d["hir"]:
            if h["loc"]["f"] not in files or h["loc"].get("m") or re.search(r"::tests?::|::test_", h["path"]):
                continue
            if only and only not in h["path"]:
                continue
            pts = hirmut.points(h)
            if not pts:
                continue
            idxs = list(range(len(pts)))
            rng.shuffle(idxs)
            for i in sorted(idxs[:per_fn]):
                todo.append((h["path"], h["loc"]["f"], pts[i][0], f"{key[0]}/{key[1]}|{h['path']}|{i}"))
    print(f"[{pid}] {len(todo)} mutants over {len({t[0] for t in todo})} functions", flush=True)
    rows = []
    with cf.ThreadPoolExecutor(max_workers=jobs) as ex:
        futs = {ex.submit(run_one, pid, t[3]): t for t in todo}
        for f in cf.as_completed(futs):
            t = futs[f]
            res, info = f.result()
            rows.append((t[1], t[0], t[2], res, info))
    rows.sort()
    os.makedirs(os.path.join(V, "selftest", "hirmut"), exist_ok=True)
    with open(os.path.join(V, "selftest", "hirmut", f"{pid}.tsv"), "w") as fh:
        fh.write("# file\tfunction\tmutation\tresult\tfirst key reported\n")
        for r in rows:
            fh.write("\t".join(r) + "\n")
    killed = sum(1 for r in rows if r[3] == "killed")
    print(f"[{pid}] killed {killed}/{len(rows)}; survivors by function:")
    by = {}
    for r in rows:
        by.setdefault((r[0], r[1]), []).append(r)
    for (f, fn), rs in sorted(by.items()):
        s = [r for r in rs if r[3] != "killed"]
        if s:
            print(f"   {f} {fn[-70:]}: {len(s)}/{len(rs)} unnoticed: " + "; ".join(r[2] for r in s)[:160])
