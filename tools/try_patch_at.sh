#!/bin/bash
# usage: try_patch_at.sh <patch file> <Cxx> [more Cxx...] : like try_patch.sh but on the scratch worktree /tmp/wt/probe (so that it can
# run while another tool is using /repo's working tree). Evidence of these runs goes to a scratch directory.
P=$1; shift
W=/tmp/wt/${PROBE:-probe}
cd /verif
git -C $W checkout -q -- . ; git -C $W clean -fdq
git -C $W apply "$P" || { echo "PATCH DOES NOT APPLY"; exit 3; }
E=$(mktemp -d)
for c in "$@"; do VERIF_REPO=$W VERIF_TARGET=/var/tmp/verif_${PROBE:-probe}_target VERIF_EVIDENCE_DIR=$E ./vcheck $c 2>&1 | grep -a -v KNOWN-FINDING | grep -a -E "VIOLATION|key:|\] OK:|cannot analyse" | head -8; done
rm -rf "$E"; git -C $W checkout -q -- .
