#!/bin/bash
# usage: selftest_fixes.sh [Cxx ...]  : for every "fixed:" line of known_findings.txt (optionally only for the given properties),
# reverse-apply the fix commit to /repo's working tree, run the property's check (it must report a VIOLATION), and restore the tree.
# Never commits anything to /repo. Output: one line per fix: CAUGHT / MISSED / NOAPPLY.
cd /verif
export VERIF_EVIDENCE_DIR=$(mktemp -d)  # evidence of runs on deliberately broken trees does not replace /verif/evidence
want="$*"
grep '^fixed:' known_findings.txt | while read -r _ prop commit rest; do
  p=${prop#property=}
  if [ -n "$want" ] && ! echo " $want " | grep -q " $p "; then continue; fi
  if ! git -C /repo diff --quiet; then echo "dirty /repo, aborting"; exit 3; fi
  if git -C /repo show "$commit" -- . ':!*/tests/*' | git -C /repo apply -R 2>/dev/null; then
    out=$(./vcheck "$p" 2>&1)
    if echo "$out" | grep -q "^VIOLATION property=$p"; then
      echo "CAUGHT  $p $commit $(echo "$out" | grep -a 'key:' | head -2 | tr -s ' ' | tr '\n' ' ')"
    else
      echo "MISSED  $p $commit"
    fi
    git -C /repo checkout -- .
  else
    echo "NOAPPLY $p $commit"
  fi
done
