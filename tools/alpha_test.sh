#!/bin/bash
# alpha_test.sh [Cxx ...] : metamorphic self-test of the checker. Every local variable of every function is renamed in the facts
# (behaviour-preserving), then each check must still pass. Evidence of these runs goes to a scratch directory, not /verif/evidence.
cd "$(dirname "$0")/.."
ids=${@:-$(python3 -c "import json;print(' '.join(c['property_id'] for c in json.load(open('MANIFEST.json'))['checks']))")}
out=$(mktemp -d); rc=0
for p in $ids; do
  r=$(VERIF_ALPHA=${ALPHA:-_zq} VERIF_EVIDENCE_DIR=$out ./vcheck $p 2>&1)
  if echo "$r" | grep -q "^VIOLATION"; then rc=1; echo "ALPHA-FRAGILE $p: $(echo "$r" | grep -c 'key:') instance(s)"; echo "$r" | grep "key:" | sed 's/^ *//' | head -40; else echo "alpha-stable $p"; fi
done
rm -rf "$out"; exit $rc
