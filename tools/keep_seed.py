#!/usr/bin/env python3
"""keep_seed.py <ID> <name> <demo cargo args...> : store a confirmed seeded defect under /verif/seeded/<name>/"""
import json, os, re, shutil, sys
pid, name = sys.argv[1], sys.argv[2]
demo_args = sys.argv[3:]
out = f"/tmp/wt/{pid}-out"
dst = f"/verif/seeded/{name}"
log = open(f"{out}/verify.log", errors="replace").read()
def flag(k):
    m = re.findall(rf"^{k}=(\S+)", log, re.M)
    return m[-1] if m else None
new_fail = []
if "NEW_FAILURES_VS_BASELINE:" in log:
    tail = log.split("NEW_FAILURES_VS_BASELINE:")[-1]
    new_fail = [l.strip() for l in tail.splitlines() if l.startswith("test ")]
ok = (flag("PATCH_MATCHES_WORKTREE") == "yes" and flag("CHECK_RC") == "0" and flag("DEMO_WITH_CHANGE_RC") not in (None, "0")
      and flag("DEMO_WITHOUT_CHANGE_RC") == "0" and "VERIFY_DONE" in log)
if not ok:
    print("NOT CONFIRMED", pid, {k: flag(k) for k in ("PATCH_MATCHES_WORKTREE", "CHECK_RC", "DEMO_WITH_CHANGE_RC", "DEMO_WITHOUT_CHANGE_RC")})
    sys.exit(1)
os.makedirs(dst, exist_ok=True)
shutil.copy(f"{out}/patch.diff", f"{dst}/patch.diff")
if os.path.isdir(f"{dst}/demo"):
    shutil.rmtree(f"{dst}/demo")
shutil.copytree(f"{out}/demo", f"{dst}/demo")
readme = open(f"{out}/README.md", errors="replace").read()
shutil.copy(f"{out}/README.md", f"{dst}/AGENT_README.md")
base = os.popen(f"git -C /tmp/wt/{pid} rev-parse HEAD").read().strip()
meta = {
    "property": pid[:3],
    "round": {"b": 2, "c": 3, "d": 4, "e": 5}.get(pid[-1], 1),
    "breaks": readme.split("\n\n")[0][:600],
    "needs_to_manifest": "see AGENT_README.md (section on the condition needed); summary: " + " ".join(
        l.strip() for l in readme.splitlines() if re.search(r"(?i)manifest|trigger|condition", l))[:700],
    "base_commit": base,
    "demo": {"copy_to": "see demo/README.md", "cargo_args": demo_args},
    "confirmed_by_me": {
        "where": f"scratch worktree /tmp/wt/{pid} (removed afterwards)",
        "ran": ["git diff == patch.diff", "cargo check --workspace --offline (rc 0)",
                "cargo test --offline " + " ".join(demo_args) + " with the change: FAILS",
                "git apply -R patch.diff; same command: PASSES",
                "cargo test --workspace --offline --no-fail-fast with the change; failing set minus the 54 baseline failures = the demo tests only"],
        "new_failures_vs_baseline": new_fail,
        "note": "dicom-ul test_slow_association* are TCP timing tests that fail randomly under machine load; they are unrelated to the change" if any("test_slow_association" in x for x in new_fail) else "",
    },
    "detected_by": None,
}
json.dump(meta, open(f"{dst}/meta.json", "w"), indent=1)
print("kept", dst)
