#!/bin/bash
# vprobe.sh <Cxx...> : run checks against the scratch worktree /tmp/wt/probe (clean pinned tree unless a patch was applied there), evidence to a scratch dir
cd /verif; E=$(mktemp -d)
for c in "$@"; do VERIF_REPO=/tmp/wt/${PROBE:-probe} VERIF_TARGET=/var/tmp/verif_${PROBE:-probe}_target VERIF_EVIDENCE_DIR=$E ./vcheck $c 2>&1 | grep -a -v KNOWN-FINDING; done
rm -rf $E
