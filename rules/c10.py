"""C10 — text is encoded and decoded faithfully in every supported character set (tables and wiring).

1. charset: for all 16 CharsetImpl variants: from_code(name(v)) == v; decode(v) and encode(v) dispatch to the same
   codec type; that type's name() literal == name(v); its `encoding` table is the one refs/charsets.tsv names;
   every encode uses EncoderTrap::Strict (unrepresentable character -> error, never a substitution).
2. charset-switch: writer and reader switch the codec exactly at (0008,0005).
3. declared-vs-default: VRs that carry the declared character set (SH LO ST LT PN UC UT) use `self.text` on both
   the writer and the reader side; the actual per-VR tables of both sides are extracted and compared.
"""
from . import facts, hirq as H, common as C

LEVEL_TEXT = ("Exhaustive over the 16 character set variants x 4 tables and over the 34 VRs on both writer and reader side. "
              "Decides table agreement and wiring; that each third-party `encoding` table is itself faithful is trusted.")

T = "dicom_encoding::text"
CI = f"{T}::CharsetImpl"
SE = "dicom_parser::stateful::encode::StatefulEncoder"
SD = "dicom_parser::stateful::decode::StatefulDecoder"
DECLARED_VRS = ["SH", "LO", "ST", "LT", "PN", "UC", "UT"]
CS_TAG = ("8", "5")


def is_cs_tag_test(cond):
    """`X.tag == Tag(0x0008, 0x0005)`"""
    c = H.peel(cond)
    if H.kind(c) != "bin" or c[2] != "Eq":
        return False
    for a, b in ((c[3], c[4]), (c[4], c[3])):
        b = H.peel(b)
        if H.kind(b) == "call" and (H.callee(b) or "").endswith("header::Tag") and [H.int_lit(x) for x in b[3]] == [8, 5]:
            if H.show(a, 4).endswith(".tag"):
                return True
    return False


def run(chk, tier):
    fx = facts.load("W")
    chk.analysed["facts"] = fx.meta
    chk.assume("the tables of the third-party `encoding` crate are faithful for the encodings they name")
    chk.assume("refs/charsets.tsv names, per defined term, the encoding tables that implement (or are a superset of) the registered set")
    ref = {r[0]: set(r[2].split(",")) for r in C.read_tsv("charsets.tsv")}
    variants = fx.variants(CI)
    chk.expect(len(variants) == 16, "charset", CI, "variant-count", 16, len(variants))

    # ---------- rule 1
    chk.rule("charset", "name/from_code/decode/encode tables of CharsetImpl agree per variant; codec types carry the same defined term and the "
             "reference encoding table; encoders are strict")
    # name(v)
    h = fx.hirfn(f"<{CI} as {T}::TextCodec>::name")
    m = H.matches_over(h["body"], lambda t: t == CI)
    if len(m) != 1:
        raise facts.MissingAnchor("CharsetImpl::name: match over CharsetImpl")
    tab, arms = H.enum_table(m[0], variants, CI)
    name_of = {}
    for v in variants:
        l = H.lit(arms[tab[v][0]][2]) if tab[v] else None
        name_of[v] = l[1] if l and l[0] == "str" else None
        chk.expect(name_of[v] in ref, "charset", "name", v, "a defined term of refs/charsets.tsv", name_of[v], loc=C.fn_loc(h))
    chk.expect(len(set(name_of.values())) == len(variants), "charset", "name", "distinct-terms", len(variants), len(set(name_of.values())))
    # from_code
    h = fx.hirfn(f"{CI}::from_code")
    ms = [x for x in H.walk(h["body"]) if H.kind(x) == "match" and x[3].lstrip("&") == "str"]
    if len(ms) != 1:
        raise facts.MissingAnchor("CharsetImpl::from_code: match over &str")
    code_to = {}
    wild_none = False
    for p, g, b, ln in H.match_arms(ms[0]):
        b0 = H.peel(b)
        target = None
        if H.kind(b0) == "call" and (H.callee(b0) or "").endswith("Option::Some"):
            target = (H.path_of(b0[3][0]) or "").split("::")[-1]
        for alt in H.pat_alts(p):
            hd = H.pat_head(alt)
            if hd[0] == "lit":
                code_to[hd[1]] = target
            elif hd[0] == "wild":
                wild_none = (H.path_of(b0) or "").endswith("Option::None")
    chk.expect(wild_none, "charset", "from_code", "unknown-term", "_ => None", wild_none)
    for v in variants:
        chk.expect(code_to.get(name_of[v]) == v, "charset", "from_code", f"from_code(name({v}))", v, code_to.get(name_of[v]), loc=C.fn_loc(h))
    # every alias maps to a variant whose name is in the same family (ISO_IR n / ISO 2022 IR n)
    for code, v in sorted(code_to.items()):
        import re
        n1 = re.findall(r"\d+", code)
        n2 = re.findall(r"\d+", name_of.get(v) or "")
        ok = v in variants and (n1[-1:] == n2[-1:] or code in ("Default", "GBK", "GB2312", "GB18030", "ISO 2022 IR 58"))
        chk.expect(ok, "charset", "from_code", f"alias:{code}", "maps to the variant of the same registration number", v)
    # decode / encode dispatch
    disp = {}
    for fn in ("decode", "encode"):
        h = fx.hirfn(f"<{CI} as {T}::TextCodec>::{fn}")
        m = H.matches_over(h["body"], lambda t: t == CI)
        if len(m) != 1:
            raise facts.MissingAnchor(f"CharsetImpl::{fn}: match")
        tab, arms = H.enum_table(m[0], variants, CI)
        for v in variants:
            b = H.peel(arms[tab[v][0]][2]) if tab[v] else None
            codec = None
            if b is not None and H.kind(b) == "mcall" and b[3] == fn and (H.callee(b) or "").endswith(f"TextCodec::{fn}"):
                codec = H.path_of(b[4])
            disp[(fn, v)] = codec
    for v in variants:
        d, e = disp[("decode", v)], disp[("encode", v)]
        chk.expect(d is not None and d == e, "charset", "dispatch", v, "decode and encode use the same codec type", {"decode": d, "encode": e})
        if d is None:
            continue
        hn = fx.hirfn(f"<{d} as {T}::TextCodec>::name")
        lits = [x[2][1] for x in H.walk(hn["body"]) if H.kind(x) == "lit" and x[2][0] == "str"]
        chk.expect(lits == [name_of[v]], "charset", d.split("::")[-1], "name()", name_of[v], lits, loc=C.fn_loc(hn))
        for fn, trap_want in (("decode", "DecoderTrap::Call"), ("encode", "EncoderTrap::Strict")):
            hc = fx.hirfn(f"<{d} as {T}::TextCodec>::{fn}")
            encs = [x for c, x in H.calls(hc["body"]) if c and c.endswith(f"encoding::types::Encoding::{fn}")]
            table = (H.path_of(encs[0][4]) or "").split("::")[-1] if len(encs) == 1 else None
            trap = H.show(encs[0][5][1], 3) if len(encs) == 1 else None
            chk.expect(table in ref.get(name_of[v], set()), "charset", d.split("::")[-1], f"{fn}-table", sorted(ref.get(name_of[v], [])), table, loc=C.fn_loc(hc))
            chk.expect(trap is not None and trap_want in trap, "charset", d.split("::")[-1], f"{fn}-trap", trap_want, trap, loc=C.fn_loc(hc))
    chk.sample({"rule": "charset", "names": name_of, "codecs": {v: (disp[("decode", v)] or "").split("::")[-1] for v in variants}})
    # SpecificCharacterSet wrapper
    h = fx.hirfn(f"{T}::SpecificCharacterSet::from_code")
    cs = [c for c, _ in H.calls(h["body"]) if c]
    chk.expect(any(c == f"{CI}::from_code" for c in cs), "charset", "SpecificCharacterSet::from_code", "wraps", "CharsetImpl::from_code", cs)
    for fn in ("name", "decode", "encode"):
        h = fx.hirfn(f"<{T}::SpecificCharacterSet as {T}::TextCodec>::{fn}")
        b = H.peel(h["body"])
        ok = H.kind(b) == "mcall" and b[3] == fn and H.show(b[4], 3) == "self.0"
        chk.expect(ok, "charset", f"SpecificCharacterSet::{fn}", "forwards", f"self.0.{fn}(..)", H.show(b, 4))

    # ---------- rule 2
    chk.rule("charset-switch", "the text codec is replaced exactly when the element is (0008,0005): both writer text paths call try_new_codec under that "
             "test; the reader's CS path calls set_character_set under that test; CS is routed to read_value_cs in both value tables")
    for fn in ("encode_text_element", "encode_texts_element"):
        h = fx.method("dicom_parser", SE, fn)
        sites = []
        for n, anc in H.walk_anc(h["body"]):
            if H.kind(n) == "mcall" and n[3] == "try_new_codec":
                guards = [a for a in anc if H.is_node(a) and H.kind(a) == "if" and is_cs_tag_test(a[2])]
                sites.append(len(guards) >= 1)
        chk.expect(sites == [True], "charset-switch", fn, "try_new_codec-iff-(0008,0005)", "one call, under `de.tag == Tag(0x0008,0x0005)`", sites, loc=C.fn_loc(h))
    h = fx.method("dicom_parser", SE, "try_new_codec")
    cs = [c for c, _ in H.calls(h["body"]) if c]
    asg = [x for x in H.walk(h["body"]) if H.kind(x) == "assign" and H.show(x[2], 3) == "self.text"]
    chk.expect(any(c.endswith("SpecificCharacterSet::from_code") for c in cs) and len(asg) == 1, "charset-switch", "try_new_codec", "sets-self.text",
               "self.text = from_code(name)", cs, loc=C.fn_loc(h))
    h = fx.method("dicom_parser", SD, "read_value_cs")
    sites = []
    for n, anc in H.walk_anc(h["body"]):
        if H.kind(n) == "mcall" and n[3] == "set_character_set":
            guards = [a for a in anc if H.is_node(a) and H.kind(a) == "if" and is_cs_tag_test(a[2])]
            sites.append(len(guards) >= 1)
    chk.expect(sites == [True], "charset-switch", "read_value_cs", "set_character_set-iff-(0008,0005)", "one call under the tag test", sites, loc=C.fn_loc(h))
    h = fx.method("dicom_parser", SD, "set_character_set")
    asg = [x for x in H.walk(h["body"]) if H.kind(x) == "assign" and H.show(x[2], 3) == "self.text" and H.path_of(x[3]) == "charset"]
    chk.expect(len(asg) == 1, "charset-switch", "set_character_set", "sets-self.text", "self.text = charset", len(asg))
    variants_vr = fx.variants(C.VR_ENUM)
    reader_tab = {}
    for fn in ("read_value", "read_value_preserved"):
        h = fx.method("dicom_parser", f"<{SD} as dicom_parser::stateful::decode::StatefulDecode>", fn)
        m = H.matches_over(h["body"], lambda t: t == C.VR_ENUM)
        if len(m) != 1:
            raise facts.MissingAnchor(f"{fn}: match over VR")
        tab, arms = H.enum_table(m[0], variants_vr, C.VR_ENUM)
        for v in variants_vr:
            b = H.peel(arms[tab[v][0]][2]) if tab[v] else None
            reader_tab[(fn, v)] = b[3] if (b is not None and H.kind(b) == "mcall") else H.show(b, 2)
        chk.expect(reader_tab[(fn, "CS")] == "read_value_cs", "charset-switch", fn, "CS->read_value_cs", "read_value_cs", reader_tab[(fn, "CS")], loc=C.fn_loc(h))

    # ---------- rule 3
    chk.rule("declared-vs-default", "SH LO ST LT PN UC UT are encoded with self.text by the writer and decoded with self.text by the reader "
             "(both value-read modes); the full per-VR tables are extracted for evidence")
    h = fx.method("dicom_parser", SE, "convert_text_untrailed")
    m = H.matches_over(h["body"], lambda t: t == C.VR_ENUM)
    if len(m) != 1:
        raise facts.MissingAnchor("convert_text_untrailed: match over VR")
    tab, arms = H.enum_table(m[0], variants_vr, C.VR_ENUM)
    writer = {}
    for v in variants_vr:
        b = arms[tab[v][0]][2] if tab[v] else None
        enc = [x for c, x in H.calls(b) if c and c.endswith("TextCodec::encode")] if b is not None else []
        kind = "?"
        if len(enc) == 1:
            recv = H.show(enc[0][4], 3)
            kind = "declared" if recv == "self.text" else ("default" if recv.endswith("DefaultCharacterSetCodec") else recv)
        writer[v] = kind
    # reader: read_value_str uses self.text; read_value_strs decides per VR
    hs = fx.method("dicom_parser", SD, "read_value_strs")
    tm = [x for x in H.walk(hs["body"]) if H.kind(x) == "match" and x[3].startswith("(") and "VR" in x[3]]
    if len(tm) != 1:
        raise facts.MissingAnchor("read_value_strs: match over (charset_override, vr)")
    strs_declared = {}
    for v in variants_vr:
        val = ("tuple", [H.val("CharacterSetOverride::None"), H.val("VR::" + v)])
        idx = H.eval_match(tm[0], val)
        l = H.lit(H.match_arms(tm[0])[idx][2])
        strs_declared[v] = (l is not None and l[1] == "true")
    # and the flag selects self.text vs DefaultCharacterSetCodec
    ifs = [x for x in H.walk(hs["body"]) if H.kind(x) == "if" and H.path_of(x[2]) == "use_charset_declared"]
    ok = False
    if len(ifs) == 1:
        then_recv = [H.show(x[4], 3) for c, x in H.calls(ifs[0][3]) if c and c.endswith("TextCodec::decode")]
        else_recv = [H.show(x[4], 3) for c, x in H.calls(ifs[0][4]) if c and c.endswith("TextCodec::decode")]
        ok = then_recv == ["self.text"] and len(else_recv) == 1 and else_recv[0].endswith("DefaultCharacterSetCodec")
    chk.expect(ok, "declared-vs-default", "read_value_strs", "flag-selects-codec", "declared -> self.text, else DefaultCharacterSetCodec", ok, loc=C.fn_loc(hs))
    hstr = fx.method("dicom_parser", SD, "read_value_str")
    recv = [H.show(x[4], 3) for c, x in H.calls(hstr["body"]) if c and c.endswith("TextCodec::decode")]
    chk.expect(recv == ["self.text"], "declared-vs-default", "read_value_str", "uses-self.text", ["self.text"], recv)
    reader = {}
    for mode in ("read_value", "read_value_preserved"):
        for v in variants_vr:
            helper = reader_tab[(mode, v)]
            if helper == "read_value_str":
                reader[(mode, v)] = "declared"
            elif helper in ("read_value_strs", "read_value_cs"):
                reader[(mode, v)] = "declared" if strs_declared[v] else "default"
            else:
                reader[(mode, v)] = "n/a:" + str(helper)
    for v in DECLARED_VRS:
        chk.expect(writer[v] == "declared", "declared-vs-default", "writer", v, "declared", writer[v], loc=C.fn_loc(h))
        for mode in ("read_value", "read_value_preserved"):
            chk.expect(reader[(mode, v)] == "declared", "declared-vs-default", f"reader:{mode}", v, "declared", reader[(mode, v)])
    chk.sample({"rule": "declared-vs-default", "writer": writer, "reader_interpreted": {v: reader[("read_value", v)] for v in variants_vr}})
    # after a character set switch text has another byte length: the in-memory object remembers the switch (charset_changed) so that the
    # writer does not reuse the sequence / item lengths recorded at read time. Every tag-addressed mutator of the root data set reports
    # the tag it touches, the flag is set exactly for (0008,0005), and both writers pass it on as `force_invalidate_sq_length`
    chk.rule("charset-change-flag", "InMemDicomObject: put_element (behind put), update_value, apply_leaf, apply_change_value_impl and apply_push_str_impl call invalidate_if_charset_changed(<their tag>); "
             "that helper is `if tag == SPECIFIC_CHARACTER_SET { self.charset_changed = true }`; write_dataset_* build IntoTokensOptions::new(self.charset_changed)")
    IM_ = "dicom_object::mem::InMemDicomObject"
    for meth, arg in (("put_element", "elt.tag()"), ("update_value", "tag"), ("apply_leaf", "tag"), ("apply_change_value_impl", "tag"), ("apply_push_str_impl", "tag")):
        hm_ = fx.method("dicom_object", IM_, meth)
        cs_ = [H.show(x[5][0], 4) for x in H.walk(hm_["body"]) if H.kind(x) == "mcall" and x[3] == "invalidate_if_charset_changed" and H.path_of(x[4]) == "self"]
        chk.expect(arg in cs_, "charset-change-flag", meth, "reports-its-tag", f"self.invalidate_if_charset_changed({arg})", cs_, loc=C.fn_loc(hm_))
    hi_ = fx.method("dicom_object", IM_, "invalidate_if_charset_changed")
    t_ = re.sub(r"dicom_dictionary_std::tags::", "", H.show(hi_["body"], 8))
    chk.expect(re.fullmatch(r"\{?if \((tag Eq SPECIFIC_CHARACTER_SET|SPECIFIC_CHARACTER_SET Eq tag)\) \{self\.charset_changed = true;?\}( else -)?\}?", t_) is not None, "charset-change-flag",
               "invalidate_if_charset_changed", "sets-the-flag-for-0008,0005", "if tag == SPECIFIC_CHARACTER_SET { self.charset_changed = true }", t_, loc=C.fn_loc(hi_))
    n_w = 0
    for hh in fx.crate("dicom_object")["hir"]:
        if hh["path"].startswith(IM_) and re.search(r"::write_dataset_with_ts_cs(_options)?$", hh["path"]):
            opts = [H.show(x, 5) for c_, x in H.calls(hh["body"]) if c_ and c_.endswith("IntoTokensOptions::new")]
            if opts:
                n_w += 1
                chk.expect(all(o.endswith("IntoTokensOptions::new(self.charset_changed)") for o in opts), "charset-change-flag", hh["path"].split("::")[-1], "flag-reaches-the-token-options",
                           "IntoTokensOptions::new(self.charset_changed)", opts, loc=C.fn_loc(hh))
    chk.floor("charset-change-flag", "writers building token options", n_w, 1)
    chk.undecided.append("string round trips through the third-party encoding tables; ISO 2022 escape-sequence handling of multi-valued character sets")
