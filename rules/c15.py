"""C15 — the standard data dictionary answers consistently for every tag and keyword (tables + algorithm shape).

1. entries (DATA): the generated ENTRIES table (tokenised from dictionary-std/src/tags.rs, whose grammar is fixed by the
   generator) is joined with the compiler-evaluated values of the tag constants it names: keywords unique; inner tags unique;
   every tag constant is used by exactly one row and every row names an existing constant (so "every tag constant equals its
   entry's tag" holds by construction); repeating-group bases have low group byte 00, repeating-element bases low element
   byte 00 (the lookup masks with 0xFF00); no two repeating bases collide after masking; SOP class table: UID and keyword unique,
   every UID is the value of a `uids::` constant.
2. lookup-order (PAIR): StandardDataDictionary::indexed_tag consults exact -> repeating group (mask 0xFF00 on the group,
   set repeating_ggxx) -> repeating element (mask on the element, set repeating_eexx) -> private creator (odd group, element
   0x0010..=0x00FF) -> group length (element 0) -> None, in that order; `index` feeds by_name, by_tag and the right repeating
   set per TagRange kind; init_dictionary indexes every row of ENTRIES; the SOP class registry indexes by keyword and by UID.
"""
import os
import re

from . import facts, hirq as H, common as C

LEVEL_TEXT = ("Exhaustive over the 5k rows of the generated table joined with compiler-evaluated constants, plus a clause-by-clause "
              "check of the lookup algorithm. The table + algorithm shape is the static argument for all 2^32 lookups; the lookups "
              "themselves are not executed.")

DS = "dicom_dictionary_std"
ROW = re.compile(r'^\s*E \{ tag: (?:(Single)\()?([A-Z0-9_]+)\)?, alias: "([^"]+)", vr: ([A-Za-z]+(?:\([A-Z]+\))?) \},')
UROW = re.compile(r'^\s*E::new\("([^"]+)", "((?:[^"\\]|\\.)*)", "([^"]+)", (\w+), (true|false)\),')


def tokenise(path, start_marker):
    rows = []
    on = False
    n_lines = 0
    with open(path) as fh:
        for line in fh:
            if not on:
                if start_marker in line:
                    on = True
                continue
            if line.startswith("];"):
                break
            n_lines += 1
            rows.append(line.rstrip("\n"))
    return rows


def run(chk, tier):
    fx = facts.load("W")
    chk.analysed["facts"] = fx.meta
    d = fx.crate(DS)
    chk.assume("the tokenizer reads the generated table in the grammar the generator (devtools/dictionary-builder) emits; any row it cannot parse fails the check")
    # ---------- compiler's view of the constants
    tagc = {}
    for c in d["consts"]:
        if not c["path"].startswith(f"{DS}::tags::"):
            continue
        name = c["path"].split("::")[-1]
        v = c["val"] or ""
        m = re.fullmatch(r"dicom_core::header::Tag\((\d+)_u16, (\d+)_u16\)", v)
        m2 = re.fullmatch(r"dicom_core::dictionary::data_element::TagRange::(\w+)\(dicom_core::header::Tag\((\d+)_u16, (\d+)_u16\)\)", v)
        if m:
            tagc[name] = ("Tag", int(m.group(1)), int(m.group(2)))
        elif m2:
            tagc[name] = (m2.group(1), int(m2.group(2)), int(m2.group(3)))
    chk.floor("entries", "compiler-evaluated tag constants", len(tagc), 5000)

    # ---------- rule 1
    chk.rule("entries", "ENTRIES rows x compiler-evaluated constants: keywords unique, tags unique, constants and rows in bijection, repeating bases aligned to the 0xFF00 masks")
    src = os.path.join(facts.REPO, "dictionary-std", "src", "tags.rs")
    lines = tokenise(src, "pub(crate) const ENTRIES: &[E] = &[")
    rows = []
    bad_rows = []
    for ln in lines:
        if not ln.strip() or ln.strip().startswith("//"):
            continue
        m = ROW.match(ln)
        if not m:
            bad_rows.append(ln.strip()[:100])
            continue
        rows.append((m.group(1) or "Range", m.group(2), m.group(3), m.group(4)))
    chk.expect(not bad_rows, "entries", "tokenizer", "all-rows-parsed", "every row matches the generator's grammar", bad_rows[:5])
    chk.floor("entries", "ENTRIES rows", len(rows), 5000)
    chk.analysed["entries_rows"] = len(rows)
    chk.sample({"rule": "entries", "rows": rows[:3], "constants": {k: tagc[k] for k in list(tagc)[:3]}})
    aliases = {}
    inner = {}
    used = {}
    problems = {"unknown-constant": [], "kind-mismatch": [], "dup-alias": [], "dup-tag": [], "dup-constant-use": []}
    for wrap, cname, alias, vr in rows:
        if cname not in tagc:
            problems["unknown-constant"].append(cname)
            continue
        kind, g, e = tagc[cname]
        if (wrap == "Single") != (kind == "Tag"):
            problems["kind-mismatch"].append((cname, wrap, kind))
        if alias in aliases:
            problems["dup-alias"].append(alias)
        aliases[alias] = cname
        if (g, e) in inner:
            problems["dup-tag"].append((f"({g:04X},{e:04X})", inner[(g, e)], cname))
        inner[(g, e)] = cname
        if cname in used:
            problems["dup-constant-use"].append(cname)
        used[cname] = alias
    for k, v in problems.items():
        chk.expect(not v, "entries", "ENTRIES", k, "none", v[:8])
    unused = sorted(set(tagc) - set(used))
    chk.expect(not unused, "entries", "ENTRIES", "every-constant-has-a-row", "each tag constant is the tag of exactly one entry", unused[:8])
    # keyword <-> constant naming: the constant is the screaming-snake form of the keyword for the overwhelming majority; report only gross mismatches (evidence)
    g100 = {k: v for k, v in tagc.items() if v[0] == "Group100"}
    e100 = {k: v for k, v in tagc.items() if v[0] == "Element100"}
    chk.analysed["group100"] = len(g100)
    chk.analysed["element100"] = len(e100)
    mis = [k for k, v in g100.items() if v[1] & 0x00FF]
    chk.expect(not mis, "entries", "Group100", "base-group-low-byte-zero", "group & 0x00FF == 0", mis[:8])
    mis = [k for k, v in e100.items() if v[2] & 0x00FF]
    chk.expect(not mis, "entries", "Element100", "base-element-low-byte-zero", "element & 0x00FF == 0", mis[:8])
    chk.floor("entries", "repeating-group constants", len(g100), 50)
    chk.floor("entries", "repeating-element constants", len(e100), 1)
    # a Single entry that the masks would route to a repeating entry must itself be exact (exact lookup wins) — nothing to check;
    # but a repeating base must not be shadowed by a *different* repeating base after masking
    seen = {}
    clash = []
    for k, v in list(g100.items()):
        key = ("g", v[1] & 0xFF00, v[2])
        if key in seen:
            clash.append((seen[key], k))
        seen[key] = k
    for k, v in list(e100.items()):
        key = ("e", v[1], v[2] & 0xFF00)
        if key in seen:
            clash.append((seen[key], k))
        seen[key] = k
    chk.expect(not clash, "entries", "repeating", "no-collision-after-masking", "none", clash[:5])
    # an element-repeating base and a group-repeating base could both cover a tag: group probe runs first (documented order) — report for evidence
    # SOP classes
    usrc = os.path.join(facts.REPO, "dictionary-std", "src", "uids.rs")
    ulines = tokenise(usrc, "pub(crate) const SOP_CLASSES: &[E] = &[")
    urows = []
    ubad = []
    for ln in ulines:
        if not ln.strip() or ln.strip().startswith("//"):
            continue
        m = UROW.match(ln)
        if not m:
            ubad.append(ln.strip()[:100])
        else:
            urows.append(m.groups())
    chk.expect(not ubad, "entries", "tokenizer", "all-sop-class-rows-parsed", "every row parsed", ubad[:5])
    chk.floor("entries", "SOP_CLASSES rows", len(urows), 250)
    uidc = {}
    for c in d["consts"]:
        if c["path"].startswith(f"{DS}::uids::") and c["ty"] == "&'static str" and c["val"]:
            uidc[c["path"].split("::")[-1]] = c["val"].strip('"')
    uvals = set(uidc.values())
    dup_uid = [u for u in {r[0] for r in urows} if [r[0] for r in urows].count(u) > 1]
    dup_kw = [k for k in {r[2] for r in urows} if [r[2] for r in urows].count(k) > 1]
    chk.expect(not dup_uid, "entries", "SOP_CLASSES", "uid-unique", "none", dup_uid[:5])
    chk.expect(not dup_kw, "entries", "SOP_CLASSES", "keyword-unique", "none", dup_kw[:5])
    missing = [r[0] for r in urows if r[0] not in uvals]
    chk.expect(not missing, "entries", "SOP_CLASSES", "uid-is-a-uids-constant", "every row's UID is the value of a constant in uids", missing[:5])
    wrong_type = [r[2] for r in urows if r[3] != "SopClass"]
    chk.expect(not wrong_type, "entries", "SOP_CLASSES", "type", "SopClass", wrong_type[:5])
    # the constant named after the keyword holds the row's UID
    def snake(k):
        s = re.sub(r"(?<=[a-z0-9])(?=[A-Z])|(?<=[A-Z])(?=[A-Z][a-z])", "_", k)
        return s.upper()
    mism = []
    for uid, name, kw, ty, ret in urows:
        cn = snake(kw)
        if cn in uidc and uidc[cn] != uid:
            mism.append((kw, cn, uidc[cn], uid))
    chk.expect(not mism, "entries", "SOP_CLASSES", "keyword-constant-agrees", "uids::<KEYWORD> == row uid wherever that constant exists", mism[:5])

    # ---------- rule 2
    chk.rule("lookup-order", "indexed_tag: exact -> ggxx(mask group 0xFF00, repeating_ggxx) -> eexx(mask element 0xFF00, repeating_eexx) -> private creator -> group length -> None; "
             "index() and init_dictionary feed the maps from ENTRIES")
    h = fx.hirfn(f"{DS}::data_element::StandardDataDictionary::indexed_tag")
    tail = H.peel(H.peel(h["body"])[3])
    names = []
    n = tail
    args = []
    while H.kind(n) == "mcall":
        names.append(n[3])
        args.append(n[5])
        n = H.peel(n[4])
    names = list(reversed(names))
    args = list(reversed(args))
    chk.expect(names == ["get", "or_else", "cloned", "or_else"] and H.show(n, 3) == "r.by_tag", "lookup-order", "indexed_tag", "chain", "r.by_tag.get(&tag).or_else(A).cloned().or_else(B)",
               {"chain": names, "root": H.show(n, 3)}, loc=C.fn_loc(h))
    if names == ["get", "or_else", "cloned", "or_else"]:
        chk.expect(H.show(args[0][0], 3) == "&tag", "lookup-order", "indexed_tag", "exact-first", "by_tag.get(&tag)", H.show(args[0][0], 3))
        A = H.peel(args[1][0])[4]
        B = H.peel(args[3][0])[4]
        # closure A: two probes in order
        lets = {H.pat_bindings(x[2])[0]: H.show(x[3], 6) for x in H.walk(A) if H.kind(x) == "slet" and x[2][0] == "pbind"}
        ifs = [x for x in H.walk(A) if H.kind(x) == "if"]
        conds = [H.show(x[2], 5) for x in ifs]
        rets = [H.show([y for y in H.walk(x[3]) if H.kind(y) == "ret"][0][2], 5) if [y for y in H.walk(x[3]) if H.kind(y) == "ret"] else None for x in ifs]
        ok = (lets.get("group_trimmed") == "dicom_core::header::Tag((tag.0 BitAnd 65280), tag.1)" and lets.get("elem_trimmed") == "dicom_core::header::Tag(tag.0, (tag.1 BitAnd 65280))"
              and conds == ["r.repeating_ggxx.contains(&group_trimmed)", "r.repeating_eexx.contains(&elem_trimmed)"]
              and rets == ["r.by_tag.get(&group_trimmed)", "r.by_tag.get(&elem_trimmed)"])
        chk.expect(ok, "lookup-order", "indexed_tag", "repeating-probes", "group probe (mask 0xFF00 on group, set repeating_ggxx) then element probe (mask on element, set repeating_eexx)",
                   {"lets": lets, "conds": conds, "returns": rets}, loc=C.fn_loc(h))
        tailA = H.peel(A)
        chk.expect((H.path_of(H.peel(tailA[3])) or "").endswith("Option::None") if H.kind(tailA) == "block" and tailA[3] is not None else False, "lookup-order", "indexed_tag", "A-falls-to-None", "None", "ok")
        ifs = [x for x in H.walk(B) if H.kind(x) == "if"]
        conds = [H.show(x[2], 7) for x in ifs]
        rets = [H.show([y for y in H.walk(x[3]) if H.kind(y) == "ret"][0][2], 5) if [y for y in H.walk(x[3]) if H.kind(y) == "ret"] else None for x in ifs]
        ok = (len(ifs) == 2 and "((tag.0 BitAnd 1) Eq 1)" in conds[0] and "RangeInclusive" in conds[0] and "16" in conds[0] and "255" in conds[0] and "contains(&tag.1)" in conds[0]
              and conds[1] == "(tag.element() Eq 0)" and "PRIVATE_CREATOR_ENTRY" in (rets[0] or "") and "GROUP_LENGTH_ENTRY" in (rets[1] or ""))
        chk.expect(ok, "lookup-order", "indexed_tag", "private-creator-then-group-length", "odd group && 0x0010..=0x00FF -> PRIVATE_CREATOR_ENTRY; element == 0 -> GROUP_LENGTH_ENTRY", {"conds": conds, "returns": rets},
                   loc=C.fn_loc(h))
    hi = fx.hirfn(f"{DS}::data_element::StandardDataDictionaryRegistry::index")
    ins = [(H.show(x[4], 3), [H.show(a, 4) for a in x[5]]) for x in H.walk(hi["body"]) if H.kind(x) == "mcall" and x[3] == "insert"]
    want = [("self.by_name", ["entry.alias", "entry"]), ("self.by_tag", ["entry.tag.inner()", "entry"]), ("self.repeating_ggxx", ["tag"]), ("self.repeating_eexx", ["tag"])]
    chk.expect(ins == want, "lookup-order", "index", "inserts", want, ins, loc=C.fn_loc(hi))
    TR = "dicom_core::dictionary::data_element::TagRange"
    ms = H.matches_over(hi["body"], lambda t: t == TR)
    ok = False
    if len(ms) == 1:
        m = {}
        for p, g, b, ln in H.match_arms(ms[0]):
            hd = H.pat_head(H.pat_alts(p)[0])
            if hd[0] == "variant":
                sets = [H.show(x[4], 3) for x in H.walk(b) if H.kind(x) == "mcall" and x[3] == "insert"]
                m[hd[1].split("::")[-1]] = sets
        ok = m.get("Group100") == ["self.repeating_ggxx"] and m.get("Element100") == ["self.repeating_eexx"]
    chk.expect(ok, "lookup-order", "index", "kind-to-set", "Group100 -> repeating_ggxx, Element100 -> repeating_eexx", ok)
    hn = fx.hirfn(f"{DS}::data_element::init_dictionary")
    t = H.show(hn["body"], 9)
    loops = [x for x in H.walk(hn["body"]) if H.kind(x) == "loop"]
    over_entries = any(H.kind(x) == "path" and x[2] == f"{DS}::tags::ENTRIES" for x in H.walk(hn["body"]))
    idx = [x for x in H.walk(hn["body"]) if H.kind(x) == "mcall" and x[3] == "index"]
    chk.expect(len(loops) == 1 and over_entries and len(idx) == 1, "lookup-order", "init_dictionary", "indexes-every-entry", "for entry in ENTRIES { d.index(entry) }", {"loops": len(loops), "entries": over_entries, "index": len(idx)},
               loc=C.fn_loc(hn))
    for imp in ("StandardDataDictionary", "&'_ dicom_dictionary_std::data_element::StandardDataDictionary"):
        pass
    fw = [hh for hh in d["hir"] if hh["path"].endswith("DataDictionary>::by_tag") and "StandardDataDictionary" in hh["path"]]
    chk.expect(len(fw) == 2 and all(any((c or "").endswith("StandardDataDictionary::indexed_tag") for c, _ in H.calls(hh["body"])) for hh in fw), "lookup-order", "by_tag", "forwards-to-indexed_tag",
               "both impls call indexed_tag", len(fw))
    from . import shared
    shared.keyword_lookup(chk, fx, "keyword-lookup")
    hu = fx.hirfn(f"{DS}::sop_class::StandardUidRegistry::index_all")
    t = H.show(hu["body"], 10)
    ok = "self.by_keyword.extend(" in t and "self.by_uid.extend(" in t and "(e.alias, e)" in t and "(e.uid, e)" in t
    chk.expect(ok, "lookup-order", "StandardUidRegistry::index_all", "both-indexes-from-same-entries", "by_keyword <- (alias, e), by_uid <- (uid, e)", t[:200], loc=C.fn_loc(hu))
    hsi = fx.hirfn(f"{DS}::sop_class::init_dictionary")
    chk.expect(f"index_all({DS}::uids::SOP_CLASSES)" in H.show(hsi["body"], 6), "lookup-order", "sop_class::init_dictionary", "indexes-SOP_CLASSES", "d.index_all(SOP_CLASSES)", H.show(hsi["body"], 6)[:120])
    # the look-ups consult the index with the caller's text itself (no trimming / folding that could map two table rows to one key)
    n_lk = 0
    for hl in fx.find_hir(DS, lambda p: "sop_class::" in p and re.search(r"UidDictionary>::(by_uid|by_keyword)$", p) is not None):
        n_lk += 1
        nm = hl["path"].split("::")[-1]
        prm = [b for p_ in (hl.get("params") or [])[1:] for b in H.pat_bindings(p_)]
        body = H.show(H.peel(hl["body"]), 8)
        want = (f"self.{nm}.get({prm[0]}).copied()", f"{DS}::sop_class::DICT.{nm}({prm[0]})", f"DICT.{nm}({prm[0]})") if prm else ()
        slets = [x for x in H.walk(hl["body"]) if H.kind(x) == "slet"]
        chk.expect(not slets and any(body.replace("Deref(", "(").endswith(w) or w in body for w in want), "lookup-order", hl["path"].split(" as ")[0].split("::")[-1] + "::" + nm, "key-is-the-argument",
                   f"{nm}: index consulted with the parameter itself", body[:160], loc=C.fn_loc(hl))
    chk.floor("lookup-order", "SOP class look-up functions", n_lk, 4)
    from . import shared
    shared.tag_range_inner(chk, fx, "tag-range-inner")
    chk.undecided.append("agreement of the generated table with the published PS3.6 (the generator's input is trusted); the 2^32 lookups themselves")
