"""C05 — untrusted input never makes a reader panic or abort (static part: reachable may-panic inventory + untrusted allocations).

REACH: a call graph over the resolved MIR of the ten library crates (rules/reach.py) is explored from the reading entry points named by the
property. Every *may-panic site* in a reachable body is enumerated from the MIR: `Assert` terminators that survive in release builds
(bounds checks, division / remainder by zero) and calls to the frozen list of panicking externals (DESIGN Appendix B: unwrap/expect,
core::panicking::*, Index::index, split_at, copy_from_slice, bytes::Buf getters, byteorder on slices, ...).

GUARD: a site is discharged automatically when
  * rules/lenflow.py proves the index / range / split point in range from dominating length checks (slices, arrays, Vec, SmallVec);
  * rules/budget.py proves that the Buf cursor holds enough bytes (PDU reader);
  * rules/c14.py's boundary proofs cover the cut (str slicing in the tag / selector parsers);
  * the byteorder call reads from a slice whose proven length covers the integer width;
otherwise it must be listed in audit/c05_sites.tsv with the reason it cannot fire on any input (one row per site; a row may name a guard
text that must still be present in the function). A reachable site that is neither discharged nor audited is a violation: it names the
entry point, the call chain and the construct. Audit rows that no longer match anything are reported as notes, never as violations.

`untrusted-alloc`: allocations sized by a value in reachable code (Vec::with_capacity, vec!/smallvec! from_elem, resize, resize_with)
must be constant-sized, fallible (try_reserve*) or bounded; the eager value readers size buffers straight from the element length
(finding F15) — those sites are listed as known findings by key, a new unbounded allocation site is a violation.

Not decided: termination in bounded time, panics inside third-party crates (trusted boundary, listed in the evidence).
"""
import os
import re

from . import facts, hirq as H, mirq as M, common as C, reach, lenflow, budget, c14, loops

LEVEL_TEXT = ("All MIR bodies reachable from the 80+ reading entry points (about 1600 functions of ten crates) are scanned; every may-panic site "
              "(about 330) is discharged by a range proof over the HIR, by the cursor budget analysis, by a boundary proof, or by an audited row; "
              "every value-sized allocation is classified. Decides absence of reachable unguarded panic sites up to the audited rows and the "
              "trusted third-party boundary; termination and time bounds are not decided.")

ENTRY = [
    ("object: file opening", r"^dicom_object::file::(open_file|from_reader)$"),
    ("object: file opening", r"^dicom_object::file::OpenFileOptions::<D, T>::(open_file|from_reader)$"),
    ("object: file opening", r"^dicom_object::mem::<impl dicom_object::FileDicomObject<.*>>::(open_file|from_reader)\w*$"),
    ("object: data set reading", r"^dicom_object::mem::InMemDicomObject(::<D>)?::read_dataset\w*$"),
    ("object: file meta", r"^dicom_object::meta::FileMetaTable::from_reader$"),
    ("object: collector", r"^dicom_object::collector::DicomCollector(Options)?::<.*>::(open_file\w*|from_reader|read_\w+|new\w*|take_file_meta)$"),
    ("parser: eager reader", r"^<dicom_parser::dataset::read::DataSetReader<S> as core::iter::traits::iterator::Iterator>::next$"),
    ("parser: eager reader", r"^dicom_parser::dataset::read::DataSetReader::<S>::peek$"),
    ("parser: lazy reader", r"^dicom_parser::dataset::lazy_read::LazyDataSetReader::<S>::(advance|peek)$"),
    ("parser: lazy reader", r"^dicom_parser::dataset::LazyDataToken::<D>::\w+$"),
    ("json: deserialisation", r"^dicom_json::de::from_(str|slice|reader|value)$"),
    ("json: deserialisation", r"^<?dicom_json::.*serde_core::de::(Deserialize|Visitor|DeserializeSeed)<'\w+>.*::\w+$"),
    ("ul: PDU decoding", r"^dicom_ul::pdu::reader::read_pdu$"),
    ("pixeldata: decoding", r"^<dicom_object::FileDicomObject<dicom_object::mem::InMemDicomObject<D>> as dicom_pixeldata::PixelDecoder>::decode_pixel_data(_frame)?$"),
    ("dump", r"^dicom_dump::(DumpOptions::)?dump_\w+$"),
    ("core: text parsers", r"^<dicom_core::header::Tag as core::str::traits::FromStr>::from_str$"),
    ("core: text parsers", r"^dicom_core::dictionary::data_element::DataDictionary::(parse_selector|parse_tag|by_expr)$"),
    ("core: text parsers", r"^dicom_core::value::deserialize::parse_\w+$"),
    ("core: text parsers", r"^dicom_core::value::range::parse_\w+$"),
    ("core: text parsers", r"^<dicom_core::value::partial::Dicom(Date|Time|DateTime) as core::str::traits::FromStr>::from_str$"),
]
FAMILY_FLOOR = {"object: file opening": 8, "object: data set reading": 4, "object: file meta": 1, "object: collector": 10, "parser: eager reader": 2,
                "parser: lazy reader": 4, "json: deserialisation": 8, "ul: PDU decoding": 1, "pixeldata: decoding": 2, "dump": 8, "core: text parsers": 12}

ALLOC = re.compile(r"(alloc::vec::Vec::<T>::with_capacity|alloc::vec::Vec::<T, A>::with_capacity_in|alloc::vec::from_elem|smallvec::SmallVec::<A>::from_elem|"
                   r"alloc::vec::Vec::<T, A>::resize|alloc::vec::Vec::<T, A>::resize_with|alloc::vec::Vec::<T, A>::reserve|alloc::vec::Vec::<T, A>::reserve_exact|"
                   r"smallvec::SmallVec::<A>::with_capacity|smallvec::SmallVec::<A>::resize|alloc::string::String::with_capacity|alloc::str::<impl str>::repeat|"
                   r"std::collections::hash::map::HashMap::<K, V>::with_capacity|alloc::collections::vec_deque::VecDeque::<T>::with_capacity)$")
EXTRA_PANIC = re.compile(r"core::num::<impl \w+>::(div_ceil|div_euclid|rem_euclid|next_multiple_of|ilog\w*|isqrt)$|core::slice::<impl \[T\]>::(chunks|chunks_exact|windows|rchunks)$|"
                         r"core::iter::traits::iterator::Iterator::step_by$")


def root_of(g, p):
    f = g.fns[p]
    return f.get("root") or p


def short_callee(c):
    c = c or ""
    c = re.sub(r"<[^<>]*>", "", c)
    c = re.sub(r"<[^<>]*>", "", c)
    return "::".join(c.split("::")[-2:])


def site_kind(t):
    if t["t"] == "assert":
        msg = str(t.get("msg"))
        if msg.startswith(("Overflow", "Resumed", "Misaligned", "NullPointer", "InvalidEnum")):
            return None
        return "assert:" + msg.split("(")[0]
    if t["t"] == "call":
        k = C.panic_callee(M.callee(t), M.callee_decl(t))
        if k:
            return k
        c = M.callee(t) or ""
        if EXTRA_PANIC.search(c) or EXTRA_PANIC.search(M.callee_decl(t) or ""):
            return "arith-or-chunk"
    return None


def const_int(op):
    """integer value of a constant MIR operand, else None"""
    if isinstance(op, dict) and "int" in op:
        try:
            return int(op["int"])
        except ValueError:
            return None
    return None


def const_nonzero_divisor(f, b):
    """Division/RemainderByZero assert whose condition is `Eq(const c, const 0)` with c != 0 (constant divisor)"""
    t = b["t"]
    cond = (t.get("o") or {})
    loc = (cond.get("m") or cond.get("c") or {}).get("s")
    for s in reversed(b["s"]):
        if (s.get("d") or {}).get("s") == loc:
            r = s.get("r") or {}
            if r.get("rv") == "bin" and r.get("op") == "Eq":
                a, z = const_int(r.get("a")), const_int(r.get("b"))
                return a is not None and a != 0 and z == 0
            return False
    return False


def ret_variants(fx, path, depth=0):
    """set of enum variant constructors a total workspace fn can return (body = match with plain variant paths), else None"""
    if depth > 2 or not fx.has_hir(path):
        return None
    body = H.peel(fx.hirfn(path)["body"])

    def rec(n):
        n = H.peel(n)
        k = H.kind(n)
        if k == "match":
            out = set()
            for arm in n[4]:
                r = rec(arm[2])
                if r is None:
                    return None
                out |= r
            return out
        if k == "path" and str(n[3]).startswith("ctor:Variant"):
            return {n[2]}
        if k == "block" and not n[2] and n[3] is not None:
            return rec(n[3])
        return None
    return rec(body)


def dead_wildcard(fx, hirfn, line):
    """the panic at `line` sits in a wildcard arm of `match f(..)` where f returns only variants that the other arms cover"""
    for m, anc in H.walk_anc(hirfn["body"]):
        if H.kind(m) != "match":
            continue
        scr = H.peel(m[2])
        callee = scr[2] if H.kind(scr) == "mcall" else (H.callee(scr) if H.kind(scr) == "call" else None)
        if not callee or not callee.startswith("dicom_"):
            continue
        covered = set()
        wild = None
        for arm in m[4]:
            for alt in H.pat_alts(arm[0]):
                hd = H.pat_head(alt)
                if hd[0] == "variant" and arm[1] is None:
                    covered.add(hd[1])
                elif hd[0] in ("wild", "bind"):
                    wild = arm
        if wild is None or not any(x[1] == line for x in H.walk(wild[2])):
            continue
        rv = ret_variants(fx, callee)
        if rv is not None and rv <= covered:
            return f"`{callee.split('::')[-1]}` returns only {sorted(v.split('::')[-1] for v in rv)}, all matched before the wildcard arm"
    return None


def full_text(hirfn):
    """rendering of a body that also spells out every match arm (H.show abbreviates them)"""
    parts = [H.show(hirfn["body"], 60)]
    for m in H.walk(hirfn["body"]):
        if H.kind(m) == "match":
            for arm in m[4]:
                parts.append(H.show_pat(arm[0]) + (" if " + H.show(arm[1], 12) if arm[1] is not None else "") + " => " + H.show(arm[2], 30))
        elif H.kind(m) == "loop":
            for x in H.children(m):
                parts.append("loop " + H.show(x, 30))
    return "\n".join(parts)


_CALLERS = {}


def callers_of(g, path):
    """paths of all non-test bodies of the graph that call `path` (closures reported as their root)"""
    if not _CALLERS.get("built"):
        for q in g.fns:
            if g.is_test(q):
                continue
            for (tgt, ln, kind_) in g.callees(q)[0]:
                if kind_ != "closure":
                    _CALLERS.setdefault(tgt, set()).add(g.fns[q].get("root") or q)
        _CALLERS["built"] = True
    return _CALLERS.get(path, set())


def load_audit():
    rows = {}
    for r in C.read_tsv("../audit/c05_sites.tsv") if os.path.exists(os.path.join(os.path.dirname(__file__), "..", "audit", "c05_sites.tsv")) else []:
        if len(r) < 3:
            continue
        rows[r[0]] = {"class": r[1], "reason": r[2], "requires": r[3] if len(r) > 3 and r[3] not in ("", "-") else None, "used": False}
    return rows


def run(chk, tier):
    fx = facts.load("W")
    chk.analysed["facts"] = fx.meta
    g = reach.Graph(fx)
    # ------------------------------------------------------------------ reach
    chk.rule("reach", "entry points of every reader family named by the property exist; the reachable set is computed over resolved MIR callees")
    entries = {}
    fam_count = {}
    for p in g.fns:
        if g.is_test(p):
            continue
        for fam, pat in ENTRY:
            if re.search(pat, p):
                entries[p] = fam
                fam_count[fam] = fam_count.get(fam, 0) + 1
                break
    for fam, fl in FAMILY_FLOOR.items():
        chk.floor("reach", f"entry points: {fam}", fam_count.get(fam, 0), fl)
    seen = g.reach(sorted(entries))
    chk.floor("reach", "reachable function bodies", len(seen), 1200)
    ext = {}
    for p in seen:
        for tgt, ln in g.callees(p)[1]:
            cr = re.sub(r"^<?&?(mut )?('\w+ )?", "", tgt).split("::")[0]
            ext[cr] = ext.get(cr, 0) + 1
    chk.analysed["reach"] = {"entries": len(entries), "entries_by_family": fam_count, "reachable_bodies": len(seen), "graph_bodies": len(g.fns),
                             "trusted_boundary_calls_by_crate": dict(sorted(ext.items(), key=lambda kv: -kv[1])[:40])}
    chk.assume("third-party crates (std, bytes, byteorder(ed), chrono, encoding, flate2, jpeg-decoder, jxl-oxide, serde_json, smallvec, snafu, tracing ...) do not panic on the arguments the reachable code passes, "
               "except for the frozen list of documented panicking functions, which are the sites this rule inventories")

    # ------------------------------------------------------------------ panic sites
    chk.rule("panic-sites", "every reachable may-panic site is discharged by a range / budget / boundary proof or has an audited row (audit/c05_sites.tsv)")
    audit = load_audit()
    lf_cache, bud_cache = {}, {}
    strb = {}
    for r in c14.str_boundary(fx):
        strb.setdefault((r["path"], r["line"]), []).append(r["ok"])

    def hir_of(root):
        crate = re.search(r"\b(dicom_\w+)::", root)
        try:
            return fx.hirfn(root) if fx.has_hir(root) else None
        except Exception:
            return None

    def lf(root):
        if root not in lf_cache:
            h = hir_of(root)
            try:
                lf_cache[root] = lenflow.analyse(h) if h is not None else None
            except RecursionError:
                lf_cache[root] = None
        return lf_cache[root]

    def bud(root):
        if root not in bud_cache:
            h = hir_of(root)
            try:
                bud_cache[root] = budget.analyse(h, root.split("::")[-1]).sites if h is not None else None
            except Exception:
                bud_cache[root] = None
        return bud_cache[root]

    counts = {"auto:lenflow": 0, "auto:budget": 0, "auto:str-boundary": 0, "auto:const-divisor": 0, "auto:debug-assert": 0, "auto:dead-arm": 0, "auto:uninhabited": 0, "audited": 0, "open": 0}
    chk.assume("release semantics as in the property's quantifier: debug_assert! is compiled out (cfg!(debug_assertions) is false in the analysed configuration) and integer overflow wraps")
    n_sites = 0
    dump = []
    for p in sorted(seen, key=lambda q: (g.fns[q]["loc"]["f"], g.fns[q]["loc"]["l"], q)):
        f = g.fns[p]
        root = root_of(g, p)
        ordn = {}
        for bi, b in enumerate(f["blocks"]):
            if b.get("cleanup"):
                continue
            t = b["t"]
            k = site_kind(t)
            if k is None:
                continue
            n_sites += 1
            line = t.get("l")
            callee = short_callee(M.callee(t)) if t["t"] == "call" else ""
            base = f"{p}|{k}|{callee}"
            ordn[base] = ordn.get(base, 0) + 1
            key = f"{base}|#{ordn[base]}"
            loc = f"{f['loc']['f']}:{line}"
            how = None
            # ---- automatic discharge
            if k in ("index", "assert:BoundsCheck", "split_at", "byteorder"):
                ga = " ".join((t.get("fn") or {}).get("ga", [])) if t["t"] == "call" else ""
                is_str = k in ("index", "split_at") and (ga.startswith("str") or "impl str" in (M.callee(t) or "") or "for str" in (M.callee(t) or ""))
                if is_str:
                    oks = strb.get((root, line))
                    if oks and all(oks):
                        how = "auto:str-boundary"
                else:
                    sites = lf(root)
                    if sites is not None:
                        want = {"index": ("index",), "assert:BoundsCheck": ("index",), "split_at": ("split_at",), "byteorder": ("byteorder",)}[k]
                        here = [s for s in sites if s["line"] == line and s["kind"] in want]
                        if here and all(s["ok"] for s in here):
                            how = "auto:lenflow"
            elif k == "buf":
                sites = bud(root)
                if sites is not None:
                    here = [s for s in sites if s.line == line]
                    if here and all(s.ok for s in here):
                        how = "auto:budget"
            elif k in ("assert:DivisionByZero", "assert:RemainderByZero"):
                if const_nonzero_divisor(f, b):
                    how = "auto:const-divisor"
            elif k == "arith-or-chunk":
                args = t.get("a") or []
                c1 = const_int(args[1]) if len(args) > 1 else None
                if c1 is not None and c1 != 0:
                    how = "auto:const-divisor"
            if how is None and k in ("panic", "unwrap", "expect") and "debug_assert" in str(t.get("m") or ""):
                how = "auto:debug-assert"
            if how is None and k == "panic":
                h = hir_of(root)
                why = dead_wildcard(fx, h, line) if h is not None else None
                if why:
                    how = "auto:dead-arm"
            if how is None:
                # a method whose receiver type is an enum without variants can never be called
                m_self = re.match(r"<([\w:]+) as ", p)
                if m_self:
                    try:
                        adt = fx.adt(m_self.group(1))
                    except Exception:
                        adt = None
                    if adt is not None and adt.get("kind") == "enum" and not adt.get("variants"):
                        how = "auto:uninhabited"
            if how is None and key in audit:
                row = audit[key]
                row["used"] = True
                if row["requires"]:
                    missing = []
                    for clause in row["requires"].split(" ;; "):
                        kind_, _, arg = clause.partition(":")
                        if kind_ == "text":
                            h = hir_of(root)
                            if not re.search(arg, full_text(h) if h is not None else "", re.S):
                                missing.append(clause)
                        elif kind_ == "in":
                            fpat, _, rx = arg.partition(" => ")
                            cands = [q for q in g.fns if re.search(fpat, q) and not g.fns[q].get("root")]
                            hh2 = hir_of(cands[0]) if len(cands) == 1 else None
                            if hh2 is None or not re.search(rx, full_text(hh2), re.S):
                                missing.append(clause)
                        elif kind_ == "callarg":
                            # every call of this function passes a first argument of the given shape
                            rx = arg
                            nm = root.split("::")[-1]
                            n_calls = 0
                            for q in callers_of(g, root):
                                hq = hir_of(q)
                                for x in (H.walk(hq["body"]) if hq is not None else []):
                                    if H.kind(x) == "mcall" and x[3] == nm and x[5]:
                                        n_calls += 1
                                        if not re.fullmatch(rx, H.show(x[5][0], 8)):
                                            missing.append(f"{clause}: {q.split('::')[-1]} passes {H.show(x[5][0], 8)}")
                            if n_calls == 0:
                                missing.append(clause + ": no call sites found")
                        elif kind_ == "callers":
                            cl = callers_of(g, root)
                            if not cl or not all(re.search(arg, q) for q in cl):
                                missing.append(clause + f" (callers: {sorted(cl)[:4]})")
                        else:
                            missing.append("unknown clause " + clause)
                    if missing:
                        chk.bad("panic-sites", p, f"{k}|{callee}|#{ordn[base]}", "the audited row's conditions still hold", {"not satisfied": missing, "reason": row["reason"]}, loc=loc)
                        continue
                how = "audited"
            if how is None:
                counts["open"] += 1
                chain = " -> ".join(x.split("::")[-1] for x in g.chain(seen, p, 8))
                chk.bad("panic-sites", p, f"{k}|{callee}|#{ordn[base]}", "discharged by a proof or audited",
                        {"site": k, "callee": M.callee(t) if t["t"] == "call" else None, "reached_via": chain, "entry_family": entries.get(g.chain(seen, p, 50)[0])}, loc=loc)
                dump.append((key, loc))
            else:
                counts[how] += 1
                chk.ok("panic-sites", p, f"{k}|{callee}|#{ordn[base]}", how if how != "audited" else "audited: " + audit[key]["reason"])
    chk.floor("panic-sites", "may-panic sites in reachable bodies", n_sites, 250)
    chk.analysed["panic_sites"] = dict(counts, total=n_sites)
    unused = [k for k, r in audit.items() if not r["used"]]
    if unused:
        chk.note(f"{len(unused)} audit rows match no site any more (stale rows are harmless): " + "; ".join(unused[:5]))
    if os.environ.get("C05_DUMP"):
        with open(os.environ["C05_DUMP"], "w") as fh:
            for k, loc in dump:
                fh.write(f"{k}\t{loc}\n")

    # ------------------------------------------------------------------ allocations
    chk.rule("untrusted-alloc", "allocations sized by a run-time value in reachable reader code are constant, fallible (try_reserve) or bounded; F15 sites are known findings")
    alloc_audit = {}
    pth = os.path.join(os.path.dirname(__file__), "..", "audit", "c05_alloc.tsv")
    if os.path.exists(pth):
        for r in C.read_tsv("../audit/c05_alloc.tsv"):
            if len(r) >= 3:
                alloc_audit[r[0]] = (r[1], r[2])
    n_alloc = 0
    adump = []
    for p in sorted(seen, key=lambda q: (g.fns[q]["loc"]["f"], g.fns[q]["loc"]["l"], q)):
        f = g.fns[p]
        ordn = {}
        for bi, b in enumerate(f["blocks"]):
            if b.get("cleanup"):
                continue
            t = b["t"]
            if t["t"] != "call":
                continue
            c = M.callee(t) or ""
            if not ALLOC.search(c):
                continue
            n_alloc += 1
            name = short_callee(c)
            base = f"{p}|{name}"
            ordn[base] = ordn.get(base, 0) + 1
            key = f"{base}|#{ordn[base]}"
            loc = f"{f['loc']['f']}:{t.get('l')}"
            # size operand: with_capacity(n) / from_elem(x, n) / resize(&mut v, n, x) / reserve(&mut v, n)
            args = t.get("a") or []
            idx = 1 if re.search(r"(from_elem|resize|resize_with|reserve|reserve_exact)$", c) else 0
            size = args[idx] if len(args) > idx else None
            const = isinstance(size, dict) and ("c" in size or "k" in size)
            if const:
                chk.ok("untrusted-alloc", p, f"{name}#{ordn[base]}", "constant size")
                continue
            # fallible reservation of the same size on the same receiver earlier in the function
            hh = hir_of(root_of(g, p))
            fallible = False
            if hh is not None and re.search(r"(resize|resize_with)$", c):
                here = [x for x in H.walk(hh["body"]) if H.kind(x) == "mcall" and x[3] in ("resize", "resize_with") and x[1] == t.get("l")]
                for x in here:
                    recv, sz = H.show(x[4], 4), H.show(x[5][0], 6) if x[5] else ""
                    fallible = any(H.kind(y) == "mcall" and y[3] in ("try_reserve", "try_reserve_exact") and y[1] <= x[1] and H.show(y[4], 4) == recv and y[5] and H.show(y[5][0], 6) == sz
                                   for y in H.walk(hh["body"]))
            if fallible:
                chk.ok("untrusted-alloc", p, f"{name}#{ordn[base]}", "preceded by try_reserve(_exact) of the same size on the same buffer")
                continue
            if key in alloc_audit:
                cls, reason = alloc_audit[key]
                chk.ok("untrusted-alloc", p, f"{name}#{ordn[base]}", f"audited ({cls}): {reason}")
                continue
            chk.bad("untrusted-alloc", p, f"{name}#{ordn[base]}", "constant, fallible or bounded size (or an audited row)", {"callee": c, "reached_via": " -> ".join(x.split("::")[-1] for x in g.chain(seen, p, 8))}, loc=loc)
            adump.append((key, loc))
    chk.floor("untrusted-alloc", "allocation sites in reachable bodies", n_alloc, 20)
    if os.environ.get("C05_DUMP"):
        with open(os.environ["C05_DUMP"] + ".alloc", "w") as fh:
            for k, loc in adump:
                fh.write(f"{k}\t{loc}\n")
    # ------------------------------------------------------------------ loops
    chk.rule("loop-progress", "every loop (CFG cycle) in reachable reader code passes, on every cycle, a block that consumes input / advances an iterator or cursor / moves a counter (rules/loops.py)")
    chk.assume("iterators driven by Iterator::next are finite or consume the input; a counter moved by a constant in a loop is bounded by that loop's exit test; serde's MapAccess/SeqAccess consume the JSON document")
    LOOP_AUDIT = {
        "dicom_parser::stateful::decode::trim_trail_empty_bytes": ("the slice shrinks by one element per iteration (`x = &x[..x.len() - 1]`) and the loop runs only while `x.last()` is Some", r"x = &x\[core::ops::range::RangeTo\{end: \(x\.len\(\) Sub 1\)\}\]"),
    }
    consuming = loops.consuming_functions(g)
    n_loops = 0
    for p in sorted(seen):
        bad, n = loops.analyse(g, p, consuming)
        n_loops += n
        if n and not bad:
            chk.ok("loop-progress", p, f"{n} loop(s)", "every cycle passes a progress block")
        for x in bad:
            f = g.fns[p]
            loc = f"{f['loc']['f']}:{x['head_line']}"
            if p in LOOP_AUDIT:
                reason, rx = LOOP_AUDIT[p]
                h = hir_of(root_of(g, p))
                if h is not None and re.search(rx, full_text(h), re.S):
                    chk.ok("loop-progress", p, f"loop@{len(x['blocks'])}blocks", "audited: " + reason)
                    continue
            chk.bad("loop-progress", p, "cycle-without-progress", "every cycle consumes input, advances an iterator/cursor or moves a counter",
                    {"loop_head_line": x["head_line"], "progress-free cycle (lines)": x["lines"], "reached_via": " -> ".join(q.split("::")[-1] for q in g.chain(seen, p, 8))}, loc=loc)
    chk.floor("loop-progress", "loops in reachable bodies", n_loops, 40)
    chk.analysed["loops"] = {"loops": n_loops, "consuming_functions": len(consuming)}
    chk.undecided.append("termination in bounded *time* (loop-progress shows that every loop consumes a finite resource, not how long it takes); panics inside third-party crates; memory exhaustion at the known-finding allocation sites")
