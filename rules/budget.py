"""GUARD `pdu-budget`: lower-bound dataflow for `bytes::Buf` cursors over resolved HIR.

Abstract state: for every cursor place (a local such as `buf`, `bytes`), a proven lower bound of `remaining()` as a
polynomial over opaque atoms (acc.Poly).  Recognised guards:
    if X.remaining() < E { <diverges> }            -> bound[X] := E on the fall-through
    ensure!(X.remaining() >= E, ..)                -> same (expands to `if !(..) { return Err }`)
    let ok = X.remaining() >= E; ensure!(ok, ..)   -> same, through the bool local
    while X.has_remaining() { .. }                 -> bound[X] >= 1 at the start of each iteration, 0 after the loop
Consumers: get_u8/u16/u32/u64/i*, advance(n), copy_to_bytes(n), copy_to_slice(s): need <= bound, then bound -= need.
`let Y = X.copy_to_bytes(n)` creates a cursor Y with bound n.  Passing a cursor to another function resets its bound to 0.
Joins take the pointwise minimum (equal polynomials, or the minimum of constants, else 0).  No solver.
"""
import re

from . import hirq as H
from .acc import Poly, place_text

GET_WIDTH = {"get_u8": 1, "get_i8": 1, "get_u16": 2, "get_i16": 2, "get_u16_le": 2, "get_u32": 4, "get_i32": 4, "get_u32_le": 4,
             "get_u64": 8, "get_i64": 8, "get_f32": 4, "get_f64": 8, "get_u128": 16}
BUF_TRAIT = "bytes::buf::buf_impl::Buf::"


class Site:
    def __init__(self, fn, op, cursor, need, bound, ok, line):
        self.fn, self.op, self.cursor, self.need, self.bound, self.ok, self.line = fn, op, cursor, need, bound, ok, line


FACTS = None  # set by the caller (facts of the tree under analysis) so that named integer constants evaluate to their values


def const_value(path):
    """value of a named integer constant of the analysed tree (`PDV_HEADER_SIZE` -> 6), None when unknown"""
    if FACTS is None:
        return None
    try:
        c = FACTS.const(path)
    except Exception:
        return None
    m = re.fullmatch(r"(-?\d+)_?[iu](8|16|32|64|128|size)", str((c or {}).get("val", "")))
    return int(m.group(1)) if m else None


def poly_of(n, env):
    """pure arithmetic expression -> Poly (casts transparent)"""
    n = H.peel(n)
    k = H.kind(n)
    if k == "lit":
        v = H.int_lit(n)
        return Poly.const(v) if v is not None else Poly.atom(H.show(n))
    if k == "cast":
        return poly_of(n[2], env)
    if k == "path":
        if n[3] == "local":
            return env.get(n[2], Poly.atom(n[2]))
        v = const_value(n[2])
        return Poly.const(v) if v is not None else Poly.atom(n[2].split("::")[-1])
    if k == "bin":
        a, b = poly_of(n[3], env), poly_of(n[4], env)
        if n[2] == "Add":
            return a + b
        if n[2] == "Sub":
            return a - b
        if n[2] == "Mul":
            return a * b
        return Poly.atom(f"({a!r} {n[2]} {b!r})")
    if k == "block" and not n[2] and n[3] is not None:
        return poly_of(n[3], env)
    if k == "mcall" and n[3] in ("into",) and not n[5]:
        return poly_of(n[4], env)
    if k == "call" and (H.callee(n) or "").endswith("::from") and len(n[3]) == 1:
        return poly_of(n[3][0], env)
    return Poly.atom(H.show(n, 5))


def nonneg(p):
    return p.is_const() and (p.const_value() or 0) >= 0


def pmin(a, b):
    if a == b:
        return a
    if a.is_const() and b.is_const():
        return Poly.const(min(a.const_value(), b.const_value()))
    d = a - b
    if nonneg(d):
        return b
    if nonneg(b - a):
        return a
    return Poly()


class Budget:
    def __init__(self, fn_name, cursor_types=None):
        self.fn = fn_name
        self.sites = []
        self.cursors = set()
        self.guards = []  # every constant-size availability guard: {cursor, need, line, slack}

    # ---- tightness: a guard that demands a constant number of bytes must not demand more than is read before the next guard on
    # the same cursor / the end of the loop iteration (an over-strict guard rejects the shortest valid encoding)
    def new_guard(self, st, cur, e, line):
        self.leftover(st, cur, f"the next guard (line {line})", e)
        # symbolic guards (`remaining() >= item_length`) are tracked too: what counts is a *constant* positive rest after the reads
        self.guards.append({"cursor": cur, "need": e.const_value() if e.is_const() else repr(e), "line": line, "slack": None})
        st.setdefault("g", {})[cur] = len(self.guards) - 1

    def leftover(self, st, cur, where, new=None):
        gi = st.get("g", {}).get(cur)
        if gi is None:
            return
        left = st["b"].get(cur, Poly())
        if left.is_const() and (left.const_value() or 0) > 0 and not (new is not None and nonneg(new - left)):
            g = self.guards[gi]
            if g["slack"] is None:
                g["slack"] = f"{left.const_value()} byte(s) demanded at line {g['line']} are still unread at {where}"

    # ---- helpers
    def is_buf_call(self, n, name=None):
        c = H.callee(n) or ""
        if H.kind(n) != "mcall":
            return False
        if not (c.startswith(BUF_TRAIT) or c.startswith("bytes::bytes::Bytes::") or c.startswith("bytes::bytes_mut::BytesMut::")
                or "as bytes::buf::buf_impl::Buf>::" in c):
            return False
        return name is None or n[3] == name

    def remaining_cmp(self, cond, st):
        """(cursor, E, sense) when cond is `X.remaining() <op> E` (or reversed); sense 'lt' means the condition is
        true when remaining < E (so its negation proves remaining >= E); 'ge' the opposite."""
        c = H.peel(cond)
        if H.kind(c) == "un" and c[2] == "Not":
            r = self.remaining_cmp(c[3], st)
            if r:
                return (r[0], r[1], "ge" if r[2] == "lt" else "lt")
            return None
        if H.kind(c) == "path" and c[3] == "local" and c[2] in st["bools"]:
            return st["bools"][c[2]]
        if H.kind(c) != "bin":
            return None
        op, a, b = c[2], H.peel(c[3]), H.peel(c[4])

        def rem(x):
            if H.kind(x) == "mcall" and x[3] == "remaining" and not x[5]:
                return place_text(x[4])
            return None

        if rem(a) is not None:
            cur, e = rem(a), poly_of(b, st["env"])
            if op == "Lt":
                return (cur, e, "lt")
            if op == "Ge":
                return (cur, e, "ge")
            if op == "Le":
                return (cur, e + Poly.const(1), "lt")
            if op == "Gt":
                return (cur, e + Poly.const(1), "ge")
        if rem(b) is not None:
            cur, e = rem(b), poly_of(a, st["env"])
            if op == "Gt":
                return (cur, e, "lt")
            if op == "Le":
                return (cur, e, "ge")
            if op == "Ge":
                return (cur, e + Poly.const(1), "lt")
            if op == "Lt":
                return (cur, e + Poly.const(1), "ge")
        return None

    @staticmethod
    def diverges(n):
        """does the expression certainly leave the enclosing function / loop (return, break, continue, `?`-less fail)?"""
        n = H.peel(n)
        k = H.kind(n)
        if k in ("ret", "break", "continue"):
            return True
        if k == "block":
            for s in n[2]:
                if H.kind(s) in ("semi", "sexpr") and Budget.diverges(s[2]):
                    return True
            return n[3] is not None and Budget.diverges(n[3])
        if k in ("semi", "sexpr"):
            return Budget.diverges(n[2])
        if k == "match" and n[5].startswith("TryDesugar"):
            # `expr?` where expr is a `.fail()` : always returns
            op = H.peel(n[2])
            inner = op[3][0] if H.kind(op) == "call" and op[3] else op
            inner = H.peel(inner)
            return H.kind(inner) == "mcall" and inner[3] == "fail"
        if k == "if":
            return n[4] is not None and Budget.diverges(n[3]) and Budget.diverges(n[4])
        if k == "call" and (H.callee(n) or "").startswith("core::panicking"):
            return True
        return False

    def copy_state(self, st):
        return {"b": dict(st["b"]), "env": dict(st["env"]), "bools": dict(st["bools"]), "g": dict(st.get("g", {}))}

    def join(self, states):
        states = [s for s in states if s is not None]
        if not states:
            return None
        # a guard established inside one branch ends with the branch: what it demanded and nobody read is over-demand
        for s in states:
            for c, gi in list(s.get("g", {}).items()):
                if any(o.get("g", {}).get(c) != gi for o in states):
                    self.leftover(s, c, "the end of its branch")
        out = self.copy_state(states[0])
        for s in states[1:]:
            keys = set(out["b"]) | set(s["b"])
            out["b"] = {k: pmin(out["b"].get(k, Poly()), s["b"].get(k, Poly())) for k in keys}
            out["env"] = {k: v for k, v in out["env"].items() if s["env"].get(k) == v}
            out["bools"] = {k: v for k, v in out["bools"].items() if s["bools"].get(k) == v}
            out["g"] = {k: v for k, v in out.get("g", {}).items() if s.get("g", {}).get(k) == v}
        return out

    # ---- evaluation: returns the state after the expression, or None when it diverges
    def ev(self, n, st):
        if st is None:
            return None
        k = H.kind(n)
        if k is None:
            if isinstance(n, list):
                for x in n:
                    st = self.ev(x, st)
                    if st is None:
                        return None
            return st
        if k == "block":
            for s in n[2]:
                st = self.ev(s, st)
                if st is None:
                    return None
            return self.ev(n[3], st) if n[3] is not None else st
        if k in ("semi", "sexpr"):
            return self.ev(n[2], st)
        if k == "slet":
            if n[3] is None:
                return st
            st = self.ev(n[3], st)
            if st is None:
                return None
            names = H.pat_bindings(n[2])
            init = H.peel(n[3])
            if n[2][0] == "pbind" and len(names) == 1:
                nm = names[0]
                st["b"].pop(nm, None)
                st["env"].pop(nm, None)
                st["bools"].pop(nm, None)
                if H.kind(init) == "mcall" and init[3] == "copy_to_bytes" and self.is_buf_call(init):
                    st["b"][nm] = poly_of(init[5][0], st["env"])
                    self.cursors.add(nm)
                else:
                    rc = self.remaining_cmp(init, st)
                    if rc:
                        st["bools"][nm] = rc
                    elif H.kind(init) in ("bin", "cast", "lit", "path"):
                        st["env"][nm] = poly_of(init, st["env"])
            if n[4] is not None:
                # let-else: the else block diverges
                pass
            return st
        if k == "ret":
            if n[2] is not None:
                st = self.ev(n[2], st)
                v = H.peel(n[2])
                if st is not None and H.kind(v) == "call" and (H.callee(v) or "").endswith("Result::Ok"):
                    for c in list(st.get("g", {})):
                        self.leftover(st, c, f"the successful return at line {n[1]}")
            return None
        if k in ("break", "continue"):
            return None
        if k == "if":
            cond = n[2]
            st = self.ev(cond, st)
            if st is None:
                return None
            rc = self.remaining_cmp(cond, st)
            s_then, s_else = self.copy_state(st), self.copy_state(st)
            if rc:
                cur, e, sense = rc
                tgt = s_else if sense == "lt" else s_then
                self.new_guard(tgt, cur, e, n[1])
                tgt["b"][cur] = self.bmax(tgt["b"].get(cur, Poly()), e)
            hr = H.peel(cond)
            if H.kind(hr) == "mcall" and hr[3] == "has_remaining":
                cur = place_text(hr[4])
                s_then["b"][cur] = self.bmax(s_then["b"].get(cur, Poly()), Poly.const(1))
            a = self.ev(n[3], s_then)
            b = self.ev(n[4], s_else) if n[4] is not None else s_else
            return self.join([a, b])
        if k == "match":
            st = self.ev(n[2], st)
            if st is None:
                return None
            if n[5].startswith("TryDesugar"):
                # `x?`: if x certainly fails the path ends, else continue with the Continue arm (binds nothing relevant)
                if self.diverges(n):
                    return None
                return st
            outs = []
            for p, g, b, ln in H.match_arms(n):
                s2 = self.copy_state(st)
                if g is not None:
                    s2 = self.ev(g, s2)
                outs.append(self.ev(b, s2))
            return self.join(outs)
        if k == "loop":
            body = n[2]
            src = n[3]
            s0 = self.copy_state(st)
            # unknown number of previous iterations: every cursor touched in the body starts from 0
            touched = {place_text(x[4]) for x in H.walk(body) if H.kind(x) == "mcall" and self.is_buf_call(x) and place_text(x[4])}
            touched |= {place_text(a) for x in H.walk(body) if H.kind(x) in ("call", "mcall") for a in H.call_args(x) if place_text(a) in st["b"]}
            for c in touched:
                # bytes demanded by a constant guard but still unread when a `while has_remaining()` / loop over the same cursor starts
                # were demanded of the *items that follow*: an input that ends here is rejected
                self.leftover(st, c, f"the start of the loop at line {n[1]}")
                s0["b"][c] = Poly()
            s0["bools"] = {}
            s0["g"] = {}
            s_end = self.ev(body, s0)
            if s_end is not None:
                for c in touched:
                    self.leftover(s_end, c, "end of the loop iteration")
            out = self.copy_state(st)
            for c in touched:
                out["b"][c] = Poly()
            out["bools"] = {}
            return out
        if k == "closure":
            s0 = {"b": {c: Poly() for c in st["b"]}, "env": dict(st["env"]), "bools": {}}
            self.ev(n[4], s0)
            return st
        if k in ("call", "mcall"):
            return self.ev_call(n, st)
        if k == "assign":
            st = self.ev(n[3], st)
            if st is not None:
                p = H.path_of(n[2])
                if p:
                    st["env"].pop(p, None)
                    st["bools"].pop(p, None)
            return st
        for c in H.children(n):
            st = self.ev(c, st)
            if st is None:
                return None
        return st

    @staticmethod
    def bmax(a, b):
        if a == b:
            return a
        if nonneg(b - a):
            return b
        if nonneg(a - b):
            return a
        return b  # the newest guard is what the code relies on

    def ev_call(self, n, st):
        args = H.call_args(n)
        if H.kind(n) == "mcall" and self.is_buf_call(n) and place_text(n[4]):
            cur = place_text(n[4])
            name = n[3]
            for a in n[5]:
                st = self.ev(a, st)
                if st is None:
                    return None
            need = None
            if name in GET_WIDTH:
                need = Poly.const(GET_WIDTH[name])
            elif name in ("advance", "copy_to_bytes", "split_to"):
                need = poly_of(n[5][0], st["env"])
            elif name == "copy_to_slice":
                need = Poly.atom(f"len({H.show(n[5][0], 3)})")
            if need is not None:
                self.cursors.add(cur)
                bound = st["b"].get(cur, Poly())
                ok = nonneg(bound - need)
                self.sites.append(Site(self.fn, name, cur, repr(need), repr(bound), ok, n[1]))
                st["b"][cur] = (bound - need) if ok else Poly()
            return st
        # while-let / generic calls: evaluate arguments; cursors handed to other functions lose their bound
        for a in args:
            a0 = H.peel(a)
            if H.kind(a0) == "closure":
                self.ev(a0, st)
                continue
            st = self.ev(a, st)
            if st is None:
                return None
        for a in args:
            pt = place_text(a)
            if pt in st["b"] and not (H.kind(n) == "mcall" and a is n[4] and n[3] in ("remaining", "has_remaining", "as_ref", "len", "is_empty", "chunk", "to_vec", "clone")):
                st["b"][pt] = Poly()
        return st


def analyse(hirfn, short):
    global FACTS
    if FACTS is None:
        from . import facts
        FACTS = facts.load("W")
    b = Budget(short)
    st = {"b": {}, "env": {}, "bools": {}, "g": {}}
    body = hirfn["body"]
    # `while cond { body }` is desugared to loop { if cond { body } else { break } }: handled by ev('loop') + ev('if')
    end = b.ev(body, st)
    if end is not None:
        for c in list(end.get("g", {})):
            b.leftover(end, c, "the end of the function")
    return b
