"""PAIR on cycles: every loop of a function makes progress on a finite resource (C05, "never hangs" — structural part).

For each MIR body the strongly connected components of the CFG (normal edges, no cleanup blocks) are the loops. A block is a
*progress block* when it
  * calls a progress primitive: `Iterator::next` and friends (the loop walks an iterator), a `Read`/`BufRead`/`Buf`/`Seek` consumer,
    `Vec::pop` / `VecDeque::pop_front` / `drain`, `str::Chars::next`, ...;
  * calls a workspace function that transitively contains a progress primitive ("consuming function": decode_header, read_value,
    advance, next token, ...), computed as a fixpoint over the call graph;
  * moves a counter: `x = x +/- c` (constant c != 0) of an integer local, directly or through a temporary.
A loop is accepted when removing its progress blocks leaves no cycle, i.e. **every** cycle through the loop passes a progress block.
Loops that fail are reported with the function, the line of the loop head and the blocks of a progress-free cycle.

Assumptions (stated in evidence): iterators driven by `next` are finite or themselves consume the input; a counter that moves in one
direction is compared against a bound by the loop's exit test (the exit test itself is not interpreted).
"""
import re

PRIMITIVE = re.compile(
    r"(core::iter::traits::iterator::Iterator::(next|nth|advance_by|try_fold|fold|for_each|position|find|any|all|last|count|sum|collect)"
    r"|core::iter::traits::double_ended::DoubleEndedIterator::(next_back|rfind|rposition)"
    r"|std::io::Read::(read|read_exact|read_to_end|read_to_string|read_buf|take)"
    r"|std::io::BufRead::(fill_buf|consume|read_until|read_line)"
    r"|std::io::Seek::(seek|stream_position|rewind)"
    r"|std::io::copy::copy"
    r"|bytes::buf::buf_impl::Buf::(advance|get_\w+|copy_to_bytes|copy_to_slice)"
    r"|alloc::vec::Vec::<T, A>::(pop|drain|remove|swap_remove|truncate|split_off)"
    r"|alloc::collections::vec_deque::VecDeque::<T, A>::(pop_front|pop_back|drain)"
    r"|smallvec::SmallVec::<A>::(pop|drain|remove|truncate)"
    r"|serde_core::de::(MapAccess::(next_key|next_key_seed|next_value|next_value_seed|next_entry|next_entry_seed)|SeqAccess::(next_element|next_element_seed))"
    r"|std::io::cursor::Cursor::<T>::set_position"
    r"|tokio::io::\w+::\w+::(poll_read|poll_fill_buf|read_buf|read_exact|read))$")
ITER_NEXT_SUFFIX = re.compile(r" as core::iter::traits::iterator::Iterator>::next$| as core::iter::traits::double_ended::DoubleEndedIterator>::next_back$")


def sccs(n, succ):
    """Tarjan, iterative; returns list of components (lists of nodes)"""
    index, low, onstack, stack, out = {}, {}, set(), [], []
    counter = [0]
    for root in range(n):
        if root in index:
            continue
        work = [(root, iter(succ(root)))]
        index[root] = low[root] = counter[0]
        counter[0] += 1
        stack.append(root)
        onstack.add(root)
        while work:
            v, it = work[-1]
            advanced = False
            for w in it:
                if w not in index:
                    index[w] = low[w] = counter[0]
                    counter[0] += 1
                    stack.append(w)
                    onstack.add(w)
                    work.append((w, iter(succ(w))))
                    advanced = True
                    break
                elif w in onstack:
                    low[v] = min(low[v], index[w])
            if advanced:
                continue
            work.pop()
            if work:
                u = work[-1][0]
                low[u] = min(low[u], low[v])
            if low[v] == index[v]:
                comp = []
                while True:
                    w = stack.pop()
                    onstack.discard(w)
                    comp.append(w)
                    if w == v:
                        break
                out.append(comp)
    return out


def normal_succs(f, bb):
    t = f["blocks"][bb]["t"]
    k = t["t"]
    if k == "goto":
        return [t["bb"]]
    if k == "switch":
        return list(dict.fromkeys([v[1] for v in t["vals"]] + [t["else"]]))
    if k in ("drop", "assert", "yield"):
        return [t["bb"]] if t.get("bb") is not None else []
    if k == "call":
        return [t["bb"]] if t.get("bb") is not None else []
    if k in ("falseedge", "falseunwind") and t.get("bb") is not None:
        return [t["bb"]]
    return [t["bb"]] if isinstance(t.get("bb"), int) else []


def callee_path(t):
    fn = t.get("fn") or {}
    return fn.get("res") or fn.get("path") or ""


def consuming_functions(g):
    """workspace bodies that (transitively) call a progress primitive"""
    direct = set()
    for p, f in g.fns.items():
        for b in f["blocks"]:
            t = b["t"]
            if t["t"] == "call":
                c = callee_path(t)
                d = (t.get("fn") or {}).get("path") or ""
                if PRIMITIVE.search(c) or PRIMITIVE.search(d) or ITER_NEXT_SUFFIX.search(c):
                    direct.add(p)
                    break
    cons = set(direct)
    # reverse edges
    rev = {}
    for p in g.fns:
        for (q, ln, kind) in g.callees(p)[0]:
            rev.setdefault(q, set()).add(p)
    work = list(cons)
    while work:
        q = work.pop()
        for p in rev.get(q, ()):
            if p not in cons:
                cons.add(p)
                work.append(p)
    return cons


def counter_blocks(f):
    """blocks that contain `x = x +/- const` for an integer local (possibly via one temporary)"""
    out = set()
    for bi, b in enumerate(f["blocks"]):
        defs = {}
        for s in b["s"]:
            d = (s.get("d") or {}).get("s")
            r = s.get("r") or {}
            if r.get("rv") == "bin" and r.get("op") in ("Add", "Sub", "AddUnchecked", "SubUnchecked", "AddWithOverflow", "SubWithOverflow"):
                a, c = r.get("a") or {}, r.get("b") or {}
                src = (a.get("c") or a.get("m") or {}).get("s")
                k = c.get("int")
                if src and k not in (None, "0"):
                    if d == src:
                        out.add(bi)
                    defs[d] = src
            elif r.get("rv") == "use" and d:
                o = r.get("o") or {}
                src = (o.get("c") or o.get("m") or {}).get("s")
                if src in defs and defs[src] == d:
                    out.add(bi)
                if src in defs:
                    defs[d] = defs[src]
            elif r.get("rv") == "field" or d is None:
                continue
    return out


def analyse(g, p, consuming):
    """-> list of dict(head_line, blocks, free_cycle) for loops of body p with a progress-free cycle; and number of loops"""
    f = g.fns[p]
    n = len(f["blocks"])
    clean = [i for i in range(n) if not f["blocks"][i].get("cleanup")]
    cs = set(clean)

    def succ(i):
        return [s for s in normal_succs(f, i) if s in cs] if i in cs else []
    comps = [c for c in sccs(n, succ) if len(c) > 1 or (c and c[0] in succ(c[0]))]
    if not comps:
        return [], 0
    ctr = counter_blocks(f)
    prog = set(ctr)
    for bi in clean:
        t = f["blocks"][bi]["t"]
        if t["t"] == "call":
            c = callee_path(t)
            d = (t.get("fn") or {}).get("path") or ""
            if PRIMITIVE.search(c) or PRIMITIVE.search(d) or ITER_NEXT_SUFFIX.search(c):
                prog.add(bi)
            elif c in consuming or d in consuming:
                prog.add(bi)
            elif (t.get("fn") or {}).get("trait") and not (t.get("fn") or {}).get("res"):
                name = d.split("::")[-1]
                impls = g.by_trait.get(((t.get("fn") or {}).get("trait"), name), [])
                if impls and all(ip in consuming for ip in impls):
                    prog.add(bi)
        elif t["t"] == "yield":
            prog.add(bi)    # a suspension point: the loop waits for the executor / transport
    bad = []
    for comp in comps:
        inside = set(comp) - prog
        # is there a cycle within `inside`?
        sub = sccs(n, lambda i: [s for s in succ(i) if s in inside] if i in inside else [])
        free = [c for c in sub if (len(c) > 1 and set(c) <= inside) or (len(c) == 1 and c[0] in inside and c[0] in succ(c[0]))]
        if free:
            head = min(comp)
            bad.append({"head_line": f["blocks"][head]["t"].get("l"), "blocks": sorted(comp)[:12], "free_cycle": sorted(free[0])[:12],
                        "lines": sorted({f["blocks"][b]["t"].get("l") for b in free[0] if f["blocks"][b]["t"].get("l")})[:8]})
    return bad, len(comps)
