"""Shared extraction helpers used by several properties."""
import os
import re

from . import hirq as H

VERIF = os.path.dirname(os.path.dirname(os.path.abspath(__file__)))

VR_ENUM = "dicom_core::header::VR"


def read_tsv(name):
    rows = []
    with open(os.path.join(VERIF, "refs", name)) as fh:
        for line in fh:
            line = line.rstrip("\n")
            if not line or line.startswith("#"):
                continue
            rows.append(line.split("\t"))
    return rows


def vr_ref():
    """{VR: dict(header, kind, unit, pad, default_only, single)} from refs/vr.tsv"""
    out = {}
    for r in read_tsv("vr.tsv"):
        out[r[0]] = {"header": r[1], "kind": r[2], "unit": int(r[3]), "pad": r[4], "default_only": r[5], "single": r[6]}
    return out


def array_len(ty):
    m = re.search(r"\[[^\[\];]+;\s*(\d+)\]", ty or "")
    return int(m.group(1)) if m else None


def expr_ty(n):
    """type string recorded for selected node kinds"""
    k = H.kind(n)
    if k == "path":
        return n[4]
    if k == "lit":
        return n[3]
    if k == "call":
        return n[4]
    if k == "mcall":
        return n[7]
    if k == "cast":
        return n[4]
    if k == "struct":
        return n[6]
    if k == "repeat":
        return n[3]
    if k == "ref":
        return expr_ty(n[3])
    return None


def slice_extent(n):
    """(offset, length) of a buffer expression like `&mut buf[a..b]`, `&buf[a..]`, `buf`, `&mut buf`.
    length None when unknown. Returns (base_name, offset, length)."""
    n = H.peel(n)
    if H.kind(n) == "index":
        base = H.peel(n[2])
        idx = H.peel(n[3])
        base_name = H.path_of(base)
        blen = array_len(n[4])
        if H.kind(idx) == "struct":
            nm = idx[2].split("::")[-1]
            fields = {f[0]: f[1] for f in idx[4]}
            start = H.int_lit(fields["start"]) if "start" in fields else 0
            end = H.int_lit(fields["end"]) if "end" in fields else None
            if nm == "RangeFrom":
                return (base_name, start, None if blen is None or start is None else blen - start)
            if nm in ("Range",):
                return (base_name, start, None if (start is None or end is None) else end - start)
            if nm == "RangeTo":
                return (base_name, 0, end)
            if nm == "RangeInclusive":
                return (base_name, start, None if (start is None or end is None) else end - start + 1)
            if nm == "RangeFull":
                return (base_name, 0, blen)
        if H.kind(idx) == "call" and (H.callee(idx) or "").endswith("RangeInclusive::<Idx>::new"):
            a = [H.int_lit(x) for x in idx[3]]
            if None not in a:
                return (base_name, a[0], a[1] - a[0] + 1)
        il = H.int_lit(idx)
        if il is not None:
            return (base_name, il, 1)
        return (base_name, None, None)
    if H.kind(n) == "path":
        return (n[2], 0, array_len(n[4]))
    if H.kind(n) == "mcall" and n[3] in ("as_mut", "as_ref", "as_mut_slice", "as_slice"):
        return slice_extent(n[4])
    return (None, None, None)


BYTEORDER_RE = re.compile(r"<byteorder::(LittleEndian|BigEndian) as byteorder::ByteOrder>::(\w+)")


def byteorder_calls(n):
    """[(endianness, fn, slice_extent(first arg), value arg node|None, node)] for ByteOrder::xxx calls within n"""
    out = []
    for c, x in H.calls(n):
        if c is None or not c.startswith("byteorder::ByteOrder::"):
            continue
        fname = c.split("::")[-1]
        endian = None
        if x[0] == "call":
            fty = x[2][4] if H.kind(x[2]) == "path" else ""
            m = BYTEORDER_RE.search(fty or "")
            if m:
                endian = m.group(1)
        args = H.call_args(x)
        ext = slice_extent(args[0]) if args else (None, None, None)
        val = args[1] if len(args) > 1 else None
        out.append((endian, fname, ext, val, x))
    return out


def width_of(fname):
    m = re.search(r"(\d+)", fname)
    return int(m.group(1)) // 8 if m else None


def read_exact_calls(n):
    """[(extent, node)] for Read::read_exact calls"""
    out = []
    for c, x in H.calls(n):
        if c and c.endswith("io::Read::read_exact"):
            args = H.call_args(x)
            out.append((slice_extent(args[1]) if len(args) > 1 else (None, None, None), x))
    return out


def ok_literals(n):
    """integer literals found in tail `Ok(<int>)` / `Ok((.., <int>))` positions or assigned to a local, within n"""
    vals = []
    for x in H.walk(n):
        if H.kind(x) == "call" and (H.callee(x) or "").endswith("result::Result::Ok"):
            a = H.peel(x[3][0]) if x[3] else None
            if a is None:
                continue
            v = H.int_lit(a)
            if v is not None:
                vals.append(("ok", v))
            elif H.kind(a) == "tuple":
                for y in a[2]:
                    v = H.int_lit(y)
                    if v is not None:
                        vals.append(("ok-tuple", v))
        if H.kind(x) == "assign":
            v = H.int_lit(x[3])
            p = H.path_of(x[2])
            if v is not None and p:
                vals.append(("assign:" + p, v))
    return vals


# ---- frozen list of may-panic externals (DESIGN Appendix B); matched on resolved callee paths
PANIC_EXACT_SUFFIX = (
    "Option::<T>::unwrap", "Option::<T>::expect", "Result::<T, E>::unwrap", "Result::<T, E>::expect",
    "Result::<T, E>::unwrap_err", "Result::<T, E>::expect_err",
    "::split_at", "::split_at_mut", "::copy_from_slice", "::clone_from_slice", "::swap", "::rotate_left", "::rotate_right",
    "Vec::<T, A>::remove", "Vec::<T, A>::insert", "Vec::<T, A>::swap_remove", "Vec::<T, A>::drain", "Vec::<T, A>::split_off",
    "String::remove", "String::insert", "String::drain", "String::split_off", "String::insert_str", "String::truncate", "String::replace_range",
    "Duration::from_secs_f64", "Duration::from_secs_f32",
    "SmallVec::<A>::remove", "SmallVec::<A>::insert", "SmallVec::<A>::swap_remove", "SmallVec::<A>::drain",
    "RefCell::<T>::borrow", "RefCell::<T>::borrow_mut",
    "::chunks", "::chunks_exact", "::chunks_mut", "::chunks_exact_mut", "::windows",
    "BytesMut::split_to", "BytesMut::split_off", "Bytes::split_to", "Bytes::split_off", "Bytes::slice",
    "VecDeque::<T, A>::remove", "Instant::sub", "Handle::current", "block_in_place",
)
PANIC_PREFIX = ("core::panicking::", "std::rt::begin_panic", "core::option::expect_failed", "core::option::unwrap_failed",
                "core::result::unwrap_failed")
PANIC_INDEX_DECL = ("core::ops::index::Index::index", "core::ops::index::IndexMut::index_mut")
PANIC_BUF = re.compile(r"bytes::buf::buf_impl::Buf::(get_[uif]\d+(_le|_ne)?|get_u?int(_le)?|advance|copy_to_bytes|copy_to_slice)$")
PANIC_BYTEORDER = re.compile(r"byteorder::ByteOrder(>)?::(read|write)_\w+$")


def panic_callee(resolved, declared):
    """classify a callee as a may-panic external; returns a short kind or None"""
    r = resolved or ""
    d = declared or ""
    for p in PANIC_PREFIX:
        if r.startswith(p) or d.startswith(p):
            return "panic"
    if d in PANIC_INDEX_DECL or r in PANIC_INDEX_DECL:
        return "index"
    if PANIC_BUF.search(d) or PANIC_BUF.search(r):
        return "buf"
    if PANIC_BYTEORDER.search(d) or PANIC_BYTEORDER.search(r):
        return "byteorder"
    for s in PANIC_EXACT_SUFFIX:
        if r.endswith(s) or d.endswith(s):
            return s.split("::")[-1]
    return None


def contains_call(n, suffix):
    return any(c and c.endswith(suffix) for c, _ in H.calls(n))


def fn_loc(f):
    l = f.get("loc", {})
    return f"{l.get('f')}:{l.get('l')}"
