"""C23 — DICOM JSON serialisation round-trips (structural clauses) and deserialisation never panics.

1. json-ser-de (SIB): for every VR the form the serializer writes (C24's table) is a form the deserializer's arm for
   that VR accepts: string->Vec<Option<String>>, pn->DicomJsonPerson, number->numeric element type or NumberOrText,
   tag->DicomJson<Tag>, sq->DicomJson<InMemDicomObject>; InlineBinary is accepted for every VR and base64-decoded.
2. non-finite: the three literals the serializer writes for non-finite floats are spellings that f32/f64::from_str
   accepts, and the deserializer's text branch goes through str::parse.
3. de-panic-free: the MIR of every body of dicom_json::de (functions and closures) contains no panic-family call and
   no bounds/division assert — the JSON slice of C05's inventory.
"""
import json
import re

from . import facts, hirq as H, mirq as M, common as C

LEVEL_TEXT = ("Exhaustive over the 34 VRs for the two sibling tables and over every MIR body of the deserializer module for the panic "
              "inventory. Decides form compatibility and absence of panicking constructs in dicom-json's own code; serde/serde_json/"
              "base64 internals are a trusted boundary; value equality after the round trip is not decided.")

VISIT = "dicom_json::de"
# spellings accepted by <f32|f64 as FromStr> (std documentation: optional sign, then "inf", "infinity" or "nan", case-insensitive)
FLOAT_WORDS = re.compile(r"^[+-]?(inf|infinity|nan)$", re.I)
PANIC_CALLEES = ("core::panicking::", "core::option::Option::<T>::unwrap", "core::option::Option::<T>::expect", "core::result::Result::<T, E>::unwrap",
                 "core::result::Result::<T, E>::expect", "core::result::Result::<T, E>::unwrap_err", "core::slice::index::", "core::str::traits::",
                 "core::ops::index::Index", "core::cell::RefCell")


def run(chk, tier):
    fx = facts.load("W")
    chk.analysed["facts"] = fx.meta
    vrs = fx.variants(C.VR_ENUM)
    ser_ref = {r[0]: r[1] for r in C.read_tsv("json_annex_f.tsv")}
    chk.assume("serde_json::from_value::<T> fails (returns Err) on values that do not fit T; it does not panic")
    chk.assume("the serializer's VR -> form table is the one checked by C24 (equal to refs/json_annex_f.tsv)")

    # ---------- rule 1
    chk.rule("json-ser-de", "per VR, the deserializer's Value arm parses the form the serializer writes")
    d = fx.crate("dicom_json")
    cands = [h for h in d["hir"] if h["path"].endswith("::visit_map") and "DataElementVisitor" in h["path"]]
    if len(cands) != 1:
        raise facts.MissingAnchor(f"DataElementVisitor::visit_map: {len(cands)} candidates")
    h = cands[0]
    ms = H.matches_over(h["body"], lambda t: t == C.VR_ENUM)
    if len(ms) != 1:
        raise facts.MissingAnchor("visit_map: match over VR")
    tab, arms = H.enum_table(ms[0], vrs, C.VR_ENUM)
    de_tab = {}
    for v in vrs:
        b = arms[tab[v][0]][2] if tab[v] else None
        ty = None
        if b is not None:
            fv = [x for c, x in H.calls(b) if c and c.startswith("serde_json::value::") and c.split("::")[-1].startswith("from_value")]
            if fv:
                ty = C.expr_ty(fv[0]) or ""
                m = re.search(r"Result<alloc::vec::Vec<(.*)>, serde_json::error::Error>$", ty)
                ty = m.group(1) if m else ty
            elif any((c or "").endswith("Error::custom") for c, _ in H.calls(b)):
                ty = "error"
        de_tab[v] = ty
    chk.sample({"rule": "json-ser-de", "deserializer_item_types": de_tab})

    def accepts(form, ty):
        if ty is None:
            return False
        if form == "string":
            return ty == "core::option::Option<alloc::string::String>" or ty == "alloc::string::String"
        if form == "pn":
            return "DicomJsonPerson" in ty
        if form == "number":
            return ty in ("i16", "u16", "i32", "u32", "i64", "u64", "f32", "f64", "u8") or "NumberOrText<" in ty
        if form == "tag":
            return ty == "dicom_json::DicomJson<dicom_core::header::Tag>"
        if form == "sq":
            return ty.startswith("dicom_json::DicomJson<dicom_object::mem::InMemDicomObject<")
        if form == "binary":
            return True  # written as InlineBinary, which is handled outside the VR table (checked below)
        return False

    # what the serializer writes today (not only what the reference says it should): a numeric VR written as InlineBinary comes back
    # as bytes, which is a documented normalisation for the binary VRs only
    from . import c24
    written = c24.ser_forms(fx)
    chk.floor("json-ser-de", "serializer arms", len(written), 33)
    for v, (form, loc) in sorted(written.items()):
        chk.expect(form == ser_ref[v] and accepts(form, de_tab[v]), "json-ser-de", "element-serializer -> visit_map", v,
                   f"written as `{ser_ref[v]}` and that form is parsed by the deserializer's {v} arm", {"written": form, "read as": de_tab[v]}, loc=loc)
    for v in vrs:
        chk.expect(accepts(ser_ref[v], de_tab[v]), "json-ser-de", "visit_map", v, f"accepts the `{ser_ref[v]}` form", de_tab[v], loc=f"{h['loc']['f']}:{arms[tab[v][0]][3] if tab[v] else 0}")
    # InlineBinary: decoded with base64 STANDARD for any VR; Value+InlineBinary together is an error
    txt = json.dumps(h["body"])
    chk.expect("general_purpose::STANDARD" in txt and ".decode" in txt or "decode" in txt, "json-ser-de", "visit_map", "inline-binary-decoded", "base64 STANDARD decode", "found" if "STANDARD" in txt else "missing")
    tm = [m for m in H.walk(h["body"]) if H.kind(m) == "match" and m[3].startswith("(core::option::Option<")]
    both = None
    for m in tm:
        idx = None
        try:
            idx = H.eval_match(m, ("tuple", [H.val("Option::Some", H.ANY), H.val("Option::Some", H.ANY)]))
        except ValueError:
            continue
        if idx is not None:
            both = H.match_arms(m)[idx][2]
    is_err = both is not None and any((c or "").endswith("Error::custom") for c, _ in H.calls(both)) and "unreachable" not in json.dumps(both)
    chk.expect(is_err, "json-ser-de", "visit_map", "Value+InlineBinary", "an error (serde custom), not unreachable!()", H.show(both, 5) if both is not None else None, loc=C.fn_loc(h))

    # ---------- rule 2
    chk.rule("non-finite", "NAN/INFINITY/NEG_INFINITY are spellings accepted by f32/f64::from_str; NumberOrText::to_num parses text with str::parse")
    for name in ("NAN", "INFINITY", "NEG_INFINITY"):
        c = fx.const(f"dicom_json::{name}")
        val = (c["val"] or "").strip('"')
        chk.expect(FLOAT_WORDS.match(val) is not None, "non-finite", f"dicom_json::{name}", "accepted-by-from_str", "[+-]?(inf|infinity|nan)", val)
    hn = [x for x in d["hir"] if x["path"].endswith("NumberOrText::<N>::to_num")]
    if len(hn) != 1:
        raise facts.MissingAnchor("NumberOrText::to_num")
    cs = [c for c, _ in H.calls(hn[0]["body"]) if c]
    chk.expect(any(c.endswith("str::<impl str>::parse") for c in cs), "non-finite", "NumberOrText::to_num", "text-via-parse", "text.parse()", cs, loc=C.fn_loc(hn[0]))

    # ---------- rule 3
    chk.rule("de-panic-free", "no panic-family call and no bounds/division assert in any MIR body of dicom_json::de")
    n_bodies = 0
    for f in d["fns"]:
        p = f["path"]
        if "dicom_json::de::" not in p and not p.startswith("<dicom_json::de"):
            continue
        n_bodies += 1
        hits = []
        for i, b in enumerate(f["blocks"]):
            if b.get("cleanup"):
                continue
            t = b["t"]
            if t["t"] == "call":
                c = M.callee(t) or ""
                dcl = M.callee_decl(t) or ""
                k = C.panic_callee(c, dcl)
                if k:
                    hits.append(f"{k}:{c.split('::')[-1]}@{t['l']}")
            elif t["t"] == "assert" and not t["msg"].startswith("Overflow") and not t["msg"].startswith("Resumed"):
                hits.append(f"assert:{t['msg']}@{t['l']}")
        short = re.sub(r"<[^<>]*>", "", p.split("dicom_json::de")[-1])[-70:]
        chk.expect(not hits, "de-panic-free", short, "panic-sites", "none", hits, loc=C.fn_loc(f))
    chk.floor("de-panic-free", "MIR bodies of dicom_json::de", n_bodies, 25)
    chk.analysed["de_bodies"] = n_bodies
    # ---------- rule 4: the number serializer narrows only through checked conversions
    chk.rule("ser-no-lossy-cast", "no narrowing or sign-changing `as` cast in dicom_json::ser (64-bit integers are narrowed with NumCast::from, which fails "
             "instead of wrapping, and fall back to the exact decimal string)")
    order = {"u8": 8, "i8": 8, "u16": 16, "i16": 16, "u32": 32, "i32": 32, "u64": 64, "i64": 64, "usize": 64, "isize": 64, "u128": 128, "i128": 128}
    n_ser = 0
    for f in d["fns"]:
        p = f["path"]
        if "dicom_json::ser" not in p:
            continue
        n_ser += 1
        bad = []
        for bb, j, s in M.assigns(f):
            r = s["r"]
            if r["rv"] != "cast":
                continue
            fr, to = r["from"], r["to"]
            if r["kind"] == "IntToInt" and fr in order and to in order:
                narrowing = order[to] < order[fr]
                sign_change = (fr[0] != to[0]) and not (fr[0] == "u" and order[to] > order[fr])
                if narrowing or sign_change:
                    bad.append(f"{fr} as {to}@{s['l']}")
            elif r["kind"] in ("FloatToInt", "FloatToFloat") and fr != to and not (fr == "f32" and to == "f64"):
                bad.append(f"{fr} as {to}@{s['l']}")
        short = re.sub(r"<[^<>]*>", "", p.split("dicom_json::ser")[-1])[-70:]
        chk.expect(not bad, "ser-no-lossy-cast", short, "casts", "none", bad, loc=C.fn_loc(f))
    chk.floor("ser-no-lossy-cast", "MIR bodies of dicom_json::ser", n_ser, 20)
    hn2 = [x for x in d["hir"] if x["path"].endswith("AsNumbers<'_> as serde_core::ser::Serialize>::serialize")]
    if len(hn2) != 1:
        raise facts.MissingAnchor("AsNumbers::serialize")
    ncast = [x for c, x in H.calls(hn2[0]["body"]) if c and c.endswith("NumCast::from")]
    chk.expect(len(ncast) == 2, "ser-no-lossy-cast", "AsNumbers::serialize", "64-bit-narrowing-checked", "NumCast::from for I64 and U64", len(ncast), loc=C.fn_loc(hn2[0]))
    from . import shared
    shared.text_values_as_stored(chk, fx, "text-values-as-stored")
    chk.undecided.append("equality of the data set after the round trip; panics inside serde_json/base64/serde (trusted boundary)")
