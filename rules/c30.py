"""C30 — association release and abort follow the upper-layer protocol (shape of the handshake + ownership).

1. release-handshake (PAIR+TAB): in the default `release` of SyncAssociationSealed and AsyncAssociationSealed:
   send(ReleaseRQ) -> receive -> a match that is total over Pdu in which only the ReleaseRP arm continues; every other
   PDU (abort, P-DATA, a colliding ReleaseRQ, unknown ...) returns an error; `close` comes after the match and nowhere
   else; the function ends in Ok(()).
2. abort: send(AbortRQ) and close in that order, the result of `send` is what is returned.
3. consumes-self (type-level): the public `release` / `abort` of the sync and async association traits take `self` by
   value, so no send/receive can follow a completed release (the compiler rejects it: E0382).  Decided here from the
   type-checked signatures; the thorough tier additionally compiles the compile_fail witnesses in /verif/witness.
4. scp-loop: storescp (sync and async) answers ReleaseRQ with ReleaseRP and leaves its loop; on AbortRQ it leaves
   without sending.
"""
import os
import subprocess

from . import facts, hirq as H, common as C

LEVEL_TEXT = ("Both default release implementations are checked arm by arm over the whole Pdu enum; ownership is decided from the "
              "type-checked signatures (and by compile_fail witnesses in the thorough tier). Decides the shape of the handshake; "
              "conformance of arbitrary interleavings with the PS3.8 state machine is not decided by static analysis.")

A = "dicom_ul::association"
P = "dicom_ul::pdu::Pdu"
VERIF = os.path.dirname(os.path.dirname(os.path.abspath(__file__)))


def body_of(h):
    """the statement-bearing body (looks through the `async move` block of the async default method)"""
    b = H.peel(h["body"])
    cl = [x for x in H.walk(b) if H.kind(x) == "closure" and "Coroutine" in str(x[5])]
    return cl[0][4] if cl else b


def check_release(chk, fx, h, name):
    b = body_of(h)
    # order of protocol calls
    seq = []
    for x in H.walk(b):
        if H.kind(x) == "mcall" and x[3] in ("send", "receive", "close") and H.path_of(x[4]) == "self":
            seq.append((x[3], x[1], x))
    seq.sort(key=lambda t: t[1])
    names = [s[0] for s in seq]
    chk.expect(names == ["send", "receive", "close"], "release-handshake", name, "call-order", ["send", "receive", "close"], names, loc=C.fn_loc(h))
    if names[:1] == ["send"]:
        arg = H.peel(seq[0][2][5][0])
        nm = H.path_of(arg)
        init = None
        for y in H.walk(b):
            if H.kind(y) == "slet" and H.pat_bindings(y[2]) == [nm] and y[1] <= seq[0][1]:
                init = y[3]
        sent = H.path_of(init) if init is not None else H.path_of(arg)
        chk.expect(sent == f"{P}::ReleaseRQ", "release-handshake", name, "sends-ReleaseRQ", "Pdu::ReleaseRQ", sent)
    ms = H.matches_over(b, lambda t: t == P)
    chk.expect(len(ms) == 1, "release-handshake", name, "reply-match", "one match over the received Pdu", len(ms))
    if len(ms) != 1:
        return
    m = ms[0]
    variants = fx.variants(P)
    arms = H.match_arms(m)
    table = {}
    for v in variants:
        got = None
        for (p, g, body, ln) in arms:
            heads = [H.pat_head(a) for a in H.pat_alts(p)]
            if any(hd[0] == "variant" and hd[1] == f"{P}::{v}" for hd in heads) or any(hd[0] == "wild" for hd in heads):
                rets = [y for y in H.walk(body) if H.kind(y) == "ret"]
                is_err = bool(rets) and all("fail" in H.show(y, 6) or "Err" in H.show(y, 6) for y in rets) and not any("Ok" in H.show(y, 4) for y in rets)
                sends = [y[3] for y in H.walk(body) if H.kind(y) == "mcall" and y[3] in ("send", "close")]
                got = "error" if is_err else ("continue" if not rets and not sends else "other:" + H.show(body, 4)[:80])
                if g is not None:
                    got += "+guard"
                break
        table[v] = got
    for v in variants:
        want = "continue" if v == "ReleaseRP" else "error"
        chk.expect(table[v] == want, "release-handshake", name, v, want, table[v], loc=C.fn_loc(h))
    chk.sample({"rule": "release-handshake", "fn": name, "table": table})
    # close after the match, Ok(()) at the end
    close_line = [s[1] for s in seq if s[0] == "close"]
    chk.expect(bool(close_line) and close_line[0] > max(a[3] for a in arms), "release-handshake", name, "close-after-reply-check", "close() after the match", close_line)
    blk = H.peel(b)
    tail = H.peel(blk[3]) if H.kind(blk) == "block" and blk[3] is not None else None
    chk.expect(tail is not None and H.show(tail, 4).endswith("Ok(())"), "release-handshake", name, "ends-in-Ok", "Ok(())", H.show(tail, 4) if tail is not None else None)


def check_abort(chk, fx, h, name):
    b = body_of(h)
    seq = sorted([(x[3], x[1]) for x in H.walk(b) if H.kind(x) == "mcall" and x[3] in ("send", "close", "receive") and H.path_of(x[4]) == "self"], key=lambda t: t[1])
    chk.expect([s[0] for s in seq] == ["send", "close"], "abort", name, "call-order", ["send", "close"], [s[0] for s in seq], loc=C.fn_loc(h))
    sent = [x for x in H.walk(H.peel(h["body"])) if H.kind(x) == "struct" and x[2] == f"{P}::AbortRQ"]
    chk.expect(len(sent) == 1, "abort", name, "sends-AbortRQ", "Pdu::AbortRQ {..}", len(sent))
    # the value returned is the result of send
    blk = H.peel(b)
    tail = H.peel(blk[3]) if H.kind(blk) == "block" and blk[3] is not None else None
    nm = H.path_of(tail) if tail is not None else None
    src = [y for y in H.walk(b) if H.kind(y) == "slet" and H.pat_bindings(y[2]) == [nm]] if nm else []
    ok = len(src) == 1 and any(H.kind(z) == "mcall" and z[3] == "send" for z in H.walk(src[0][3]))
    chk.expect(ok, "abort", name, "returns-send-result", "`let out = self.send(..); let _ = self.close(); out`", H.show(tail, 3) if tail is not None else None)


def run(chk, tier):
    fx = facts.load("W")
    chk.analysed["facts"] = fx.meta
    chk.rule("release-handshake", "send(ReleaseRQ); receive; only ReleaseRP continues, every other Pdu variant is an error; close after; Ok(())")
    chk.rule("abort", "send(AbortRQ) then close; send's result is returned")
    for tr in ("SyncAssociationSealed", "AsyncAssociationSealed"):
        check_release(chk, fx, fx.hirfn(f"{A}::private::{tr}::release"), f"{tr}::release")
        check_abort(chk, fx, fx.hirfn(f"{A}::private::{tr}::abort"), f"{tr}::abort")
    # no implementor overrides the default release/abort
    d = fx.crate("dicom_ul")
    over = [h["path"] for h in d["hir"] if ("AssociationSealed>::release" in h["path"] or "AssociationSealed>::abort" in h["path"])]
    chk.expect(not over, "release-handshake", "implementors", "no-override", "the four associations use the default release/abort", over)
    impls = [i for i in d["impls"] if i.get("trait", "").endswith("AssociationSealed")]
    chk.expect(len(impls) >= 4, "release-handshake", "implementors", "count", ">= 4 (client/server x sync/async)", [i["self"][:60] for i in impls])

    # ---------- rule 3
    chk.rule("consumes-self", "the public release/abort take `self` by value (use after release does not compile)")
    for tr in ("SyncAssociation", "AsyncAssociation"):
        for fn in ("release", "abort"):
            fs = [f for f in d["fns"] if f["path"] == f"{A}::{tr}::{fn}"]
            if len(fs) != 1:
                raise facts.MissingAnchor(f"{tr}::{fn} (MIR)")
            sig = fs[0].get("sig", "")
            first = fs[0]["locals"][1] if len(fs[0]["locals"]) > 1 else ""
            chk.expect(first == "Self" and "fn(Self)" in sig.replace(" ", "").replace("fn(Self)", "fn(Self)"), "consumes-self", f"{tr}::{fn}", "receiver", "self by value (`fn(Self)`)", {"sig": sig, "self_local": first},
                       loc=C.fn_loc(fs[0]))
            # and it forwards to the sealed implementation
            h = fx.hirfn(f"{A}::{tr}::{fn}")
            cs = [c for c, _ in H.calls(h["body"]) if c]
            chk.expect(any(c.endswith(f"AssociationSealed::{fn}") for c in cs), "consumes-self", f"{tr}::{fn}", "forwards", f"private::..Sealed::{fn}(&mut self)", cs)
    if tier == "thorough":
        wdir = os.path.join(VERIF, "witness")
        if os.path.isdir(wdir):
            env = dict(os.environ, CARGO_NET_OFFLINE="true", CARGO_TARGET_DIR=os.path.join(VERIF, ".cache", "witness-target"))
            lock_src = os.path.join(facts.REPO, "Cargo.lock")
            if os.path.exists(lock_src):
                import shutil
                shutil.copy(lock_src, os.path.join(wdir, "Cargo.lock"))
            r = subprocess.run(["cargo", "+nightly", "test", "--doc", "--offline"], cwd=wdir, env=env, stdout=subprocess.PIPE, stderr=subprocess.STDOUT, text=True)
            tail = "\n".join(r.stdout.splitlines()[-12:])
            import re
            m = re.search(r"test result: (\w+)\. (\d+) passed; (\d+) failed", r.stdout)
            ok = r.returncode == 0 and m is not None and m.group(1) == "ok" and int(m.group(2)) >= 8
            chk.expect(ok, "consumes-self", "witness", "compile_fail-doctests", ">= 8 doctests pass (4 compile_fail E0382 witnesses + 4 compiling twins)", tail[-400:])
            chk.analysed["witness"] = m.group(0) if m else "no result line"

    # ---------- rule 4
    chk.rule("scp-loop", "storescp: ReleaseRQ -> send(ReleaseRP) then leave the loop; AbortRQ -> leave without sending")
    for mod in ("store_sync", "store_async"):
        hs = fx.find_hir("dicom_storescp", lambda p, mod=mod: p.startswith(f"dicom_storescp::{mod}::inner"), kind="bin")
        if len(hs) != 1:
            raise facts.MissingAnchor(f"storescp {mod}::inner: {len(hs)}")
        h = hs[0]
        ms = [m for m in H.matches_over(h["body"], lambda t: t == P)]
        found = {}
        for m in ms:
            for p, g, b, ln in H.match_arms(m):
                for alt in H.pat_alts(p):
                    hd = H.pat_head(alt)
                    if hd[0] == "variant" and hd[1] in (f"{P}::ReleaseRQ", f"{P}::AbortRQ"):
                        sends = [H.show(y[5][0], 4) for y in H.walk(b) if H.kind(y) == "mcall" and y[3] == "send" and "association" in H.show(y[4], 3)]
                        brk = any(H.kind(y) == "break" for y in H.walk(b))
                        found[hd[1].split("::")[-1]] = (sends, brk)
        rq = found.get("ReleaseRQ")
        ab = found.get("AbortRQ")
        chk.expect(rq is not None and len(rq[0]) == 1 and "ReleaseRP" in rq[0][0] and rq[1], "scp-loop", mod, "ReleaseRQ", "send(&Pdu::ReleaseRP); break", rq, loc=C.fn_loc(h))
        chk.expect(ab is not None and ab[0] == [] and ab[1], "scp-loop", mod, "AbortRQ", "break without sending", ab, loc=C.fn_loc(h))
    # the acceptor can only answer A-RELEASE-RQ (or abort) if the peer maximum it recorded lets a 10-byte PDU through
    from . import shared
    shared.max_pdu(chk, fx, "reply-sendable")
    shared.pdata_reader_other_pdus_fail(chk, fx, "abort-during-data-is-an-error")
    shared.pdata_reader_error_kinds(chk, fx, "abort-during-data-is-not-an-eof")
    chk.undecided.append("conformance of arbitrary interleavings of the two peers with the PS3.8 state machine (a model-checking question)")
