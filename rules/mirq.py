"""Query helpers over the MIR CFG facts dumped by dcmfacts (mir-opt-level=0, overflow checks off)."""
from collections import deque


def blocks(f):
    return f["blocks"]


def term(f, bb):
    return f["blocks"][bb]["t"]


def succs(f, bb, unwind=False):
    t = f["blocks"][bb]["t"]
    k = t["t"]
    out = []
    if k == "goto":
        out = [t["bb"]]
    elif k == "switch":
        out = [v[1] for v in t["vals"]] + [t["else"]]
    elif k in ("drop", "assert", "yield"):
        out = [t["bb"]]
        if k == "yield" and t.get("drop") is not None and unwind:
            out.append(t["drop"])
    elif k == "call":
        if t["bb"] is not None:
            out = [t["bb"]]
    if unwind and t.get("uw") is not None:
        out.append(t["uw"])
    # dedupe preserving order
    seen = []
    for x in out:
        if x not in seen:
            seen.append(x)
    return seen


def preds(f):
    p = {i: [] for i in range(len(f["blocks"]))}
    for i in range(len(f["blocks"])):
        for s in succs(f, i):
            p[s].append(i)
    return p


def reachable(f, start=0, avoid=(), unwind=False):
    seen = set()
    dq = deque([start])
    while dq:
        b = dq.popleft()
        if b in seen or b in avoid:
            continue
        seen.add(b)
        for s in succs(f, b, unwind):
            if s not in seen:
                dq.append(s)
    return seen


def dominators(f):
    """classic iterative dominator sets over normal (non-unwind) edges"""
    n = len(f["blocks"])
    reach = reachable(f, 0)
    P = preds(f)
    dom = {b: set(reach) for b in reach}
    dom[0] = {0}
    changed = True
    order = sorted(reach)
    while changed:
        changed = False
        for b in order:
            if b == 0:
                continue
            ps = [p for p in P[b] if p in reach]
            if not ps:
                continue
            new = set.intersection(*(dom[p] for p in ps)) | {b}
            if new != dom[b]:
                dom[b] = new
                changed = True
    return dom


def callee(t):
    """best resolved callee path of a call terminator"""
    fn = t.get("fn", {})
    return fn.get("res") or fn.get("path")


def callee_decl(t):
    return t.get("fn", {}).get("path")


def calls(f):
    """[(bb, terminator)] for all call terminators in non-cleanup blocks"""
    out = []
    for i, b in enumerate(f["blocks"]):
        if b.get("cleanup"):
            continue
        if b["t"]["t"] == "call":
            out.append((i, b["t"]))
    return out


def calls_to(f, pred):
    if isinstance(pred, str):
        s = pred
        pred = lambda p: p == s
    out = []
    for i, t in calls(f):
        c = callee(t)
        d = callee_decl(t)
        if (c and pred(c)) or (d and pred(d)):
            out.append((i, t))
    return out


def return_blocks(f):
    return [i for i, b in enumerate(f["blocks"]) if b["t"]["t"] == "ret" and not b.get("cleanup")]


def op_place(op):
    if op is None:
        return None
    return op.get("c") or op.get("m")


def op_local(op):
    p = op_place(op)
    if p is not None and not p.get("p"):
        return p["l"]
    return None


def op_const_int(op):
    if op is not None and "int" in op:
        return int(op["int"])
    return None


def assigns(f):
    """[(bb, idx, stmt)]"""
    for i, b in enumerate(f["blocks"]):
        for j, s in enumerate(b["s"]):
            yield i, j, s


def defs_of(f, local):
    """statements / call terminators that define `local` (whole-local definitions only)"""
    out = []
    for i, b in enumerate(f["blocks"]):
        for j, s in enumerate(b["s"]):
            d = s["d"]
            if d["l"] == local and not d.get("p"):
                out.append(("stmt", i, j, s))
        t = b["t"]
        if t["t"] == "call" and t["d"]["l"] == local and not t["d"].get("p"):
            out.append(("call", i, None, t))
    return out


def origin(f, op, depth=12):
    """Follow copies/moves/refs/casts backwards to a root description of an operand:
       ('const', text) | ('arg', n, projection-text) | ('call', callee, bb) | ('place', text) | ('expr', rvalue)"""
    for _ in range(depth):
        if op is None:
            return ("unknown",)
        if "k" in op:
            return ("const", op.get("int", op["k"]), op.get("ty"))
        p = op_place(op)
        if p is None:
            return ("unknown",)
        l = p["l"]
        proj = p.get("p") or []
        if 1 <= l <= f["argc"]:
            return ("arg", l, p["s"])
        ds = defs_of(f, l)
        if len(ds) != 1:
            return ("place", p["s"], len(ds))
        kind, bb, j, x = ds[0]
        if kind == "call":
            if proj and not all(q == "*" for q in proj):
                return ("callproj", callee(x), bb, p["s"])
            return ("call", callee(x), bb)
        r = x["r"]
        if r["rv"] == "use" and (not proj or all(q == "*" for q in proj)):
            op = r["o"]
            continue
        if r["rv"] == "ref" and (not proj or all(q == "*" for q in proj)):
            op = {"c": r["p"]}
            # a ref to a field place of an arg: report as arg projection
            if r["p"].get("p"):
                base = r["p"]["l"]
                if 1 <= base <= f["argc"]:
                    return ("arg", base, r["p"]["s"])
                # keep following the base local if it's itself a copy of a reference
                inner = origin(f, {"c": {"l": base, "s": f"_{base}"}}, depth - 1)
                if inner[0] == "arg":
                    return ("arg", inner[1], r["p"]["s"].replace(f"_{base}", inner[2], 1))
                return ("place", r["p"]["s"], inner)
            continue
        if r["rv"] == "cast" and not proj:
            op = r["o"]
            continue
        return ("expr", r, bb)
    return ("unknown",)


def local_name(f, l):
    return f["names"].get(f"_{l}")


def ret_classes(f):
    """Classify how `_0` (a Result) is set on the way to each return: returns dict bb -> 'ok'|'err'|'fwd:<callee>'
    for each block that assigns _0."""
    out = {}
    for i, b in enumerate(f["blocks"]):
        if b.get("cleanup"):
            continue
        for s in b["s"]:
            d = s["d"]
            if d["l"] == 0 and not d.get("p"):
                r = s["r"]
                if r["rv"] == "agg" and r.get("adt", "").endswith("result::Result"):
                    out[i] = "ok" if r["variant"] == "Ok" else "err"
                elif r["rv"] == "agg" and r.get("adt", "").endswith("option::Option"):
                    out[i] = "some" if r["variant"] == "Some" else "none"
                else:
                    out[i] = "val"
        t = b["t"]
        if t["t"] == "call" and t["d"]["l"] == 0 and not t["d"].get("p"):
            c = callee(t) or "?"
            if "FromResidual" in (callee_decl(t) or "") or c.endswith("::from_residual"):
                out[i] = "err"
            elif c.endswith("::fail") or c.endswith("::into_error") or c.endswith("::fail::<_>"):
                out[i] = "err"
            else:
                out[i] = "fwd:" + c
    return out


def escapes(f, start_bbs, goal_bbs, avoid_bbs):
    """Is there a path over normal edges from any successor of a block in start_bbs to a block in goal_bbs that does
    not pass through a block in avoid_bbs?  Returns the witness path (list of bbs) or None."""
    goal = set(goal_bbs)
    avoid = set(avoid_bbs)
    for s in start_bbs:
        prev = {}
        dq = deque()
        for n in succs(f, s):
            if n not in avoid and n not in prev:
                prev[n] = s
                dq.append(n)
        while dq:
            b = dq.popleft()
            if b in goal:
                path = [b]
                while path[-1] != s:
                    path.append(prev[path[-1]])
                return list(reversed(path))
            for n in succs(f, b):
                if n not in prev and n not in avoid and n != s:
                    prev[n] = b
                    dq.append(n)
    return None


def ok_exit_blocks(f):
    """blocks after which the function is committed to a non-error result: blocks that assign `_0 = Ok(..)`, a plain
    value, or forward a callee's result; for functions returning `()` the return blocks themselves"""
    rc = ret_classes(f)
    out = [b for b, c in rc.items() if c != "err" and c != "none"]
    if not out:
        out = return_blocks(f)
    return out


def field_writes(f, base_local, fields=None):
    """blocks where a field of `(*_base_local)` / `_base_local` is assigned or mutably borrowed (`&mut self.f` passed on)"""
    out = []
    for i, b in enumerate(f["blocks"]):
        if b.get("cleanup"):
            continue
        for s in b["s"]:
            d = s["d"]
            if d["l"] == base_local and d.get("p"):
                fs = [q["f"] for q in d["p"] if isinstance(q, dict) and "f" in q]
                if fs and (fields is None or fs[0] in fields):
                    out.append((i, "assign", fs[0], s["l"]))
            r = s["r"]
            if r["rv"] == "ref" and r.get("mut") and r["p"]["l"] == base_local and r["p"].get("p"):
                fs = [q["f"] for q in r["p"]["p"] if isinstance(q, dict) and "f" in q]
                if fs and (fields is None or fs[0] in fields):
                    out.append((i, "mut-borrow", fs[0], s["l"]))
    return out
