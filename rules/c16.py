"""C16 — every registered transfer syntax is described consistently.

CONST: the transfer-syntax constants are evaluated by rustc (const evaluation is part of compilation);
their printed values are parsed into rows and checked exhaustively. TAB: capability predicates are
evaluated symbolically over the 7 shapes of `Codec`. The registry array, the UID trimming in `get`
and the replacement table of `register` are checked on the resolved HIR.
"""
import re

from . import facts, hirq as H, common as C

LEVEL_TEXT = ("Exhaustive over the compiled tables: every TransferSyntax constant of the registry (compiler-evaluated), "
              "every Codec shape x every capability predicate, all 49 (old,new) pairs of the replacement table, in each "
              "analysed feature configuration. Decides table consistency; HashMap lookup itself is trusted std.")

TS = "dicom_encoding::transfer_syntax"
REG = "dicom_transfer_syntax_registry"

SHAPES = {
    "None": H.val("Codec::None"),
    "Dataset(None)": H.val("Codec::Dataset", H.val("Option::None")),
    "Dataset(Some)": H.val("Codec::Dataset", H.val("Option::Some", H.ANY)),
    "Epd(None,None)": H.val("Codec::EncapsulatedPixelData", H.val("Option::None"), H.val("Option::None")),
    "Epd(Some,None)": H.val("Codec::EncapsulatedPixelData", H.val("Option::Some", H.ANY), H.val("Option::None")),
    "Epd(None,Some)": H.val("Codec::EncapsulatedPixelData", H.val("Option::None"), H.val("Option::Some", H.ANY)),
    "Epd(Some,Some)": H.val("Codec::EncapsulatedPixelData", H.val("Option::Some", H.ANY), H.val("Option::Some", H.ANY)),
}
# capabilities as sets: what the shape can do (independent statement of intent, from the rustdoc of Codec)
CAN = {
    "None": {"dataset", "pixel_r", "pixel_w", "native"},
    "Dataset(None)": set(),
    "Dataset(Some)": {"dataset", "pixel_r", "pixel_w", "native"},
    "Epd(None,None)": {"dataset", "encapsulated"},
    "Epd(Some,None)": {"dataset", "encapsulated", "pixel_r"},
    "Epd(None,Some)": {"dataset", "encapsulated", "pixel_w"},
    "Epd(Some,Some)": {"dataset", "encapsulated", "pixel_r", "pixel_w"},
}
EXPECT = {
    "is_fully_supported": lambda c: {"dataset", "pixel_r", "pixel_w"} <= c,
    "is_codec_free": None,  # only Codec::None
    "is_unsupported": lambda c: "dataset" not in c,
    "is_encapsulated_pixel_data": lambda c: "encapsulated" in c,
    "is_unsupported_pixel_encapsulation": lambda c: "pixel_r" not in c and "pixel_w" not in c,
    "can_decode_all": lambda c: {"dataset", "pixel_r"} <= c,
    "can_decode_dataset": lambda c: "dataset" in c,
}


def parse_ts_const(val):
    v = re.sub(r"::<[^{}]*?>(?=::| \{)", "", val)
    m = re.search(r'uid: "((?:[^"\\]|\\.)*)", name: "((?:[^"\\]|\\.)*)", byte_order: \S*Endianness::(\w+), explicit_vr: (true|false), codec: (.*?) \}\}$', v)
    if not m:
        return None
    codec = m.group(5)
    cm = re.match(r"\S*?Codec::(\w+)(?:\((.*)\))?$", codec)
    shape = None
    if cm:
        name, inner = cm.group(1), cm.group(2)
        if name == "None":
            shape = "None"
        else:
            opts = re.findall(r"Option::(Some|None)", inner or "")
            if name == "Dataset" and len(opts) == 1:
                shape = f"Dataset({opts[0]})"
            elif name == "EncapsulatedPixelData" and len(opts) == 2:
                shape = f"Epd({opts[0]},{opts[1]})"
    uid = m.group(1).encode().decode("unicode_escape") if "\\" in m.group(1) else m.group(1)
    return {"uid": uid, "name": m.group(2), "byte_order": m.group(3), "explicit_vr": m.group(4) == "true", "shape": shape, "codec": codec[:160]}


def bool_fn_table(fx, path):
    """evaluate a `matches!(self.codec, ...)`-style predicate over the 7 Codec shapes"""
    h = fx.hirfn(path)
    ms = [m for m in H.walk(h["body"]) if H.kind(m) == "match"]
    if len(ms) != 1:
        raise facts.MissingAnchor(f"{path}: expected a single match, found {len(ms)}")
    m = ms[0]
    out = {}
    for name, v in SHAPES.items():
        idx = H.eval_match(m, v)
        body = H.match_arms(m)[idx][2]
        l = H.lit(body)
        if not l or l[0] != "bool":
            raise facts.MissingAnchor(f"{path}: arm body is not a bool literal")
        out[name] = l[1] == "true"
    return out, h


def run(chk, tier):
    configs = ["W"] if tier == "quick" else ["W", "R0", "R1"]
    ref = C.read_tsv("ts.tsv")
    implicit_uid = [r[1] for r in ref if r[0] == "implicit"][0]
    big_uid = [r[1] for r in ref if r[0] == "big"][0]
    dataset_uids = {r[1] for r in ref if r[0] == "dataset"}
    native_uids = {r[1] for r in ref if r[0] == "native"}
    chk.assume("rustc's const evaluator computes the value of each `pub const` transfer syntax (part of compilation)")
    chk.assume("refs/ts.tsv transcribes PS3.5 section 10 / Annex A (only 1.2.840.10008.1.2 implicit, only ...1.2.2 big endian, deflate family)")
    chk.assume("HashMap::get/entry (std) are correct; inventory-submitted transfer syntaxes of other crates are out of scope")

    fxw = facts.load("W")
    # ---------------- capability truth tables (config independent code in dicom-encoding)
    chk.rule("capabilities", "truth tables of the capability predicates over the 7 Codec shapes equal the documented meaning and "
             "satisfy fully => decode_all => decode_dataset; reader/writer accessors return Some exactly for the Some slots")
    tsty = f"{TS}::TransferSyntax::<D, R, W>"
    tables = {}
    for fn, exp in EXPECT.items():
        tab, h = bool_fn_table(fxw, f"{tsty}::{fn}")
        tables[fn] = tab
        for shape, got in tab.items():
            want = (shape == "None") if exp is None else exp(CAN[shape])
            chk.expect(got == want, "capabilities", fn, shape, want, got, loc=C.fn_loc(h))
    chk.sample({"rule": "capabilities", "tables": tables})
    for shape in SHAPES:
        a, b, c = tables["is_fully_supported"][shape], tables["can_decode_all"][shape], tables["can_decode_dataset"][shape]
        chk.expect((not a or b) and (not b or c), "capabilities", "implication-chain", shape, "fully => decode_all => decode_dataset", (a, b, c))
        chk.expect(tables["is_unsupported"][shape] == (not c), "capabilities", "unsupported-iff-not-decode_dataset", shape, not c, tables["is_unsupported"][shape])
    # pixel_data_reader / writer
    for fn, pos in (("pixel_data_reader", 0), ("pixel_data_writer", 1)):
        h = fxw.hirfn(f"{tsty}::{fn}")
        ms = [m for m in H.walk(h["body"]) if H.kind(m) == "match"]
        if len(ms) != 1:
            raise facts.MissingAnchor(f"{fn}: single match expected")
        for shape, v in SHAPES.items():
            idx = H.eval_match(ms[0], v)
            p, g, b, ln = H.match_arms(ms[0])[idx]
            b = H.peel(b)
            if H.kind(b) == "mcall" and b[3] == "as_ref":
                # which tuple-struct position is the receiver bound to?
                recv = H.path_of(b[4])
                alt = [a for a in H.pat_alts(p) if a[0] == "pts"]
                bound = None
                if alt:
                    for i, sp in enumerate(alt[0][3]):
                        if sp[0] == "pbind" and sp[1] == recv:
                            bound = i
                sub = v[2][bound] if bound is not None and v[1].endswith("EncapsulatedPixelData") else None
                got = "Some" if (sub is not None and sub[1] == "Option::Some") else "None"
                okpos = bound == pos
            else:
                got = "None" if (H.path_of(b) or "").endswith("Option::None") else "?"
                okpos = True
            want = "Some" if (shape.startswith("Epd") and v[2][pos][1] == "Option::Some") else "None"
            chk.expect(got == want and okpos, "capabilities", fn, shape, want, got, loc=C.fn_loc(h))
    # decoder_for / encoder_for over (byte_order, explicit_vr)
    chk.rule("ts-codec-dispatch", "decoder_for and encoder_for map (Little,false)->Implicit LE, (Little,true)->Explicit LE, (Big,true)->Explicit BE "
             "codec types (resolved), (Big,false)->None, and agree with each other")
    want_codec = {("Little", "false"): "ImplicitVRLittleEndian", ("Little", "true"): "ExplicitVRLittleEndian",
                  ("Big", "true"): "ExplicitVRBigEndian", ("Big", "false"): None}
    disp = {}
    for fn, suffix in (("decoder_for", "Decoder"), ("encoder_for", "Encoder")):
        h = fxw.hirfn(f"{tsty}::{fn}")
        ms = [m for m in H.walk(h["body"]) if H.kind(m) == "match" and m[3].startswith("(")]
        if len(ms) != 1:
            raise facts.MissingAnchor(f"{fn}: match over (byte_order, explicit_vr)")
        for (bo, ev), want in want_codec.items():
            v = ("tuple", [H.val("Endianness::" + bo), ("lit", ev)])
            idx = H.eval_match(ms[0], v)
            body = H.match_arms(ms[0])[idx][2]
            text = " ".join([c or "" for c, _ in H.calls(body)] + [C.expr_ty(x) or "" for x in H.walk(body) if H.kind(x) in ("call", "path", "struct")])
            kinds = sorted(set(re.findall(r"(ImplicitVRLittleEndian|ExplicitVRLittleEndian|ExplicitVRBigEndian)" + suffix, text)))
            is_none = (H.path_of(body) or "").endswith("Option::None")
            got = None if is_none else (kinds[0] if len(kinds) == 1 else kinds)
            disp[(fn, bo, ev)] = got
            chk.expect(got == want, "ts-codec-dispatch", fn, f"({bo},{ev})", want, got, loc=C.fn_loc(h))

    # ---------------- per configuration: the constants and the registry array
    chk.rule("ts-constants", "every `pub const` TransferSyntax in registry::entries: UID unique, well-formed, untrimmed-equal; only the "
             "Implicit VR LE UID has explicit_vr=false; only Explicit VR BE is big endian; deflate-family UIDs are Codec::Dataset and "
             "nothing else is; can_decode_dataset => decoder_for/encoder_for give Some")
    chk.rule("registry-array", "the built-in array of REGISTRY lists every entries constant exactly once (and nothing else), and each is registered")
    for cfg in configs:
        fx = facts.load(cfg)
        d = fx.crate(REG)
        rows = {}
        for c in d["consts"]:
            if not c["path"].startswith(f"{REG}::entries::") or "TransferSyntax<" not in c["ty"]:
                continue
            name = c["path"].split("::")[-1]
            if c["val"] is None:
                chk.bad("ts-constants", cfg, name, "const evaluates", "const evaluation failed")
                continue
            r = parse_ts_const(c["val"])
            if r is None or r["shape"] is None:
                chk.bad("ts-constants", cfg, name, "parsable TransferSyntax value", c["val"][:200])
                continue
            rows[name] = r
        chk.analysed[f"{cfg}.features"] = d["features"]
        chk.analysed[f"{cfg}.constants"] = len(rows)
        chk.floor("ts-constants", f"{cfg}: TransferSyntax constants", len(rows), 46)
        uids = {}
        for name, r in rows.items():
            uids.setdefault(r["uid"], []).append(name)
        for name, r in sorted(rows.items()):
            uid = r["uid"]
            chk.expect(len(uids[uid]) == 1, "ts-constants", cfg, f"{name}/uid-unique", "unique", uids[uid])
            chk.expect(re.fullmatch(r"[0-9]+(\.[0-9]+)*", uid) is not None and len(uid) <= 64, "ts-constants", cfg, f"{name}/uid-wellformed",
                       "digits and dots, <= 64 chars, no padding", repr(uid))
            chk.expect(r["explicit_vr"] == (uid != implicit_uid), "ts-constants", cfg, f"{name}/explicit_vr", uid != implicit_uid, r["explicit_vr"])
            chk.expect((r["byte_order"] == "Big") == (uid == big_uid), "ts-constants", cfg, f"{name}/byte_order",
                       "Big" if uid == big_uid else "Little", r["byte_order"])
            is_ds = r["shape"].startswith("Dataset")
            chk.expect(is_ds == (uid in dataset_uids), "ts-constants", cfg, f"{name}/dataset-codec", uid in dataset_uids, r["shape"])
            if uid in native_uids:
                chk.expect(r["shape"] == "None", "ts-constants", cfg, f"{name}/native-codec-free", "Codec::None", r["shape"])
            if tables["can_decode_dataset"][r["shape"]]:
                key = (r["byte_order"], "true" if r["explicit_vr"] else "false")
                chk.expect(disp[("decoder_for",) + key] is not None and disp[("encoder_for",) + key] is not None, "ts-constants", cfg,
                           f"{name}/has-dataset-codec", "Some decoder and encoder", (disp[("decoder_for",) + key], disp[("encoder_for",) + key]))
        for u in sorted(native_uids | dataset_uids):
            chk.expect(u in uids, "ts-constants", cfg, f"has-uid/{u}", "present", "missing" if u not in uids else "present")
        if cfg == "W":
            chk.sample({"rule": "ts-constants", "config": cfg, "rows": {k: rows[k] for k in sorted(rows)[:6]}})

        # registry array
        arrays = []
        for h in d["hir"]:
            for x in H.walk(h["body"]):
                if H.kind(x) == "array" and len(x[2]) >= 3 and all(
                        H.kind(H.peel(e)) == "mcall" and (H.callee(H.peel(e)) or "").endswith("::erased") for e in x[2]):
                    arrays.append((h, x))
        if len(arrays) != 1:
            raise facts.MissingAnchor(f"{cfg}: REGISTRY built-in array: found {len(arrays)} candidates")
        h, arr = arrays[0]
        members = [(H.path_of(H.peel(e)[4]) or "?") for e in arr[2]]
        names = [m.split("::")[-1] for m in members]
        chk.expect(all(m.startswith(f"{REG}::entries::") for m in members), "registry-array", cfg, "members-are-entries-constants", "all", [m for m in members if not m.startswith(f"{REG}::entries::")])
        chk.expect(len(names) == len(set(names)), "registry-array", cfg, "no-duplicates", "each once", sorted(n for n in set(names) if names.count(n) > 1))
        chk.expect(set(names) == set(rows), "registry-array", cfg, "covers-all-constants", "array == entries constants",
                   {"missing": sorted(set(rows) - set(names)), "extra": sorted(set(names) - set(rows))}, loc=f"{h['loc']['f']}:{arr[1]}")
        # each element is registered: a `for ts in built_in_ts { registry.register(ts) }`
        regs = [x for c, x in H.calls(h["body"]) if c and c.endswith("TransferSyntaxRegistryImpl::register")]
        chk.expect(len(regs) >= 1, "registry-array", cfg, "register-loop", "registry.register(ts) in the initialiser", len(regs))

    # ---------------- get(): trimming
    chk.rule("uid-trim", "TransferSyntaxRegistryImpl::get trims trailing whitespace and NUL before the map lookup; both TransferSyntaxIndex impls reach it")
    h = fxw.hirfn(f"{REG}::TransferSyntaxRegistryImpl::get")
    trims = [x for x in H.walk(h["body"]) if H.kind(x) == "mcall" and x[3] == "trim_end_matches"]
    ok = False
    detail = "no trim_end_matches"
    if len(trims) == 1:
        clo = H.peel(trims[0][5][0])
        txt = H.show(clo, 8)
        has_ws = any((c or "").endswith("is_whitespace") for c, _ in H.calls(clo))
        has_nul = any(H.kind(x) == "lit" and x[2][0] == "char" and x[2][1] == "\x00" for x in H.walk(clo))
        is_or = any(H.kind(x) == "bin" and x[2] == "Or" for x in H.walk(clo))
        ok = has_ws and has_nul and is_or
        detail = txt
    chk.expect(ok, "uid-trim", "TransferSyntaxRegistryImpl::get", "trim-predicate", "|c| c.is_whitespace() || c == '\\0'", detail, loc=C.fn_loc(h))
    # lookup uses the trimmed value
    gets = [x for x in H.walk(h["body"]) if H.kind(x) == "mcall" and re.search(r"HashMap::<[^>]*>::get$", x[2])]
    lets = [x for x in H.walk(h["body"]) if H.kind(x) == "slet" and x[3] is not None and trims and trims[0] in list(H.walk(x[3]))]
    trimmed_name = H.pat_bindings(lets[0][2])[0] if lets else None
    chk.expect(len(gets) == 1 and trimmed_name is not None and H.path_of(gets[0][5][0]) == trimmed_name, "uid-trim",
               "TransferSyntaxRegistryImpl::get", "lookup-uses-trimmed", "self.m.get(<trimmed>)", [H.show(g) for g in gets], loc=C.fn_loc(h))
    for imp in (f"<{REG}::TransferSyntaxRegistryImpl as {TS}::TransferSyntaxIndex>::get",
                f"<{REG}::TransferSyntaxRegistry as {TS}::TransferSyntaxIndex>::get"):
        hh = fxw.hirfn(imp)
        cs = [c for c, _ in H.calls(hh["body"]) if c]
        chk.expect(any(c.endswith("TransferSyntaxRegistryImpl::get") for c in cs), "uid-trim", imp, "forwards-to-trimming-get",
                   "calls TransferSyntaxRegistryImpl::get", cs, loc=C.fn_loc(hh))

    # ---------------- register(): replacement table is monotone
    chk.rule("register-monotone", "register() replaces an existing entry only by one of the same family that offers a superset of its codecs "
             "(all 7x7 (old,new) shape pairs evaluated against the match)")
    h = fxw.hirfn(f"{REG}::TransferSyntaxRegistryImpl::register")
    ms = [m for m in H.walk(h["body"]) if H.kind(m) == "match" and m[3].startswith("(") and "Codec" in m[3]]
    if len(ms) != 1:
        raise facts.MissingAnchor("register: match over (old codec, new codec)")

    def slots(shape):
        c = CAN[shape]
        fam = "native" if shape == "None" else ("dataset" if shape.startswith("Dataset") else "epd")
        return fam, {x for x in c if x in ("pixel_r", "pixel_w")} | ({"ds"} if shape == "Dataset(Some)" else set())

    n_true = 0
    for so, vo in SHAPES.items():
        for sn, vn in SHAPES.items():
            idx = H.eval_match(ms[0], ("tuple", [vo, vn]))
            body = H.match_arms(ms[0])[idx][2]
            # the arm value: literal bool, possibly after a tracing::warn! block
            tail = H.peel(body)
            if H.kind(tail) == "block" and tail[3] is not None:
                tail = H.peel(tail[3])
            l = H.lit(tail)
            if not l or l[0] != "bool":
                raise facts.MissingAnchor("register: arm value not a bool literal")
            replace = l[1] == "true"
            fo, co = slots(so)
            fn_, cn = slots(sn)
            allowed = fo == fn_ and co <= cn
            n_true += replace
            chk.expect((not replace) or allowed, "register-monotone", "register", f"{so}->{sn}", "replace only if same family and superset of codecs",
                       f"replace={replace}", loc=C.fn_loc(h))
    chk.expect(n_true >= 4, "register-monotone", "register", "some-upgrades-allowed", ">=4 upgrading pairs", n_true)
    # the replace flag gates the insert
    # every descriptor enters the registry through TransferSyntax::erased(): type erasure keeps each component of the codec -- each arm
    # rebuilds its own variant, binds every component (no `_` / `None` sub-pattern that would swallow one) and uses each binding
    chk.rule("erased-keeps-codec", "TransferSyntax::erased: `match self.codec` maps every Codec variant to the same variant; every component of the pattern is bound and "
             "used in the rebuilt value (a stub reader does not drop a writer, and the reverse); uid, name, byte_order, explicit_vr are copied")
    he = fxw.method("dicom_encoding", "dicom_encoding::transfer_syntax::TransferSyntax", "erased")
    CODEC = "dicom_encoding::transfer_syntax::Codec"
    mc = H.matches_over(he["body"], lambda t: t.startswith(CODEC))
    if len(mc) != 1:
        raise facts.MissingAnchor("TransferSyntax::erased: match over Codec")
    n_er = 0
    for p, g, b, ln in H.match_arms(mc[0]):
        sp = H.show_pat(p)
        var = sp.split("(")[0].split("{")[0].split("::")[-1]
        binds = H.pat_bindings(p)
        built = [(H.callee(x) or H.path_of(x) or "").split("::")[-1] for x in [H.peel(b)]]
        lazy_ok = all(sum(1 for y in H.walk(b) if H.kind(y) == "path" and y[2] == v) >= 1 for v in binds)
        arity = {"Dataset": 1, "EncapsulatedPixelData": 2, "None": 0}.get(var)
        n_er += 1
        chk.expect(arity is not None and len(binds) == arity and "_" not in re.findall(r"[\(,]\s*(_)\s*[\),]", sp) and ("(" not in sp or "None" not in sp.split("(", 1)[1]) and built == [var] and lazy_ok and g is None,
                   "erased-keeps-codec", "erased", var, f"{var}(<{arity} bound components>) => {var}(<each component boxed>)", {"pattern": sp, "builds": built, "bindings": binds}, loc=f"{he['loc']['f']}:{ln}")
    chk.floor("erased-keeps-codec", "Codec arms", n_er, 3)
    st = [y for y in H.walk(he["body"]) if H.kind(y) == "struct" and y[2].endswith("TransferSyntax")]
    inits = {f[0]: H.show(f[1], 3) for f in st[0][4]} if len(st) == 1 else {}
    want_i = {"uid": "self.uid", "name": "self.name", "byte_order": "self.byte_order", "explicit_vr": "self.explicit_vr", "codec": "codec"}
    chk.expect(inits == want_i, "erased-keeps-codec", "erased", "descriptor-fields", want_i, inits, loc=C.fn_loc(he))
    chk.undecided.append("inventory-submitted transfer syntaxes of downstream crates; HashMap behaviour; that each adapter type really decodes its format")
