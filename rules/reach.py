"""Whole-workspace call graph over the MIR facts (resolved callees), for reachability rules (C05).

Nodes are MIR bodies of the workspace library crates, keyed (crate, path). Edges:
  * a call whose callee was resolved by the compiler (`res`) or is an inherent/free fn (`path`) to the body of that def path;
  * an unresolved trait-method call (generic or dyn receiver) to *every* workspace impl of that trait method, and to the trait's default
    body (over-approximation: sound for reachability);
  * a function to each closure / coroutine body rooted in it;
  * a function item passed as a value (`fn` operands naming a workspace function) to that function.
Calls into third-party crates are leaves (trusted boundary, reported in evidence).
"""
import re
from collections import deque

LIBS = ("dicom_core", "dicom_encoding", "dicom_parser", "dicom_object", "dicom_json", "dicom_ul", "dicom_pixeldata",
        "dicom_transfer_syntax_registry", "dicom_dump", "dicom_dictionary_std")


class Graph:
    def __init__(self, fx, crates=LIBS):
        self.fx = fx
        self.fns = {}        # path -> fn (first crate wins; paths carry the crate name so they do not collide)
        self.by_trait = {}   # (trait path, method) -> [impl fn paths]
        self.closures = {}   # root path -> [closure paths]
        self.crates = []
        for c in crates:
            try:
                d = fx.crate(c, "lib")
            except Exception:
                continue
            self.crates.append(c)
            for f in d["fns"]:
                p = f["path"]
                self.fns.setdefault(p, f)
                if f.get("root") and f["root"] != p:
                    self.closures.setdefault(f["root"], []).append(p)
                m = re.match(r"<(.+) as ([\w:]+)(<.*>)?>::(\w+)$", p)
                if m:
                    self.by_trait.setdefault((m.group(2), m.group(4)), []).append(p)
        self._edges = {}

    def is_test(self, p):
        return "::tests::" in p or "::test::" in p or p.endswith("::tests") or "::test_util" in p

    def callees(self, p):
        if p in self._edges:
            return self._edges[p]
        f = self.fns.get(p)
        out = []
        ext = []
        if f is not None:
            for c in self.closures.get(p, ()):
                out.append((c, None, "closure"))
            for bi, b in enumerate(f["blocks"]):
                t = b["t"]
                if t["t"] != "call":
                    # function items used as values in statements
                    pass
                else:
                    fn = t.get("fn") or {}
                    tgt = fn.get("res") or fn.get("path")
                    if tgt is None:
                        ext.append(("<indirect>", t.get("l")))
                    elif fn.get("trait") and not fn.get("res"):
                        # unresolved trait method (generic or dyn receiver): the default body, if any, and every workspace impl
                        name = (fn.get("path") or "").split("::")[-1]
                        impls = self.by_trait.get((fn["trait"], name), [])
                        if tgt in self.fns:
                            out.append((tgt, t.get("l"), "call"))
                        for ip in impls:
                            out.append((ip, t.get("l"), "trait"))
                        if not impls and tgt not in self.fns:
                            ext.append((tgt, t.get("l")))
                    elif tgt in self.fns:
                        out.append((tgt, t.get("l"), "call"))
                    else:
                        ext.append((tgt, t.get("l")))
                    # fn items passed as arguments
                    for a in t.get("a", []) or []:
                        for v in _consts(a):
                            if v in self.fns:
                                out.append((v, t.get("l"), "fnptr"))
                for s in b["s"]:
                    r = s.get("r")
                    if isinstance(r, dict):
                        txt = None
                        # constants naming fn items: {"c": {"s": "path"}}
                        for v in _consts(r):
                            if v in self.fns:
                                out.append((v, s.get("l"), "fnptr"))
        self._edges[p] = (out, ext)
        return self._edges[p]

    def reach(self, entries):
        """BFS; returns {path: (parent, line, kind)}"""
        seen = {}
        dq = deque()
        for e in entries:
            if e in self.fns and e not in seen:
                seen[e] = (None, None, "entry")
                dq.append(e)
        while dq:
            p = dq.popleft()
            out, _ = self.callees(p)
            for (q, ln, k) in out:
                if q not in seen and not self.is_test(q):
                    seen[q] = (p, ln, k)
                    dq.append(q)
        return seen

    def chain(self, seen, p, limit=12):
        out = []
        while p is not None and len(out) < limit:
            out.append(p)
            p = seen[p][0]
        return list(reversed(out))


def _consts(r):
    """string constants appearing in an rvalue (candidate fn-item names)"""
    out = []

    def rec(x):
        if isinstance(x, dict):
            if "c" in x and isinstance(x["c"], dict):
                s = x["c"].get("s")
                if isinstance(s, str):
                    out.append(s)
            for key in ("k", "fn"):
                if isinstance(x.get(key), str):
                    out.append(x[key])
            for v in x.values():
                rec(v)
        elif isinstance(x, list):
            for v in x:
                rec(v)
    rec(r)
    return out
