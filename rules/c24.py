"""C24 — DICOM JSON output conforms to PS3.18 Annex F (mapping tables).

1. json-form: the serializer's VR -> value form table against refs/json_annex_f.tsv for all 34 VRs; "vr" is written
   first and unconditionally; empty primitive values get no Value member; sequences become arrays of objects.
2. json-key: tags are rendered with the compiler-lowered template of `{:04X}{:04X}` (compared with a reference
   expression compiled by the same compiler, fixtures/fmtref); object entries come from the object's BTreeMap
   iteration (ascending tags) through collect_map, keys are DicomJson<Tag>.
3. at-format: AT values go through AsTags, whose Tags arm renders each tag with the same 8-hex serializer
   (never through `Display for Tag`, which prints `(GGGG,EEEE)`).
4. number/binary forms: AsNumbers never emits strings for numeric variants except the three documented non-finite
   literals; InlineBinary is base64 STANDARD of to_bytes.
"""
import json
import re

from . import facts, hirq as H, common as C

LEVEL_TEXT = ("Exhaustive over the 34 VRs and the 16 PrimitiveValue variants of the number serializer; formatting templates are "
              "compared with compiler-lowered reference templates. Decides the mapping, not the JSON text of executed output.")

SER = "dicom_json::ser"
PV = "dicom_core::value::primitive::PrimitiveValue"
ELEM_SER = f"{SER}::<impl serde_core::ser::Serialize for dicom_json::DicomJson<&dicom_core::header::DataElement<dicom_object::mem::InMemDicomObject<D>>>>::serialize"
TAG_SER = f"{SER}::<impl serde_core::ser::Serialize for dicom_json::DicomJson<dicom_core::header::Tag>>::serialize"
OBJ_SER = f"{SER}::<impl serde_core::ser::Serialize for dicom_json::DicomJson<&'a dicom_object::mem::InMemDicomObject<D>>>::serialize"


def fmt_signature(body):
    s = json.dumps(body)
    return (re.findall(r'\["bstr", "(?:[^"\\]|\\.)*", "([0-9a-f]+)"\]', s), re.findall(r"Argument::<'_>::(new_\w+)", s))


def ser_forms(fx):
    """{VR: (form the element serializer writes, file:line of the arm)} -- shared with C23 (what is written is what must be read back)"""
    vrs = fx.variants(C.VR_ENUM)
    h = fx.hirfn(ELEM_SER)
    ms = H.matches_over(h["body"], lambda t: t == C.VR_ENUM)
    if len(ms) != 1:
        raise facts.MissingAnchor("element serializer: match over VR")
    tab, arms = H.enum_table(ms[0], vrs, C.VR_ENUM)
    form_of_wrapper = {"AsStrings": "string", "AsPersonNames": "pn", "AsNumbers": "number", "AsTags": "tag", "InlineBinary": "binary"}
    out = {}
    for v in vrs:
        if v == "SQ":
            continue
        b = arms[tab[v][0]][2] if tab[v] else None
        entries = [x for x in H.walk(b) if H.kind(x) == "mcall" and x[3] == "serialize_entry"] if b is not None else []
        form = "?"
        if len(entries) == 1:
            key = H.lit(entries[0][5][0])
            wrapper = [c.split("::")[-3] for c, _ in H.calls(entries[0][5][1]) if c and c.startswith(f"<{SER}::value::") and c.endswith("From<&'a dicom_core::value::primitive::PrimitiveValue>>::from")]
            if not wrapper:
                wrapper = re.findall(r"value::(As\w+|InlineBinary)", json.dumps(entries[0][5][1]))
            w = wrapper[0].split("<")[0] if wrapper else "?"
            form = form_of_wrapper.get(w, "?" + w)
            want_key = "InlineBinary" if form == "binary" else "Value"
            if not key or key[1] != want_key:
                form += f"(key={key})"
        out[v] = (form, f"{h['loc']['f']}:{arms[tab[v][0]][3] if tab[v] else 0}")
    return out


def run(chk, tier):
    fx = facts.load("W")
    chk.analysed["facts"] = fx.meta
    ref = {r[0]: r[1] for r in C.read_tsv("json_annex_f.tsv")}
    vrs = fx.variants(C.VR_ENUM)
    chk.assume("refs/json_annex_f.tsv transcribes PS3.18 Table F.2.3-1")
    chk.assume("serde_json renders Rust integers/floats as JSON numbers and &str as JSON strings; base64 STANDARD is RFC 4648 base64")
    chk.expect(sorted(ref) == sorted(vrs), "json-form", "refs", "vr-set", sorted(vrs), sorted(ref))

    # ---------- rule 1
    chk.rule("json-form", "serializer VR -> form table equals Annex F; vr member first; empty -> no Value; SQ -> array of objects")
    h = fx.hirfn(ELEM_SER)
    ms = H.matches_over(h["body"], lambda t: t == C.VR_ENUM)
    if len(ms) != 1:
        raise facts.MissingAnchor("element serializer: match over VR")
    tab, arms = H.enum_table(ms[0], vrs, C.VR_ENUM)
    form_of_wrapper = {"AsStrings": "string", "AsPersonNames": "pn", "AsNumbers": "number", "AsTags": "tag", "InlineBinary": "binary"}
    got_forms = {}
    for v in vrs:
        if v == "SQ":
            continue
        b = arms[tab[v][0]][2] if tab[v] else None
        entries = [x for x in H.walk(b) if H.kind(x) == "mcall" and x[3] == "serialize_entry"] if b is not None else []
        form = "?"
        if len(entries) == 1:
            key = H.lit(entries[0][5][0])
            wrapper = [c.split("::")[-3] for c, _ in H.calls(entries[0][5][1]) if c and c.startswith(f"<{SER}::value::") and c.endswith("From<&'a dicom_core::value::primitive::PrimitiveValue>>::from")]
            if not wrapper:
                wrapper = re.findall(r"value::(As\w+|InlineBinary)", json.dumps(entries[0][5][1]))
            w = wrapper[0].split("<")[0] if wrapper else "?"
            form = form_of_wrapper.get(w, "?" + w)
            want_key = "InlineBinary" if form == "binary" else "Value"
            if not key or key[1] != want_key:
                form += f"(key={key})"
        got_forms[v] = form
        chk.expect(form == ref[v], "json-form", "element-serializer", v, ref[v], form, loc=f"{h['loc']['f']}:{arms[tab[v][0]][3] if tab[v] else 0}")
    chk.sample({"rule": "json-form", "table": got_forms})
    # outer match over the value kind: Sequence -> Value: DicomJson(items) ; Empty -> nothing
    vm = [m for m in H.walk(h["body"]) if H.kind(m) == "match" and "Value<" in m[3]]
    if len(vm) != 1:
        raise facts.MissingAnchor("element serializer: match over value kind")
    seen = {}
    for p, g, b, ln in H.match_arms(vm[0]):
        txt = H.show_pat(p)
        entries = [x for x in H.walk(b) if H.kind(x) == "mcall" and x[3] == "serialize_entry" and not H.matches_over(b, lambda t: t == C.VR_ENUM)]
        seen[txt] = entries
    seq = [k for k in seen if k.startswith("Sequence")]
    emp = [k for k in seen if "Empty" in k]
    ok_seq = len(seq) == 1 and len(seen[seq[0]]) == 1 and H.lit(seen[seq[0]][0][5][0])[1] == "Value" and "items" in H.show(seen[seq[0]][0][5][1], 6)
    chk.expect(ok_seq, "json-form", "element-serializer", "SQ", "Value: array of item objects", [H.show(e, 6) for k in seq for e in seen[k]], loc=C.fn_loc(h))
    # the items are written whenever there are items: the entry is unconditional, or its condition looks at the item list itself
    # (the recorded byte length of a sequence, HasLength::is_empty / length(), says nothing about the items it holds)
    for p, g, b, ln in H.match_arms(vm[0]):
        if not H.show_pat(p).startswith("Sequence"):
            continue
        for n, anc in H.walk_anc(b):
            if H.kind(n) == "mcall" and n[3] == "serialize_entry":
                conds = [H.show(a[2], 6) for a in anc if H.is_node(a) and H.kind(a) == "if"] + ([H.show(g, 6)] if g is not None else [])
                bad_c = [c for c in conds if "items()" not in c and "multiplicity()" not in c]
                chk.expect(not bad_c, "json-form", "element-serializer", "SQ-items-always-written", "unconditional, or conditional on the item list", bad_c or conds, loc=f"{h['loc']['f']}:{n[1]}")
    ls = [c for c, x in H.calls(h["body"]) if c and re.search(r"header::HasLength::(is_empty|length)$", c)]
    chk.expect(not ls, "json-form", "element-serializer", "no-decision-on-recorded-length", "no HasLength::is_empty / length in the element serializer", ls)
    chk.expect(len(emp) == 1 and not seen[emp[0]], "json-form", "element-serializer", "empty-value", "no Value member", [H.show(e) for k in emp for e in seen[k]])
    # vr member first and unconditional: the first serialize_entry in the body, not inside any match/if
    first = None
    for n, anc in H.walk_anc(h["body"]):
        if H.kind(n) == "mcall" and n[3] == "serialize_entry":
            first = (n, anc)
            break
    ok = first is not None and H.lit(first[0][5][0])[1] == "vr" and not any(H.is_node(a) and H.kind(a) in ("if",) or (isinstance(a, tuple) and a and a[0] == "arm" and not a[1][5].startswith("TryDesugar")) for a in first[1])
    chk.expect(ok, "json-form", "element-serializer", "vr-first", 'serialize_entry("vr", ..) first and unconditional', H.show(first[0], 5) if first else None)

    # ---------- rule 2
    chk.rule("json-key", "tag keys are formatted with the template of `{:04X}{:04X}` (reference compiled by the same compiler); object entries "
             "are produced by iterating the object (BTreeMap order) through collect_map with DicomJson<Tag> keys")
    refs = facts.fixture("fmtref")
    want = fmt_signature(refs["fmtref::tag_key_8hex"]["body"])
    paren = fmt_signature(refs["fmtref::tag_paren"]["body"])
    ht = fx.hirfn(TAG_SER)
    got = fmt_signature(ht["body"])
    chk.expect(got == want and got != paren, "json-key", "Serialize for DicomJson<Tag>", "template", {"template": want[0], "args": want[1]},
               {"template": got[0], "args": got[1]}, loc=C.fn_loc(ht))
    order = [x[2] for x in H.walk(ht["body"]) if H.kind(x) == "path" and x[3] == "local" and x[2] in ("g", "e")]
    pat = [x for x in H.walk(ht["body"]) if H.kind(x) == "slet" and x[2][0] == "pts" and x[2][1].endswith("header::Tag")]
    names = H.pat_bindings(pat[0][2]) if pat else []
    chk.expect(names == ["g", "e"] and order[:2] == ["g", "e"], "json-key", "Serialize for DicomJson<Tag>", "group-then-element", ["g", "e"],
               {"bound": names, "used": order[:4]})
    ho = fx.hirfn(OBJ_SER)
    cm = [x for x in H.walk(ho["body"]) if H.kind(x) == "mcall" and x[3] == "collect_map"]
    ok = False
    if len(cm) == 1:
        src = H.peel(cm[0][5][0])
        chain = H.show(src, 8)
        tup = [x for x in H.walk(src) if H.kind(x) == "tuple" and len(x[2]) == 2]
        ok = "into_iter()" in chain and ".map(" in chain and not re.search(r"\.(rev|filter|sort\w*|skip|take)\(", chain) and len(tup) == 1 \
            and "DicomJson" in H.show(tup[0][2][0], 3) and "tag" in H.show(tup[0][2][0], 3)
    chk.expect(ok, "json-key", "Serialize for DicomJson<&InMemDicomObject>", "ordered-entries", "collect_map(self.0.into_iter().map(|e| (DicomJson(tag), DicomJson(e))))",
               H.show(cm[0], 8) if cm else None, loc=C.fn_loc(ho))
    adt = fx.adt("dicom_object::mem::InMemDicomObject")
    ent = [fl for v in adt["variants"] for fl in v["fields"] if fl["name"] == "entries"]
    chk.expect(len(ent) == 1 and ent[0]["ty"].startswith("alloc::collections::btree::map::BTreeMap<dicom_core::header::Tag,"), "json-key", "InMemDicomObject",
               "entries-is-BTreeMap<Tag,_>", "BTreeMap<Tag, _> (ascending iteration)", [e["ty"][:80] for e in ent])
    hi = fx.hirfn("<&'a dicom_object::mem::InMemDicomObject<D> as core::iter::traits::collect::IntoIterator>::into_iter")
    chk.expect("self.entries.values()" in H.show(hi["body"], 5), "json-key", "IntoIterator for &InMemDicomObject", "values-in-key-order", "self.entries.values()", H.show(hi["body"], 5))

    # ---------- rule 3
    chk.rule("at-format", "AT values: AsTags renders PrimitiveValue::Tags through DicomJson<Tag> (8 hex digits)")
    hat = fx.hirfn(f"<{SER}::value::AsTags<'_> as serde_core::ser::Serialize>::serialize")
    ms = H.matches_over(hat["body"], lambda t: t == PV)
    if len(ms) != 1:
        raise facts.MissingAnchor("AsTags::serialize: match over PrimitiveValue")
    tags_arm = [b for p, g, b, ln in H.match_arms(ms[0]) if any(H.pat_head(a) == ("variant", f"{PV}::Tags") for a in H.pat_alts(p))]
    ok = len(tags_arm) == 1 and any((C.expr_ty(x) or "") == "dicom_json::DicomJson<dicom_core::header::Tag>" for c, x in H.calls(tags_arm[0])) \
        and not any((c or "").endswith("to_multi_str") or (c or "").endswith("ToString::to_string") for c, _ in H.calls(tags_arm[0]))
    chk.expect(ok, "at-format", "AsTags::serialize", "Tags-arm", "collect_seq(tags.map(DicomJson::from))", H.show(tags_arm[0], 6) if tags_arm else None, loc=C.fn_loc(hat))

    # ---------- rule 4
    chk.rule("number-binary-forms", "AsNumbers: numeric variants are serialised as numbers (64-bit integers that do not fit fall back to strings, as documented); "
             "non-finite floats use exactly NAN/INFINITY/NEG_INFINITY = \"NaN\"/\"inf\"/\"-inf\"; InlineBinary = base64 STANDARD(to_bytes)")
    hn = fx.hirfn(f"<{SER}::value::AsNumbers<'_> as serde_core::ser::Serialize>::serialize")
    ms = H.matches_over(hn["body"], lambda t: t == PV)
    if len(ms) != 1:
        raise facts.MissingAnchor("AsNumbers::serialize: match over PrimitiveValue")
    pvars = fx.variants(PV)
    tab, arms = H.enum_table(ms[0], pvars, PV)
    for v in ("U8", "I16", "U16", "I32", "U32"):
        b = H.peel(arms[tab[v][0]][2])
        ok = H.kind(b) == "mcall" and b[3] == "collect_seq" and H.path_of(b[5][0]) == "numbers"
        chk.expect(ok, "number-binary-forms", "AsNumbers", v, "collect_seq(numbers)", H.show(b, 4), loc=C.fn_loc(hn))
    # non-finite floats: an if-chain (in the arm itself or in a helper of the same module that the arm calls) that decides
    # finite -> number first, NaN before any sign test, and emits the infinities only for values known to be infinite
    dj = fx.crate("dicom_json")
    value_fns = {hh["path"]: hh for hh in dj["hir"] if hh["path"].startswith(f"{SER}::value::") or hh["path"].startswith(f"<{SER}::value::")}

    def emitted_const(n):
        out = []
        for x in H.walk(n):
            if H.kind(x) == "mcall" and x[3] in ("serialize_element", "serialize_str", "serialize_some") and x[5]:
                p = H.path_of(x[5][0]) or ""
                if p.startswith("dicom_json::") and p.split("::")[-1] in ("NAN", "INFINITY", "NEG_INFINITY"):
                    out.append(p.split("::")[-1])
        return out

    def float_chains(n):
        """[(ordered [(condition text, constants emitted in that branch)])] for if-chains that emit the non-finite literals"""
        chains = []
        seen = set()
        for x in H.walk(n):
            if H.kind(x) != "if" or id(x) in seen:
                continue
            chain = []
            cur = x
            while H.kind(cur) == "if":
                seen.add(id(cur))
                then_consts = [c for c in emitted_const(cur[3])]
                # constants of nested ifs belong to the nested chain only when the nested if is in the else position
                chain.append((H.show(cur[2], 6), then_consts))
                nxt = H.peel(cur[4]) if cur[4] is not None else None
                if nxt is not None and H.kind(nxt) == "block" and not nxt[2] and nxt[3] is not None:
                    nxt = H.peel(nxt[3])
                cur = nxt
            if any(c for _, c in chain):
                chains.append(chain)
        return chains

    def chain_ok(chain):
        first_finite = "is_finite()" in chain[0][0] and not chain[0][1]
        nan_seen = False
        for cond, consts in chain:
            if "NAN" in consts:
                if "is_nan()" not in cond:
                    return False
                nan_seen = True
            for k in ("INFINITY", "NEG_INFINITY"):
                if k in consts and not (nan_seen or "is_infinite()" in cond):
                    return False
            if "NEG_INFINITY" in consts and "is_sign_negative()" not in cond and "Lt 0" not in cond:
                return False
            if "INFINITY" in consts and "is_sign_positive()" not in cond and "Gt 0" not in cond:
                return False
        emitted = sorted({c for _, cs in chain for c in cs})
        return first_finite and emitted == ["INFINITY", "NAN", "NEG_INFINITY"]

    for v in ("F32", "F64"):
        b = arms[tab[v][0]][2]
        scope = [b] + [value_fns[c]["body"] for c, _ in H.calls(b) if c in value_fns]
        chains = [ch for s_ in scope for ch in float_chains(s_)]
        chk.expect(len(chains) >= 1 and all(chain_ok(ch) for ch in chains), "number-binary-forms", "AsNumbers", v,
                   "finite -> number; then is_nan -> NAN; then infinite&&positive -> INFINITY, infinite&&negative -> NEG_INFINITY",
                   [[(c[:60], k) for c, k in ch] for ch in chains], loc=C.fn_loc(hn))
    for name, want_val in (("NAN", "NaN"), ("INFINITY", "inf"), ("NEG_INFINITY", "-inf")):
        c = fx.const(f"dicom_json::{name}")
        chk.expect(c["val"] == f'"{want_val}"', "number-binary-forms", f"dicom_json::{name}", "literal", f'"{want_val}"', c["val"])
    hb = fx.hirfn(f"<{SER}::value::InlineBinary<'_> as serde_core::ser::Serialize>::serialize")
    txt = json.dumps(hb["body"])
    ok = "general_purpose::STANDARD" in txt and "to_bytes" in txt and "serialize_str" in txt and "URL_SAFE" not in txt and "NO_PAD" not in txt
    chk.expect(ok, "number-binary-forms", "InlineBinary", "base64-standard", "STANDARD.encode(self.0.to_bytes()) as a string", ok, loc=C.fn_loc(hb))
    # a file object's JSON lists the file meta group in the order into_element_iter yields it
    from . import shared
    shared.meta_order_ascending(chk, fx, "meta-keys-ascending")
    shared.text_values_as_stored(chk, fx, "text-values-as-stored")
    chk.undecided.append("the JSON text of executed output; byte order of to_bytes on big-endian hosts; serde_json's number rendering")
