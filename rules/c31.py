"""C31 — command sets carry a correct Command Group Length (term structure).

command_from_iter_with_dict: counts exactly the elements with group 0000 and element != 0000; *per element* adds
even(value length) + 8; the 8 is the byte count of the Implicit VR LE element header (cross-crate constant agreement
with the encoder, C03); the sum is stored as UL at (0000,0000); the value length comes from Value::length, whose
per-variant widths are tied to the encoder by C04's unit-width rule.
"""
from . import facts, hirq as H, common as C

LEVEL_TEXT = ("The single accumulation site is decomposed into its terms and each term is compared with the encoder's constants. "
              "Decides the term structure of the group length; the byte count of executed output is not measured.")

IM = "dicom_object::mem::InMemDicomObject"


def run(chk, tier):
    fx = facts.load("W")
    chk.analysed["facts"] = fx.meta
    chk.assume("command sets are written in Implicit VR Little Endian (PS3.7 6.3.1); value byte lengths per variant are C04's unit-width rule")
    chk.rule("group-length-terms", "filter: group == 0 && element != 0; per element: even(len) + 8 (8 = implicit VR LE header); stored as UL (0000,0000)")
    h = fx.method("dicom_object", IM, "command_from_iter_with_dict")
    body = h["body"]
    inits = [x for x in H.walk(body) if H.kind(x) == "slet" and H.pat_bindings(x[2]) == ["calculated_length"]]
    chk.expect(len(inits) == 1 and H.int_lit(inits[0][3]) == 0, "group-length-terms", "command_from_iter_with_dict", "accumulator-starts-at-0", 0,
               H.show(inits[0][3], 3) if inits else None, loc=C.fn_loc(h))
    accs = []
    for n, anc in H.walk_anc(body):
        if H.kind(n) in ("assignop", "assign") and H.path_of(n[3] if H.kind(n) == "assignop" else n[2]) == "calculated_length":
            accs.append((n, anc))
    chk.expect(len(accs) == 1 and H.kind(accs[0][0]) == "assignop" and accs[0][0][2].startswith("Add"), "group-length-terms", "command_from_iter_with_dict",
               "single-accumulation", "one `calculated_length += ..`", [H.show(a[0], 6) for a in accs], loc=C.fn_loc(h))
    if not accs:
        return
    n, anc = accs[0]
    # the guard
    conds = [a[2] for a in anc if H.is_node(a) and H.kind(a) == "if" and n in list(H.walk(a[3]))]
    ok = False
    txt = " && ".join(H.show(c, 7) for c in conds)
    if len(conds) == 1:
        c = H.peel(conds[0])
        if H.kind(c) == "bin" and c[2] == "And":
            l, r = H.peel(c[3]), H.peel(c[4])
            ok = (H.kind(l) == "bin" and l[2] == "Eq" and H.show(l[3], 5).endswith("tag().0") and H.int_lit(l[4]) == 0 and
                  H.kind(r) == "bin" and r[2] == "Ne" and H.show(r[3], 5).endswith("tag().1") and H.int_lit(r[4]) == 0)
    chk.expect(ok, "group-length-terms", "command_from_iter_with_dict", "counted-elements", "e.tag().0 == 0x0000 && e.tag().1 != 0x0000", txt, loc=C.fn_loc(h))
    # the term
    rhs = H.peel(n[4])
    term_ok = False
    detail = H.show(rhs, 8)
    if H.kind(rhs) == "bin" and rhs[2] == "Add":
        a, b = H.peel(rhs[3]), H.peel(rhs[4])
        if H.int_lit(a) is not None:
            a, b = b, a
        k = H.int_lit(b)
        if H.kind(a) == "if" and k is not None:
            cond = H.show(a[2], 4)
            then_calls = [c for c, _ in H.calls(a[3]) if c]
            even_arg = [H.show(x[3][0], 3) for c, x in H.calls(a[3]) if c == "dicom_object::mem::even_len"]
            term_ok = cond == "l.is_defined()" and then_calls == ["dicom_object::mem::even_len"] and even_arg == ["l.0"] and H.int_lit(a[4]) == 0
            chk.expect(k == 8, "group-length-terms", "command_from_iter_with_dict", "header-bytes-per-element", 8, k)
    chk.expect(term_ok, "group-length-terms", "command_from_iter_with_dict", "per-element-term", "(if l.is_defined() { even_len(l.0) } else { 0 }) + 8, for each element", detail, loc=C.fn_loc(h))
    # l = e.value().length()
    ll = [x for x in H.walk(body) if H.kind(x) == "slet" and H.pat_bindings(x[2]) == ["l"]]
    chk.expect(len(ll) == 1 and H.show(ll[0][3], 5) == "e.value().length()", "group-length-terms", "command_from_iter_with_dict", "value-length-source", "e.value().length()",
               H.show(ll[0][3], 5) if ll else None)
    # even_len is not applied anywhere else (e.g. once to the total)
    ev = [x[1] for c, x in H.calls(body) if c == "dicom_object::mem::even_len"]
    chk.expect(len(ev) == 1, "group-length-terms", "command_from_iter_with_dict", "even-per-element-only", "one even_len call, inside the per-element term", ev)
    # 8 == implicit VR LE header size as reported by the encoder
    he = fx.hirfn("<dicom_encoding::encode::implicit_le::ImplicitVRLittleEndianEncoder as dicom_encoding::encode::Encode>::encode_element_header")
    oks = [v for k_, v in C.ok_literals(he["body"]) if k_ == "ok"]
    chk.expect(oks == [8], "group-length-terms", "ImplicitVRLittleEndianEncoder::encode_element_header", "reported-header-size", [8], oks, loc=C.fn_loc(he))
    # stored as UL (0000,0000)
    ins = [x for x in H.walk(body) if H.kind(x) == "mcall" and x[3] == "insert" and "entries" in H.show(x[4], 2)]
    ok = False
    if len(ins) == 1:
        t = H.show(ins[0][5][0], 4)
        e = H.show(ins[0][5][1], 7)
        ok = t.endswith("Tag(0, 0)") and "Tag(0, 0)" in e and "VR::UL" in e and "calculated_length" in e and ins[0][1] > n[1]
    chk.expect(ok, "group-length-terms", "command_from_iter_with_dict", "stored-as-UL-0000-0000", "entries.insert(Tag(0,0), new(Tag(0,0), VR::UL, calculated_length)) after the count",
               [H.show(x, 7)[:200] for x in ins], loc=C.fn_loc(h))
    # the wrappers forward to this function
    for fn in ("command_from_element_iter",):
        try:
            hh = fx.method("dicom_object", IM, fn)
        except facts.MissingAnchor:
            continue
        cs = [c.split("::")[-1] for c, _ in H.calls(hh["body"]) if c and "InMemDicomObject" in c]
        chk.expect("command_from_iter_with_dict" in cs, "group-length-terms", fn, "forwards", "command_from_iter_with_dict", cs)
    # the sum is taken over the in-memory text lengths: it is the written length only if the writer encodes each text as it is
    from . import shared
    shared.writer_text_identity(chk, fx, "writer-text-identity")
    # each term of the sum is Value::length(), i.e. PrimitiveValue::calculate_byte_len: its per-variant formulas (C04 unit-width) are
    # part of this property
    from . import c04, report
    sub = report.Check("C04", tier)
    c04.run(sub, tier)
    chk.rule("value-length-formulas", "PrimitiveValue::calculate_byte_len per variant: unit width x count for binary values, stored length (+ separators, even) for text (instances of C04 unit-width)")
    n_bl = 0
    for inst in sub.instances:
        if inst["rule"] == "unit-width" and str(inst["instance"]) in ("byte_len", "multipliers"):
            n_bl += 1
            if inst["status"] == "ok":
                chk.ok("value-length-formulas", inst["fn"], inst["instance"], inst.get("detail"))
            else:
                chk.bad("value-length-formulas", inst["fn"], inst["instance"], inst.get("expected"), inst.get("found"), loc=inst.get("loc"))
    chk.floor("value-length-formulas", "variants", n_bl, 14)
    chk.undecided.append("byte count of the executed Implicit VR LE encoding; duplicate tags in the input iterator (the map keeps one, the count sees both)")
