"""Query helpers over the resolved HIR expression trees dumped by dcmfacts.

Expression node: [kind, line, ...rest] (+ optional trailing {"m": macro-chain} when from an expansion)
Pattern node:    [kind, ...]   (no line)
Statement node:  ["slet"|"semi"|"sexpr", line, ...]
"""

EXPR_KINDS = {
    "constblock", "array", "call", "mcall", "tuple", "bin", "un", "lit", "cast", "let", "if", "loop", "match",
    "closure", "block", "assign", "assignop", "field", "index", "path", "ref", "break", "continue", "ret",
    "become", "asm", "offsetof", "struct", "repeat", "yield", "err", "slet", "semi", "sexpr",
}


CONST_RESOLVER = None  # set by facts.load: def path of a constant -> its integer value (None when unknown / not an integer)


def is_node(x):
    return isinstance(x, list) and len(x) >= 2 and isinstance(x[0], str) and x[0] in EXPR_KINDS and isinstance(x[1], int)


def kind(n):
    return n[0] if is_node(n) else None


def line(n):
    return n[1]


def mac(n):
    """macro chain annotation of a node, '' if none"""
    if is_node(n) and isinstance(n[-1], dict) and "m" in n[-1]:
        return n[-1]["m"]
    return ""


def children(n):
    """direct child expression nodes (descends through plain lists and match arms)"""
    out = []

    def rec(x):
        if is_node(x):
            out.append(x)
        elif isinstance(x, list):
            for y in x:
                rec(y)

    if is_node(n):
        for x in n[2:]:
            rec(x)
    return out


def walk(n):
    """pre-order traversal over all expression/statement nodes, including closure bodies"""
    stack = [n]
    while stack:
        x = stack.pop()
        if is_node(x):
            yield x
            ch = children(x)
            stack.extend(reversed(ch))
        elif isinstance(x, list):
            stack.extend(reversed(x))


def find(n, pred):
    return [x for x in walk(n) if pred(x)]


def peel(n):
    """strip wrappers that do not change the value: blocks without statements, refs, casts kept"""
    while is_node(n):
        if n[0] == "block" and not n[2] and n[3] is not None:
            n = n[3]
        elif n[0] == "ref":
            n = n[3]
        elif n[0] == "un" and n[2] == "Deref":
            n = n[3]
        else:
            break
    return n


# ---- calls

def callee(n):
    """resolved def path of a call / method call node, None otherwise"""
    if not is_node(n):
        return None
    if n[0] == "mcall":
        return n[2]
    if n[0] == "call":
        f = n[2]
        if is_node(f) and f[0] == "path":
            return f[2]
        return None
    return None


def call_args(n):
    """arguments including receiver for method calls"""
    if n[0] == "mcall":
        return [n[4]] + list(n[5])
    if n[0] == "call":
        return list(n[3])
    return []


def calls(n):
    return [(callee(x), x) for x in walk(n) if x[0] in ("call", "mcall")]


def calls_to(n, name_pred):
    if isinstance(name_pred, str):
        s = name_pred
        name_pred = lambda p: p == s
    return [x for c, x in calls(n) if c is not None and name_pred(c)]


def path_of(n):
    n = peel(n)
    if is_node(n) and n[0] == "path":
        return n[2]
    return None


def lit(n):
    """(kind, value) of a literal node, looking through casts/unary neg; None otherwise"""
    n = peel(n)
    if is_node(n) and n[0] == "lit":
        return tuple(n[2])
    if is_node(n) and n[0] == "path" and CONST_RESOLVER is not None and len(n) > 3 and isinstance(n[3], str) and "Const" in n[3]:
        # a named integer constant of the analysed tree stands for its value (`HEADER_SIZE_LONG` is 12): replacing a literal by a
        # constant, or the reverse, is not a change of behaviour
        v = CONST_RESOLVER(n[2])
        if v is not None:
            return ("int", str(v))
    if is_node(n) and n[0] == "cast":
        return lit(n[2])
    if is_node(n) and n[0] == "un" and n[2] == "Neg":
        v = lit(n[3])
        if v and v[0] in ("int", "float"):
            return (v[0], "-" + v[1])
    return None


def int_lit(n):
    """integer value of a literal, of a named integer constant, or of constant arithmetic over those (`PREAMBLE + 4`, `4 + 1 + 1`)"""
    v = lit(n)
    if v and v[0] == "int":
        try:
            return int(v[1])
        except ValueError:
            return None
    m = peel(n)
    if is_node(m) and m[0] == "cast":
        return int_lit(m[2])
    if is_node(m) and m[0] == "bin" and m[2] in ("Add", "Sub", "Mul", "Shl", "Shr", "BitAnd", "BitOr"):
        a, b = int_lit(m[3]), int_lit(m[4])
        if a is None or b is None:
            return None
        return {"Add": a + b, "Sub": a - b, "Mul": a * b, "Shl": a << b if 0 <= b < 64 else None, "Shr": a >> b if 0 <= b < 64 else None,
                "BitAnd": a & b, "BitOr": a | b}[m[2]]
    return None


# ---- patterns

def pat_alts(p):
    """flatten or-patterns"""
    if p[0] == "por":
        out = []
        for q in p[1]:
            out.extend(pat_alts(q))
        return out
    if p[0] in ("pref", "pbox", "pderef"):
        return pat_alts(p[1])
    if p[0] == "pbind" and p[3] is not None:
        return pat_alts(p[3])
    return [p]


def pat_head(p):
    """('variant', path) | ('lit', value) | ('wild',) | ('tuple', [...]) | ('range', lo, hi, end) | ('other', kind)"""
    k = p[0]
    if k in ("pwild",):
        return ("wild",)
    if k == "pbind":
        return ("wild",)
    if k == "ppath":
        return ("variant", p[1])
    if k == "pts":
        return ("variant", p[1])
    if k == "pstruct":
        return ("variant", p[1])
    if k == "plit":
        v = p[1][1]
        if p[2]:
            v = "-" + v
        return ("lit", v)
    if k == "ptuple":
        return ("tuple", p[1])
    if k == "prange":
        return ("range", p[1], p[2], p[3])
    return ("other", k)


def pat_bindings(p):
    out = []

    def rec(q):
        if not isinstance(q, list) or not q:
            return
        if q[0] == "pbind":
            out.append(q[1])
            if q[3] is not None:
                rec(q[3])
        else:
            for y in q[1:]:
                if isinstance(y, list):
                    if y and isinstance(y[0], str) and y[0].startswith("p"):
                        rec(y)
                    else:
                        for z in y:
                            if isinstance(z, list):
                                if z and isinstance(z[0], str) and z[0].startswith("p"):
                                    rec(z)
                                elif len(z) == 2 and isinstance(z[1], list):
                                    rec(z[1])
    rec(p)
    return out


def match_arms(m):
    """[(pattern, guard, body, line)]"""
    return [(a[0], a[1], a[2], a[3]) for a in m[4]]


def enum_table(m, variants, enum_path):
    """Turn a match over enum `enum_path` into {variant_name: [arm_index...]}; wildcard arms cover the
    remaining variants in order. Returns (table, arms). Guards are reported per arm."""
    arms = match_arms(m)
    table = {v: [] for v in variants}
    for idx, (p, g, b, ln) in enumerate(arms):
        for alt in pat_alts(p):
            h = pat_head(alt)
            if h[0] == "variant":
                vp = h[1]
                if vp.startswith(enum_path + "::"):
                    vn = vp[len(enum_path) + 2:]
                    if vn in table:
                        table[vn].append(idx)
            elif h[0] == "wild":
                for v in variants:
                    # wildcard applies to variants not matched by an earlier *unguarded* arm
                    covered = any(arms[i][1] is None for i in table[v])
                    if not covered:
                        table[v].append(idx)
    return table, arms


def matches_over(body, ty_pred):
    """all match nodes whose scrutinee type satisfies ty_pred (refs stripped)"""
    out = []
    for n in walk(body):
        if n[0] == "match":
            t = n[3].lstrip("&").replace("mut ", "").strip()
            if ty_pred(t):
                out.append(n)
    return out


# ---- rendering (for evidence / diagnostics)

def show(n, depth=4):
    if n is None:
        return "-"
    if not is_node(n):
        if isinstance(n, list):
            return "[" + ", ".join(show(x, depth - 1) for x in n[:6]) + "]"
        return str(n)
    if depth <= 0:
        return "…"
    k = n[0]
    if k == "lit":
        return n[2][1] if n[2][0] != "str" else repr(n[2][1])
    if k == "path":
        return n[2].split("::")[-1] if n[3] == "local" else n[2]
    if k == "call":
        return f"{show(n[2], depth)}({', '.join(show(a, depth - 1) for a in n[3])})"
    if k == "mcall":
        return f"{show(n[4], depth - 1)}.{n[3]}({', '.join(show(a, depth - 1) for a in n[5])})"
    if k == "field":
        return f"{show(n[2], depth)}.{n[3]}"
    if k == "index":
        return f"{show(n[2], depth)}[{show(n[3], depth - 1)}]"
    if k == "ref":
        return "&" + show(n[3], depth)
    if k == "bin":
        return f"({show(n[3], depth - 1)} {n[2]} {show(n[4], depth - 1)})"
    if k == "un":
        return f"{n[2]}({show(n[3], depth - 1)})"
    if k == "cast":
        return f"({show(n[2], depth - 1)} as {n[4]})"
    if k == "struct":
        return f"{n[2]}{{{', '.join(f[0] + ': ' + show(f[1], depth - 1) for f in n[4])}}}"
    if k == "block":
        inner = [show(s, depth - 1) for s in n[2]]
        if n[3] is not None:
            inner.append(show(n[3], depth - 1))
        return "{" + "; ".join(inner) + "}"
    if k == "ret":
        return "return " + show(n[2], depth - 1)
    if k == "match":
        return f"match {show(n[2], depth - 1)} {{{len(n[4])} arms}}"
    if k == "if":
        return f"if {show(n[2], depth - 1)} {show(n[3], depth - 1)} else {show(n[4], depth - 1)}"
    if k == "semi" or k == "sexpr":
        return show(n[2], depth)
    if k == "slet":
        return f"let {show_pat(n[2])} = {show(n[3], depth - 1)}"
    if k == "tuple":
        return "(" + ", ".join(show(a, depth - 1) for a in n[2]) + ")"
    if k == "array":
        return "[" + ", ".join(show(a, depth - 1) for a in n[2]) + "]"
    if k == "closure":
        return "|..| " + show(n[4], depth - 1)
    if k == "assign":
        return f"{show(n[2], depth - 1)} = {show(n[3], depth - 1)}"
    if k == "assignop":
        return f"{show(n[3], depth - 1)} {n[2]}= {show(n[4], depth - 1)}"
    if k == "repeat":
        return f"[{show(n[2], depth - 1)}; _]:{n[3]}"
    if k == "let":
        return f"let {show_pat(n[2])} = {show(n[3], depth - 1)}"
    return k


def show_pat(p):
    if not isinstance(p, list) or not p:
        return "?"
    k = p[0]
    if k == "pwild":
        return "_"
    if k == "pbind":
        return p[1] + ("@" + show_pat(p[3]) if p[3] else "")
    if k == "ppath":
        return p[1].split("::")[-1]
    if k == "pts":
        return p[1].split("::")[-1] + "(" + ", ".join(show_pat(q) for q in p[3]) + ")"
    if k == "pstruct":
        return p[1].split("::")[-1] + "{" + ", ".join(f[0] + ": " + show_pat(f[1]) for f in p[3]) + ("" if not p[4] else ", ..") + "}"
    if k == "por":
        return " | ".join(show_pat(q) for q in p[1])
    if k == "ptuple":
        return "(" + ", ".join(show_pat(q) for q in p[1]) + ")"
    if k == "plit":
        return ("-" if p[2] else "") + (repr(p[1][1]) if p[1][0] == "str" else p[1][1])
    if k in ("pref", "pbox", "pderef"):
        return "&" + show_pat(p[1])
    if k == "prange":
        return f"{show_pat(p[1]) if p[1] else ''}..{show_pat(p[2]) if p[2] else ''}"
    return k


# ---- abstract pattern evaluation (finite shapes)

def _suffix2(path):
    return "::".join(path.split("::")[-2:])


def val(variant, *subs):
    """abstract value: enum variant (named by its last two path segments) with sub-values"""
    return ("v", variant, list(subs))


ANY = ("any",)


def pat_match(p, v):
    """does pattern p match abstract value v?  v: ('v', 'Enum::Variant', [subs]) | ('tuple', [subs]) | ('lit', text) | ANY
    Returns True/False; raises ValueError on pattern kinds it cannot decide."""
    k = p[0]
    if k in ("pwild",):
        return True
    if k == "pbind":
        return True if p[3] is None else pat_match(p[3], v)
    if k in ("pref", "pbox", "pderef"):
        return pat_match(p[1], v)
    if k == "por":
        return any(pat_match(q, v) for q in p[1])
    if v == ANY:
        raise ValueError("refutable pattern against an unknown value")
    if k == "ppath":
        return v[0] == "v" and _suffix2(p[1]) == v[1]
    if k == "pts":
        if v[0] != "v" or _suffix2(p[1]) != v[1]:
            return False
        return _match_seq(p[3], p[4], v[2])
    if k == "ptuple":
        if v[0] != "tuple":
            raise ValueError("tuple pattern against non-tuple")
        return _match_seq(p[1], p[2], v[1])
    if k == "plit":
        if v[0] != "lit":
            raise ValueError("literal pattern against non-literal")
        t = ("-" if p[2] else "") + p[1][1]
        return t == v[1]
    raise ValueError("unsupported pattern kind " + k)


def _match_seq(pats, ddpos, subs):
    if ddpos is None:
        if len(pats) != len(subs):
            raise ValueError("arity mismatch")
        return all(pat_match(q, s) for q, s in zip(pats, subs))
    head = pats[:ddpos]
    tail = pats[ddpos:]
    if len(head) + len(tail) > len(subs):
        raise ValueError("arity mismatch")
    ok = all(pat_match(q, s) for q, s in zip(head, subs[:len(head)]))
    if tail:
        ok = ok and all(pat_match(q, s) for q, s in zip(tail, subs[len(subs) - len(tail):]))
    return ok


def eval_match(m, v):
    """index of the first arm of match node m whose pattern matches abstract value v (guards must be absent)"""
    for idx, (p, g, b, ln) in enumerate(match_arms(m)):
        if pat_match(p, v):
            if g is not None:
                raise ValueError("guarded arm")
            return idx
    return None


def walk_anc(n, anc=()):
    """pre-order traversal yielding (node, ancestors tuple) ; ancestors are expression nodes and ('arm', match, idx)"""
    if is_node(n):
        yield n, anc
        if n[0] == "match":
            yield from walk_anc(n[2], anc + (n,))
            for idx, a in enumerate(n[4]):
                a_anc = anc + (n, ("arm", n, idx))
                if a[1] is not None:
                    yield from walk_anc(a[1], a_anc)
                yield from walk_anc(a[2], a_anc)
        else:
            for c in children(n):
                yield from walk_anc(c, anc + (n,))
    elif isinstance(n, list):
        for x in n:
            yield from walk_anc(x, anc)


def enclosing_arm(anc):
    """innermost ('arm', match, idx) of a non-`?` match in an ancestor tuple"""
    for a in reversed(anc):
        if isinstance(a, tuple) and a and a[0] == "arm" and not a[1][5].startswith("TryDesugar"):
            return a
    return None


def struct_field(n, name):
    for f in n[4]:
        if f[0] == name:
            return f[1]
    return None
