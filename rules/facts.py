"""Fact extraction management and loading.

Facts are produced by the rustc_private driver in /verif/driver (dcmfacts) from /repo's *current*
working tree; they are cached under /verif/.cache/facts/<tree-hash>/<config>/ so that the 27 check
commands share one extraction per tree state.  Nothing of dicom-rs is executed.
"""
import fcntl
import hashlib
import json
import os
import shutil
import subprocess
import sys
import time

VERIF = os.path.dirname(os.path.dirname(os.path.abspath(__file__)))
REPO = os.environ.get("VERIF_REPO", "/repo")
CACHE = os.path.join(VERIF, ".cache")

# build configurations: name -> cargo check arguments
CONFIGS = {
    "W": ["--workspace"],
    "R0": ["-p", "dicom-transfer-syntax-registry"],
    "R1": ["-p", "dicom-transfer-syntax-registry", "--features", "deflate"],
    "U0": ["-p", "dicom-ul"],
    "O0": ["-p", "dicom-object"],
}

# crates expected in the workspace configuration, with floors for MIR bodies (counted 2026-09-21)
EXPECTED_W = {
    "dicom_core": 1200,
    "dicom_encoding": 500,
    "dicom_parser": 400,
    "dicom_object": 600,
    "dicom_dictionary_std": 10,
    "dicom_transfer_syntax_registry": 60,
    "dicom_json": 100,
    "dicom_ul": 600,
    "dicom_pixeldata": 300,
    "dicom_dump": 50,
    "dicom_storescp": 50,
    "dicom_storescu": 50,
}


def tree_hash(repo=REPO):
    """Hash of every source/manifest file in the working tree (content), excluding target and .git."""
    h = hashlib.sha256()
    files = []
    for root, dirs, fs in os.walk(repo):
        dirs[:] = sorted(d for d in dirs if d not in ("target", ".git", "node_modules"))
        for f in sorted(fs):
            if f.endswith((".rs", ".toml", ".lock")):
                files.append(os.path.join(root, f))
    for p in files:
        h.update(os.path.relpath(p, repo).encode())
        h.update(b"\0")
        try:
            with open(p, "rb") as fh:
                h.update(hashlib.sha256(fh.read()).digest())
        except OSError:
            h.update(b"?")
    # the driver itself is part of the key
    drv = os.path.join(VERIF, "driver", "src", "main.rs")
    with open(drv, "rb") as fh:
        h.update(hashlib.sha256(fh.read()).digest())
    return h.hexdigest()[:20], len(files)


def ensure_driver():
    drv = os.path.join(VERIF, "driver", "target", "release", "dcmfacts")
    src = os.path.join(VERIF, "driver", "src", "main.rs")
    if not os.path.exists(drv) or os.path.getmtime(drv) < os.path.getmtime(src):
        env = dict(os.environ, CARGO_NET_OFFLINE="true")
        r = subprocess.run(
            ["cargo", "+nightly", "build", "--release", "--offline"],
            cwd=os.path.join(VERIF, "driver"), env=env, stdout=subprocess.PIPE, stderr=subprocess.STDOUT, text=True)
        if r.returncode != 0:
            print(r.stdout[-3000:])
            raise SystemExit("FATAL: cannot build the dcmfacts driver")
    return drv


def extract(config="W", repo=REPO, quiet=False):
    """Return the directory holding the fact files for (current tree, config); extract if absent."""
    os.makedirs(CACHE, exist_ok=True)
    th, nfiles = tree_hash(repo)
    out = os.path.join(CACHE, "facts", th, config)
    done = os.path.join(out, "DONE")
    if os.path.exists(done):
        try:
            os.utime(os.path.dirname(out))  # LRU: keep the trees that are in use
        except OSError:
            pass
        return out, {"tree_hash": th, "files_hashed": nfiles, "cached": True, "extract_s": 0.0}
    lock_path = os.path.join(CACHE, "extract.lock")
    with open(lock_path, "w") as lk:
        fcntl.flock(lk, fcntl.LOCK_EX)
        if os.path.exists(done):
            return out, {"tree_hash": th, "files_hashed": nfiles, "cached": True, "extract_s": 0.0}
        ensure_driver()
        if os.path.exists(out):
            shutil.rmtree(out)
        os.makedirs(out)
        t0 = time.time()
        tgt = os.path.join(CACHE, "target", config) if repo == "/repo" else "-"
        if os.environ.get("VERIF_TARGET"):  # a second persistent dependency cache for a scratch tree (tools/try_patch_at.sh)
            tgt = os.path.join(os.environ["VERIF_TARGET"], config)
        cmd = [os.path.join(VERIF, "driver", "run.sh"), repo, out, config, tgt] + CONFIGS[config]
        if not quiet:
            print(f"[facts] extracting config {config} from {repo} (tree {th}) ...", flush=True)
        r = subprocess.run(cmd, stdout=subprocess.PIPE, stderr=subprocess.STDOUT, text=True)
        if r.returncode != 0:
            print(r.stdout[-6000:])
            shutil.rmtree(out, ignore_errors=True)
            raise ExtractionFailed(f"fact extraction failed for config {config} (does /repo compile?)")
        dt = time.time() - t0
        with open(done, "w") as fh:
            fh.write(f"{dt:.1f}\n")
        prune_cache(keep=th)
        return out, {"tree_hash": th, "files_hashed": nfiles, "cached": False, "extract_s": round(dt, 1)}


class ExtractionFailed(Exception):
    pass


def fixture(name):
    """Facts of a reference fixture crate under /verif/fixtures/<name>, extracted with the same driver (cached by content)."""
    fdir = os.path.join(VERIF, "fixtures", name)
    th, _ = tree_hash(fdir)
    out = os.path.join(CACHE, "fixtures", f"{name}-{th}")
    done = os.path.join(out, "DONE")
    if not os.path.exists(done):
        with open(os.path.join(CACHE, "extract.lock"), "w") as lk:
            fcntl.flock(lk, fcntl.LOCK_EX)
            if not os.path.exists(done):
                ensure_driver()
                shutil.rmtree(out, ignore_errors=True)
                os.makedirs(out)
                r = subprocess.run([os.path.join(VERIF, "driver", "run.sh"), fdir, out, "F", "-"],
                                   stdout=subprocess.PIPE, stderr=subprocess.STDOUT, text=True)
                if r.returncode != 0:
                    print(r.stdout[-3000:])
                    raise ExtractionFailed(f"fixture {name} does not compile")
                open(done, "w").write("ok\n")
    files = [f for f in os.listdir(out) if f.endswith(".json")]
    with open(os.path.join(out, files[0])) as fh:
        d = json.load(fh)
    return {h["path"]: h for h in d["hir"]}


def prune_cache(keep, max_trees=12):
    base = os.path.join(CACHE, "facts")
    try:
        ents = [(os.path.getmtime(os.path.join(base, e)), e) for e in os.listdir(base) if e != keep]
    except OSError:
        return
    ents.sort(reverse=True)
    for _, e in ents[max_trees - 1:]:
        shutil.rmtree(os.path.join(base, e), ignore_errors=True)


class Facts:
    """All crates of one configuration; crate files are loaded lazily, indexes built per crate."""

    def __init__(self, directory, config):
        self.dir = directory
        self.config = config
        self.files = {}   # (crate, kind) -> file
        for f in sorted(os.listdir(directory)):
            if not f.endswith(".json"):
                continue
            base = f[:-5]
            kind = "bin" if base.endswith("-bin") else "lib"
            crate = base.rsplit("-", 2)[-2]
            self.files[(crate, kind)] = os.path.join(directory, f)
        self._crates = {}
        self._idx = {}

    def crate_names(self):
        return sorted(set(c for c, _ in self.files))

    def crate(self, name, kind=None):
        """Load (and index) crate `name`; kind None = lib if present else bin."""
        if kind is None:
            kind = "lib" if (name, "lib") in self.files else "bin"
        key = (name, kind)
        if key not in self._crates:
            if key not in self.files:
                raise MissingAnchor(f"no fact file for crate {name} ({kind}) in config {self.config}")
            with open(self.files[key]) as fh:
                d = json.load(fh)
            if os.environ.get("VERIF_ALPHA"):
                # checker self-test (tools/alpha_test.sh): consistently rename every local of every function in the facts.
                # Renaming locals preserves behaviour, so no rule may change its verdict.
                for h in d["hir"]:
                    alpha_rename(h, os.environ["VERIF_ALPHA"])
            if not os.environ.get("VERIF_NO_CANON"):
                ref = locals_ref().get(f"{name}/{kind}", {})
                renamed = 0
                for h in d["hir"]:
                    renamed += canonical_locals(h, ref.get(h["path"]))
                self.renamed_locals = getattr(self, "renamed_locals", 0) + renamed
            if os.environ.get("VERIF_MUTATE"):  # checker self-assessment only (rules/hirmut.py, tools/hir_mutation_score.py)
                from . import hirmut
                hirmut.apply(d, f"{name}/{kind}", os.environ["VERIF_MUTATE"])
            self._crates[key] = d
            self._idx[key] = {
                "fns": {f["path"]: f for f in d["fns"]},
                "hir": {h["path"]: h for h in d["hir"]},
                "adts": {a["path"]: a for a in d["adts"]},
                "consts": {c["path"]: c for c in d["consts"]},
            }
        return self._crates[key]

    def all_crates(self, kinds=("lib", "bin")):
        for (c, k) in sorted(self.files):
            if k in kinds:
                yield (c, k), self.crate(c, k)

    def _candidates(self, path):
        import re
        seen = []
        for m in re.finditer(r"\b(dicom(?:_[a-z_]+)?)::", path):
            if m.group(1) not in seen:
                seen.append(m.group(1))
        out = []
        for c in seen:
            for k in ("lib", "bin"):
                if (c, k) in self.files:
                    out.append((c, k))
        return out

    def _lookup(self, table, path):
        for key in self._candidates(path):
            self.crate(*key)
            v = self._idx[key][table].get(path)
            if v is not None:
                return v, key
        return None, None

    # ---- lookups that fail closed
    def fn(self, path):
        f, _ = self._lookup("fns", path)
        if f is None:
            raise MissingAnchor(f"MIR body not found: {path}")
        return f

    def has_fn(self, path):
        return self._lookup("fns", path)[0] is not None

    def hirfn(self, path):
        f, _ = self._lookup("hir", path)
        if f is None:
            raise MissingAnchor(f"HIR body not found: {path}")
        return f

    def has_hir(self, path):
        return self._lookup("hir", path)[0] is not None

    def adt(self, path):
        a, _ = self._lookup("adts", path)
        if a is None:
            raise MissingAnchor(f"ADT not found: {path}")
        return a

    def const(self, path):
        a, _ = self._lookup("consts", path)
        if a is None:
            raise MissingAnchor(f"const not found: {path}")
        return a

    def variants(self, path):
        return [v["name"] for v in self.adt(path)["variants"]]

    def find_fns(self, crate, pred, kind=None):
        self.crate(crate, kind)
        k = (crate, kind or ("lib" if (crate, "lib") in self.files else "bin"))
        return [f for p, f in self._idx[k]["fns"].items() if pred(p)]

    def find_hir(self, crate, pred, kind=None):
        self.crate(crate, kind)
        k = (crate, kind or ("lib" if (crate, "lib") in self.files else "bin"))
        return [f for p, f in self._idx[k]["hir"].items() if pred(p)]

    @staticmethod
    def strip_generics(path):
        """`a::B::<T, U>::f` / `<a::B<T> as c::Tr>::f` -> the same path without generic argument lists"""
        out = []
        depth = 0
        i = 0
        while i < len(path):
            ch = path[i]
            if ch == "<":
                # keep the leading `<` of a qualified path `<T as Trait>::f`
                if i == 0 or path[i - 1] in " (":
                    out.append(ch)
                    i += 1
                    continue
                depth += 1
                if out[-2:] == [":", ":"]:
                    out = out[:-2]
            elif ch == ">" and depth > 0:
                depth -= 1
            elif depth == 0:
                out.append(ch)
            i += 1
        return "".join(out)

    def method(self, crate, type_path, name, table="hir", kind=None):
        """the unique inherent method `type_path::name` regardless of the impl's generic parameter list (fails closed)"""
        self.crate(crate, kind)
        k = (crate, kind or ("lib" if (crate, "lib") in self.files else "bin"))
        want = f"{type_path}::{name}"
        hits = [v for p, v in self._idx[k][table if table != "mir" else "fns"].items() if self.strip_generics(p) == want]
        if len(hits) != 1:
            raise MissingAnchor(f"{'HIR' if table == 'hir' else 'MIR'} body of {want}: {len(hits)} candidates")
        return hits[0]

    def closures_of(self, root_path):
        """MIR bodies of closures whose typeck root is `root_path`."""
        out = []
        for key in self._candidates(root_path):
            self.crate(*key)
            for f in self._crates[key]["fns"]:
                if f.get("root") == root_path:
                    out.append(f)
        return out

    def counts(self):
        out = {}
        for (cn, kind), d in self._crates.items():
            out[f"{cn}:{kind}"] = {"mir_bodies": len(d["fns"]), "hir_bodies": len(d["hir"]),
                                   "adts": len(d["adts"]), "consts": len(d["consts"])}
        return out


def alpha_rename(h, suffix):
    """rename every local binding (pattern binders and the paths that refer to them) of one HIR function in place; `self` is kept"""
    import zlib
    mod = 1
    if ":" in suffix:  # "<suffix>:<k>" renames only the names whose checksum is divisible by k (a partial renaming)
        suffix, k = suffix.split(":")
        mod = int(k)

    def pick(nm):
        return nm != "self" and zlib.crc32(nm.encode()) % mod == 0

    def ren(x):
        if isinstance(x, list):
            if len(x) >= 4 and x[0] == "pbind" and isinstance(x[1], str):
                if pick(x[1]):
                    x[1] = x[1] + suffix
            elif len(x) >= 4 and x[0] == "path" and isinstance(x[1], int) and x[3] == "local" and isinstance(x[2], str):
                if pick(x[2]):
                    x[2] = x[2] + suffix
            for y in x:
                ren(y)
        elif isinstance(x, dict):
            for y in x.values():
                ren(y)
    ren(h.get("params"))
    ren(h.get("body"))


def local_names(h):
    """[(name, signature)] of the distinct local names of one HIR function in order of first binding; the signature
    (binders, uses, type at first use) is what a renamed local keeps"""
    order, binds, uses, ty = [], {}, {}, {}

    def rec(x):
        if isinstance(x, list):
            if len(x) >= 4 and x[0] == "pbind" and isinstance(x[1], str):
                if x[1] not in binds:
                    order.append(x[1])
                binds[x[1]] = binds.get(x[1], 0) + 1
            elif len(x) >= 4 and x[0] == "path" and isinstance(x[1], int) and x[3] == "local" and isinstance(x[2], str):
                uses[x[2]] = uses.get(x[2], 0) + 1
                if x[2] not in ty and len(x) > 4 and isinstance(x[4], str):
                    ty[x[2]] = x[4]
            for y in x:
                rec(y)
        elif isinstance(x, dict):
            for y in x.values():
                rec(y)
    rec(h.get("params"))
    rec(h.get("body"))
    return [(n, f"{binds[n]}/{uses.get(n, 0)}/{ty.get(n, '?')}") for n in order if n != "self"]


_LOCALS_REF = None


def locals_ref():
    global _LOCALS_REF
    if _LOCALS_REF is None:
        p = os.path.join(VERIF, "refs", "locals.json")
        _LOCALS_REF = json.load(open(p)) if os.path.exists(p) else {}
    return _LOCALS_REF


def disambiguate_shadows(h, ref):
    """A local name that is bound more often than in the pinned tree has been re-bound (`let x = f(x);` in front of a use the rules read by
    name). The additional binders -- the later ones in source order -- and the uses that resolve to them (the driver records the binder of
    every local path) are renamed `<name>__rebound<k>`, so that a rule that expects the original value no longer finds it under that name."""
    want = {n: int(sig.split("/")[0]) for n, sig in ref}
    binders = {}

    def scan(x):
        if isinstance(x, list):
            if len(x) >= 5 and x[0] == "pbind" and isinstance(x[1], str) and isinstance(x[4], int):
                binders.setdefault(x[1], [])
                if x[4] not in binders[x[1]]:
                    binders[x[1]].append(x[4])
            for y in x:
                scan(y)
        elif isinstance(x, dict):
            for y in x.values():
                scan(y)
    scan(h.get("params"))
    scan(h.get("body"))
    rename = {}
    for name, ids in binders.items():
        if name in want and len(ids) > want[name] and name != "self":
            for k, bid in enumerate(ids[want[name]:], 1):
                rename[bid] = f"{name}__rebound{k}"
    if not rename:
        return 0

    def ren(x):
        if isinstance(x, list):
            if len(x) >= 5 and x[0] == "pbind" and isinstance(x[4], int) and x[4] in rename:
                x[1] = rename[x[4]]
            elif len(x) >= 5 and x[0] == "path" and isinstance(x[1], int) and x[3] == "local" and isinstance(x[-1], dict) and x[-1].get("b") in rename:
                x[2] = rename[x[-1]["b"]]
            for y in x:
                ren(y)
        elif isinstance(x, dict):
            for y in x.values():
                ren(y)
    ren(h.get("params"))
    ren(h.get("body"))
    return len(rename)


def canonical_locals(h, ref):
    """Alpha-normalisation: the rules name locals as the pinned tree does (refs/locals.json, generated by tools/gen_locals_ref.py).
    Locals that still carry their reference name are left alone; a local whose name is not in the reference takes the label of the
    reference local it replaces (same position among the changed ones when the counts agree, else the one with the same signature).
    A pure renaming therefore yields exactly the tree the rules were written against; anything else is seen as it is."""
    if not ref:
        return 0
    n_shadow = disambiguate_shadows(h, ref)
    cur = local_names(h)
    ref_names = [n for n, _ in ref]
    cur_names = [n for n, _ in cur]
    new = [(n, s) for n, s in cur if n not in ref_names]
    gone = [(n, s) for n, s in ref if n not in cur_names]
    if not new or not gone:
        return 0
    mapping = {}
    if len(new) == len(gone):
        for (n, s), (r, rs) in zip(new, gone):
            mapping[n] = r
    else:
        import difflib
        sm = difflib.SequenceMatcher(a=[s for _, s in new], b=[s for _, s in gone], autojunk=False)
        for blk in sm.get_matching_blocks():
            for k in range(blk.size):
                mapping[new[blk.a + k][0]] = gone[blk.b + k][0]
    if not mapping:
        return 0

    def ren(x):
        if isinstance(x, list):
            if len(x) >= 4 and x[0] == "pbind" and isinstance(x[1], str):
                x[1] = mapping.get(x[1], x[1])
            elif len(x) >= 4 and x[0] == "path" and isinstance(x[1], int) and x[3] == "local" and isinstance(x[2], str):
                x[2] = mapping.get(x[2], x[2])
            for y in x:
                ren(y)
        elif isinstance(x, dict):
            for y in x.values():
                ren(y)
    ren(h.get("params"))
    ren(h.get("body"))
    return len(mapping)


class MissingAnchor(Exception):
    pass


_loaded = {}


def load(config="W", repo=REPO, quiet=False):
    key = (config, repo)
    if key in _loaded:
        return _loaded[key]
    d, meta = extract(config, repo, quiet=quiet)
    fx = Facts(d, config)
    fx.meta = meta
    if config == "W":
        for cn in EXPECTED_W:
            if not any(c == cn for c, _ in fx.files):
                raise MissingAnchor(f"fact file for crate {cn} missing in config W")
    _loaded[key] = fx
    if config == "W":
        from . import hirq

        def resolve(path, fx=fx):
            try:
                c = fx.const(path)
            except Exception:
                return None
            import re as _re
            m = _re.fullmatch(r"(-?\d+)_?[iu](8|16|32|64|128|size)", str((c or {}).get("val", "")))
            return int(m.group(1)) if m else None
        hirq.CONST_RESOLVER = resolve
    return fx


if __name__ == "__main__":
    fx = load(sys.argv[1] if len(sys.argv) > 1 else "W")
    for _ in fx.all_crates():
        pass
    print(json.dumps(fx.counts(), indent=1))
    print(fx.meta)
