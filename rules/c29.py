"""C29 — requestor and acceptor agree on the association and respect PDU limits (structural clauses).

1. pdu-roles (FLOW): each of the four `send` implementations encodes with the *peer's* maximum (client: acceptor's,
   server: requestor's) + PDU_HEADER_SIZE; each `receive` passes the *local* maximum (client: requestor's, server:
   acceptor's); Association::{peer,local}_max_pdu_length return the matching fields; encode_pdu fails when the encoded
   PDU is longer than the limit; the association constructors store the negotiated peer maximum in the peer field.
2. response-processing: the requestor keeps exactly the results that are Acceptance and whose id was proposed; the
   abstract syntax of a kept context is taken from the proposal *with the same id*; an empty result is an error.
3. context-id: proposed ids are 2*i+1 and the number of proposals is bounded (<= 128) before they are computed, so the
   narrowing cast to u8 cannot wrap (ids distinct and odd).
"""
import re

from . import facts, hirq as H, common as C

LEVEL_TEXT = ("Every send/receive implementation and constructor of the four association types in the analysed configuration is checked "
              "for which maximum-PDU field it uses; the response filter/map chain is checked clause by clause. Decides role plumbing and "
              "identifier pairing, not an end-to-end negotiation over TCP.")

A = "dicom_ul::association"
TYPES = {
    "client::ClientAssociation": ("client", "sync"),
    "client::AsyncClientAssociation": ("client", "async"),
    "server::ServerAssociation": ("server", "sync"),
    "server::AsyncServerAssociation": ("server", "async"),
}
PEER = {"client": "acceptor_max_pdu_length", "server": "requestor_max_pdu_length"}
LOCAL = {"client": "requestor_max_pdu_length", "server": "acceptor_max_pdu_length"}


def find_impl_fn(fx, d, ty, trait_suffix, fn):
    out = []
    for h in d["hir"]:
        sp = fx.strip_generics(h["path"])
        if sp.endswith(f"::{fn}") and f"{A}::{ty} as " in sp and trait_suffix in sp:
            out.append(h)
    return out


def run(chk, tier):
    fx = facts.load("W")
    chk.analysed["facts"] = fx.meta
    d = fx.crate("dicom_ul")

    # ---------- rule 1
    chk.rule("pdu-roles", "send encodes against the peer's maximum (+ header), receive parses against the local maximum; accessors and constructors use the matching fields")
    for ty, (role, mode) in TYPES.items():
        sealed = "SyncAssociationSealed" if mode == "sync" else "AsyncAssociationSealed"
        hs = find_impl_fn(fx, d, ty, sealed, "send")
        chk.expect(len(hs) == 1, "pdu-roles", ty, "send-impl", 1, len(hs))
        for h in hs:
            enc = [x for c, x in H.calls(h["body"]) if c == f"{A}::encode_pdu"]
            got = H.show(enc[0][3][2], 5) if len(enc) == 1 else None
            want = f"(self.{PEER[role]} Add dicom_ul::pdu::PDU_HEADER_SIZE)"
            chk.expect(got == want, "pdu-roles", ty, "send-limit", want, got, loc=C.fn_loc(h))
        hr = find_impl_fn(fx, d, ty, sealed, "receive")
        chk.expect(len(hr) == 1, "pdu-roles", ty, "receive-impl", 1, len(hr))
        for h in hr:
            rd = [x for c, x in H.calls(h["body"]) if c in (f"{A}::read_pdu_from_wire", f"{A}::read_pdu_from_wire_async")]
            got = H.show(rd[0][3][2], 4) if len(rd) == 1 else None
            chk.expect(got == f"self.{LOCAL[role]}", "pdu-roles", ty, "receive-limit", f"self.{LOCAL[role]}", got, loc=C.fn_loc(h))
        for fn, fld in (("peer_max_pdu_length", PEER[role]), ("local_max_pdu_length", LOCAL[role]), ("acceptor_max_pdu_length", "acceptor_max_pdu_length"),
                        ("requestor_max_pdu_length", "requestor_max_pdu_length")):
            hh = find_impl_fn(fx, d, ty, "::Association>", fn)
            chk.expect(len(hh) == 1 and H.show(H.peel(hh[0]["body"]), 3).strip("{}") == f"self.{fld}", "pdu-roles", ty, fn, f"self.{fld}",
                       H.show(H.peel(hh[0]["body"]), 3) if hh else None)
    # send_pdata / receive_pdata of the public traits
    for tr in ("SyncAssociation", "AsyncAssociation"):
        for fn, acc in (("send_pdata", "peer_max_pdu_length"), ("receive_pdata", "local_max_pdu_length")):
            hh = [h for h in d["hir"] if h["path"] == f"{A}::{tr}::{fn}"]
            if len(hh) != 1:
                raise facts.MissingAnchor(f"{tr}::{fn}")
            cs = [x[3] for x in H.walk(hh[0]["body"]) if H.kind(x) == "mcall" and x[3].endswith("_max_pdu_length")]
            chk.expect(cs == [acc], "pdu-roles", f"{tr}::{fn}", "limit", acc, cs, loc=C.fn_loc(hh[0]))
    # encode_pdu fails on over-long PDUs
    h = fx.hirfn(f"{A}::encode_pdu")
    ifs = [x for x in H.walk(h["body"]) if H.kind(x) == "if" and "buffer.len()" in H.show(x[2], 5) and "peer_max_pdu_length" in H.show(x[2], 5)]
    ok = len(ifs) == 1 and H.peel(ifs[0][2])[2] == "Gt" and any(H.kind(y) == "ret" and "SendTooLongPdu" in H.show(y, 6) for y in H.walk(ifs[0][3]))
    wr = [x[1] for c, x in H.calls(h["body"]) if c and c.endswith("pdu::writer::write_pdu")]
    chk.expect(ok and wr and wr[0] < ifs[0][1], "pdu-roles", "encode_pdu", "over-long-rejected", "write_pdu then `if buffer.len() > limit { return SendTooLongPdu }`",
               [H.show(x[2], 5) for x in ifs], loc=C.fn_loc(h))
    # constructors
    n_ctor = 0
    for hh in d["hir"]:
        for x in H.walk(hh["body"]):
            if H.kind(x) == "struct" and x[2].split("::")[-1] in ("ClientAssociation", "AsyncClientAssociation", "ServerAssociation", "AsyncServerAssociation"):
                role = "client" if "Client" in x[2] else "server"
                peer_f = H.struct_field(x, PEER[role])
                local_f = H.struct_field(x, LOCAL[role])
                if peer_f is None or local_f is None:
                    continue
                n_ctor += 1
                chk.expect(H.show(peer_f, 3) == "peer_max_pdu_length" and H.show(local_f, 3) == "self.max_pdu_length", "pdu-roles", hh["path"].split("::")[-1],
                           f"ctor:{x[2].split('::')[-1]}", f"{PEER[role]}: peer_max_pdu_length, {LOCAL[role]}: self.max_pdu_length",
                           {PEER[role]: H.show(peer_f, 3), LOCAL[role]: H.show(local_f, 3)}, loc=f"{hh['loc']['f']}:{x[1]}")
    chk.floor("pdu-roles", "association constructors", n_ctor, 4)

    # ---------- rule 2
    chk.rule("response-processing", "kept = results.filter(Acceptance && id was proposed).map(abstract syntax from the proposal with the same id); empty -> error")
    h = fx.method("dicom_ul", f"{A}::client::ClientAssociationOptions", "process_a_association_resp")
    lets = [x for x in H.walk(h["body"]) if H.kind(x) == "slet" and H.pat_bindings(x[2]) == ["presentation_contexts"]]
    chk.expect(len(lets) == 1, "response-processing", "process_a_association_resp", "binding", 1, len(lets), loc=C.fn_loc(h))
    # the association is refused when the acceptor answers with another protocol version (and only then)
    pv = [x for x in H.walk(h["body"]) if H.kind(x) == "if" and "protocol_version" in H.show(x[2], 6)]
    pv_t = [H.show(x[2], 6) for x in pv]
    ok_pv = len(pv) == 1 and pv_t[0] in ("Not((self.protocol_version Eq protocol_version_scp))", "(self.protocol_version Ne protocol_version_scp)",
                                         "Not((protocol_version_scp Eq self.protocol_version))", "(protocol_version_scp Ne self.protocol_version)") \
        and any(H.kind(y) == "ret" for y in H.walk(pv[0][3])) and "ProtocolVersionMismatch" in H.show(pv[0][3], 8)
    chk.expect(ok_pv, "response-processing", "process_a_association_resp", "protocol-version-must-match", "ensure!(self.protocol_version == protocol_version_scp, ProtocolVersionMismatch)", pv_t, loc=C.fn_loc(h))
    if lets:
        e = lets[0][3]
        names = []
        n = H.peel(e)
        while H.kind(n) == "mcall":
            names.append(n[3])
            n = H.peel(n[4])
        names = list(reversed(names))
        chk.expect(names == ["into_iter", "filter", "map", "collect"] and H.path_of(n) == "presentation_contexts_scp", "response-processing", "process_a_association_resp",
                   "chain", "presentation_contexts_scp.into_iter().filter(..).map(..).collect()", {"chain": names, "root": H.show(n, 2)}, loc=C.fn_loc(h))
        flt = [x for x in H.walk(e) if H.kind(x) == "mcall" and x[3] == "filter"]
        mp = [x for x in H.walk(e) if H.kind(x) == "mcall" and x[3] == "map" and H.kind(H.peel(x[5][0])) == "closure" and any(H.kind(y) == "struct" for y in H.walk(x[5][0]))]
        if flt:
            cl = H.peel(flt[0][5][0])
            c = H.pat_bindings(cl[3][0])[0]
            txt = H.show(cl[4], 9)
            cond = H.peel(cl[4])
            cond = H.peel(cond[3]) if H.kind(cond) == "block" and cond[3] is not None else cond
            ok = H.kind(cond) == "bin" and cond[2] == "And" and f"({c}.reason Eq dicom_ul::pdu::PresentationContextResultReason::Acceptance)" in txt \
                and "presentation_contexts_proposed.iter().any(" in txt and re.search(rf"\(\w+\.id Eq {c}\.id\)", txt) is not None
            chk.expect(ok, "response-processing", "process_a_association_resp", "filter", "c.reason == Acceptance && proposed.iter().any(|p| p.id == c.id)", txt[:200], loc=C.fn_loc(h))
        if mp:
            cl = H.peel(mp[0][5][0])
            c = H.pat_bindings(cl[3][0])[0]
            st = [y for y in H.walk(cl[4]) if H.kind(y) == "struct" and y[2].endswith("PresentationContextNegotiated")]
            ok = False
            detail = None
            if len(st) == 1:
                f_id, f_ts, f_as = (H.show(H.struct_field(st[0], k), 4) for k in ("id", "transfer_syntax", "abstract_syntax"))
                # the abstract syntax comes from a proposal looked up by the *same id*
                src = re.match(r"(\w+)\.abstract_syntax", f_as)
                looked = None
                if src:
                    bl = [y for y in H.walk(cl[4]) if H.kind(y) == "slet" and H.pat_bindings(y[2]) == [src.group(1)]]
                    looked = H.show(bl[0][3], 9) if bl else None
                by_id = looked is not None and "presentation_contexts_proposed.iter().find(" in looked and re.search(rf"\(\w+\.id Eq {c}\.id\)", looked) is not None
                ok = f_id == f"{c}.id" and f_ts == f"{c}.transfer_syntax" and by_id
                detail = {"id": f_id, "transfer_syntax": f_ts, "abstract_syntax": f_as, "lookup": (looked or "")[:160]}
            chk.expect(ok, "response-processing", "process_a_association_resp", "map", "id/transfer syntax from the result, abstract syntax from proposed.find(|pc| pc.id == c.id)", detail, loc=C.fn_loc(h))
        chk.expect(bool(flt) and bool(mp), "response-processing", "process_a_association_resp", "filter-and-map-present", "both", (len(flt), len(mp)))
    emp = [x for x in H.walk(h["body"]) if H.kind(x) == "if" and "presentation_contexts.is_empty()" in H.show(x[2], 4)
           and any("NoAcceptedPresentationContexts" in H.show(y, 6) for y in H.walk(x[3]) if H.kind(y) == "ret")]
    chk.expect(len(emp) == 1, "response-processing", "process_a_association_resp", "nothing-accepted-fails", "NoAcceptedPresentationContexts error", len(emp))
    # acceptor max PDU from the response
    asg = [x for x in H.walk(h["body"]) if H.kind(x) == "slet" and H.pat_bindings(x[2]) == ["acceptor_max_pdu_length"]]
    txt = " ; ".join(H.show(x[3], 7) for x in asg)
    chk.expect(len(asg) == 2 and "DEFAULT_MAX_PDU" in txt and "MAXIMUM_PDU_SIZE" in txt and "Eq 0" in txt and ".min(" in txt, "response-processing", "process_a_association_resp",
               "acceptor-max-pdu", "MaxLength or DEFAULT_MAX_PDU; 0 -> MAXIMUM_PDU_SIZE; else min(MAXIMUM)", txt[:240])

    # ---------- rule 3
    chk.rule("context-id", "ids are (2*i + 1) over the enumeration of the proposals, and an `ensure!(presentation_contexts.len() <= 128)` (or tighter) precedes them")
    h = fx.method("dicom_ul", f"{A}::client::ClientAssociationOptions", "create_a_associate_req")
    ids = [x for x in H.walk(h["body"]) if H.kind(x) == "struct" and x[2].endswith("PresentationContextProposed")]
    ok_id = len(ids) == 1 and H.show(H.struct_field(ids[0], "id"), 5) == "(((2 Mul i) Add 1) as u8)"
    chk.expect(ok_id, "context-id", "create_a_associate_req", "id-expression", "(2 * i + 1) as u8", H.show(H.struct_field(ids[0], "id"), 5) if ids else None, loc=C.fn_loc(h))
    guards = []
    for x in H.walk(h["body"]):
        if H.kind(x) == "if":
            t = H.show(x[2], 6)
            m = re.search(r"presentation_contexts\.len\(\) (Le|Lt) (\d+)", t)
            if m and "Not(" in t and any(H.kind(y) == "ret" for y in H.walk(x[3])):
                bound = int(m.group(2)) if m.group(1) == "Le" else int(m.group(2)) - 1
                guards.append((bound, x[1]))
    ok = len(guards) >= 1 and min(g[0] for g in guards) <= 128 and ids and all(g[1] < ids[0][1] for g in guards)
    chk.expect(ok, "context-id", "create_a_associate_req", "count-bounded", "ensure!(presentation_contexts.len() <= 128) before the ids are computed", guards, loc=C.fn_loc(h))
    chk.undecided.append("end-to-end agreement of two live peers; behaviour of TLS transports")
