"""Facts-level mutation (checker self-assessment, not a check of dicom-rs).

Enumerates small syntactic mutations of the resolved HIR of one function -- comparison / arithmetic operator flips, integer literal
+1, boolean literal flips, dropped `!`, swapped same-typed local arguments -- and applies ONE of them to the facts after loading
(env VERIF_MUTATE = "<crate>/<kind>|<fn path>|<index>"). tools/hir_mutation_score.py runs the property's check on a sample of such
mutants to find the functions of a property's anchor files in which a change goes unnoticed. Only the HIR is mutated (the MIR facts
are left alone), so rules that work on the MIR do not see these mutants: the score is a lower bound used to look for blind spots,
nothing else. Each mutation corresponds to a source edit that compiles (same types), by construction.
"""
from . import hirq as H

FLIP = {"Lt": "Le", "Le": "Lt", "Gt": "Ge", "Ge": "Gt", "Eq": "Ne", "Ne": "Eq", "Add": "Sub", "Sub": "Add", "And": "Or", "Or": "And",
        "BitAnd": "BitOr", "BitOr": "BitAnd", "Shl": "Shr", "Shr": "Shl"}


def points(h):
    """[(description, apply())] in deterministic pre-order"""
    out = []
    body = h.get("body")
    if not H.is_node(body):
        return out
    for x in H.walk(body):
        if H.mac(x):
            continue
        k = H.kind(x)
        if k == "bin" and x[2] in FLIP:
            def ap(x=x):
                x[2] = FLIP[x[2]]
            out.append((f"line {x[1]}: {x[2]} -> {FLIP[x[2]]}", ap))
        elif k == "assignop" and x[2].replace("Assign", "") in ("Add", "Sub"):
            def ap(x=x):
                x[2] = "SubAssign" if x[2] == "AddAssign" else "AddAssign"
            out.append((f"line {x[1]}: {x[2]} flipped", ap))
        elif k == "lit" and isinstance(x[2], list) and x[2][0] == "int":
            try:
                v = int(x[2][1])
            except ValueError:
                continue
            if v < 0xFFFF:
                def ap(x=x, v=v):
                    x[2] = ["int", str(v + 1)]
                out.append((f"line {x[1]}: literal {v} -> {v + 1}", ap))
        elif k == "lit" and isinstance(x[2], list) and x[2][0] == "bool":
            def ap(x=x):
                x[2] = ["bool", "false" if x[2][1] == "true" else "true"]
            out.append((f"line {x[1]}: literal {x[2][1]} flipped", ap))
        elif k == "un" and x[2] == "Not":
            def ap(x=x):
                inner = x[3]
                x[:] = inner
            out.append((f"line {x[1]}: `!` dropped", ap))
        elif k in ("call", "mcall"):
            args = x[3] if k == "call" else x[5]
            loc = [(i, a) for i, a in enumerate(args) if H.kind(a) == "path" and len(a) > 4 and a[3] == "local"]
            for (i, a), (j, b) in zip(loc, loc[1:]):
                if a[4] == b[4] and a[2] != b[2]:
                    def ap(args=args, i=i, j=j):
                        args[i], args[j] = args[j], args[i]
                    out.append((f"line {x[1]}: arguments `{a[2]}` and `{b[2]}` swapped in call of {(H.callee(x) or '?').split('::')[-1]}", ap))
                    break
    return out


def apply(d, crate_key, spec):
    """apply VERIF_MUTATE spec to crate facts `d` when it addresses this crate"""
    ck, fn, idx = spec.split("|")
    if ck != crate_key:
        return False
    for h in d["hir"]:
        if h["path"] == fn:
            pts = points(h)
            desc, ap = pts[int(idx)]
            ap()
            return True
    raise KeyError(f"mutation target {fn} not found in {crate_key}")
