"""C11 — numeric value conversions are exact or fail.

1. no-lossy-as (CAST, MIR): no IntToInt/FloatToInt/IntToFloat/FloatToFloat cast in the six conversion functions nor in
   the closures they own; numbers go through NumCast::from (checked), text through str::parse after
   trim_matches(whitespace_or_null).
2. conversion-coverage (SIB): per-variant outcome tables of the single-valued and of the multi-valued family; the multi
   family returns one result per item (iter().map().collect(), no filtering adaptor) and an empty list for Empty;
   the single family takes item [0] under a non-empty guard; Value/DataElement forwarders reach the same function.
3. extend-truncate (SIB/TAB): the six numeric extend_* functions agree per variant, an Empty value becomes the
   function's own variant; extend_str and truncate tables.
"""
import re

from . import facts, hirq as H, mirq as M, common as C

LEVEL_TEXT = ("Exhaustive over 16 PrimitiveValue variants x 6 conversion functions x (cast inventory in MIR incl. closures) and over "
              "the 7 extend functions and truncate. Decides that no lossy conversion construct exists and that sibling tables agree; "
              "the arithmetic of NumCast and str::parse is trusted (num-traits / std).")

PV = "dicom_core::value::primitive::PrimitiveValue"
SINGLE = ["to_int", "to_float32", "to_float64"]
MULTI = ["to_multi_int", "to_multi_float32", "to_multi_float64"]
INTS = ["U8", "I16", "U16", "I32", "U32", "I64", "U64"]
FLOATS = ["F32", "F64"]
LOSSY = {"IntToInt", "FloatToInt", "IntToFloat", "FloatToFloat"}


def classify_conv(arm_body, guard, family):
    """outcome class of a conversion arm"""
    cs = [c for c, _ in H.calls(arm_body) if c]
    names = [x[3] for x in H.walk(arm_body) if H.kind(x) == "mcall"]
    has_parse = any(c.endswith("str::<impl str>::parse") or c.endswith("str::parse") for c in cs)
    has_trim = any(H.kind(x) == "mcall" and x[3] == "trim_matches" and (H.path_of(x[5][0]) or "").endswith("whitespace_or_null") for x in H.walk(arm_body))
    has_numcast = any(c.endswith("NumCast::from") for c in cs)
    idx0 = any(H.kind(x) == "index" and H.int_lit(x[3]) == 0 for x in H.walk(arm_body))
    guarded = guard is not None and "is_empty" in H.show(guard, 5) and "Not" in H.show(guard, 5)
    b = H.peel(arm_body)
    if H.kind(b) == "call" and (H.callee(b) or "").endswith("Result::Err"):
        return "err"
    if H.kind(b) == "call" and (H.callee(b) or "").endswith("Result::Ok") and "Vec" in H.show(b, 4) and "new" in H.show(b, 4):
        return "ok-empty"
    adaptors = [n for n in names if n in ("filter", "filter_map", "flat_map", "skip", "take", "step_by", "skip_while", "take_while", "dedup", "rev", "chain", "zip")]
    shape = ""
    if family == "multi":
        if "iter" in names and "map" in names and "collect" in names and not adaptors:
            shape = ":map-collect"
        elif any((c or "").endswith("from_elem") or (c or "").endswith("into_vec") or "vec" in (H.mac(x) or "") for c, x in H.calls(arm_body)):
            shape = ":single-item-vec"
        else:
            shape = ":?" + ",".join(adaptors)
    else:
        shape = ":first-guarded" if (idx0 and guarded) else (":whole" if not idx0 else ":first-UNGUARDED")
    if has_parse:
        return ("parse" if has_trim else "parse-UNTRIMMED") + shape
    if has_numcast:
        return "numcast" + shape
    # the function's own type: the stored numbers are returned as they are
    if H.kind(b) == "call" and (H.callee(b) or "").endswith("Result::Ok") and b[3]:
        a = H.peel(b[3][0])
        if family == "single" and H.kind(a) == "index" and H.int_lit(a[3]) == 0 and guarded:
            return "identity:first-guarded"
        if family == "multi" and H.kind(a) == "mcall" and a[3] in ("to_owned", "to_vec", "clone") and H.kind(H.peel(a[4])) == "index":
            return "identity:whole"
    return "other:" + H.show(b, 3)[:60]


def extend_appends(chk, fx, rule="extend-appends"):
    """every extend_* arm keeps the existing value(s) first: it extends the existing collection in place, or rebuilds the value as
    once(existing).chain(new); the existing content is never pushed / chained / inserted *after* the new values"""
    chk.rule(rule, "PrimitiveValue::extend_*: new values are appended after the existing ones in every arm (in-place extend of the bound collection, or once(existing).chain(new))")
    n = 0
    for fn in ("extend_str", "extend_u16", "extend_i16", "extend_i32", "extend_u32", "extend_f32", "extend_f64"):
        h = fx.method("dicom_core", PV, fn)
        ms = H.matches_over(h["body"], lambda t: t == PV)
        if len(ms) != 1:
            raise facts.MissingAnchor(f"{fn}: match over PrimitiveValue")
        for p, g, b, ln in H.match_arms(ms[0]):
            binds = H.pat_bindings(p)
            if not binds:
                continue
            # ignore error arms
            if not any(H.kind(x) == "assign" or (H.kind(x) == "mcall" and x[3] in ("extend", "push", "extend_from_slice", "insert", "chain")) for x in H.walk(b)):
                continue
            n += 1
            v = H.show_pat(p)[:40]
            problems = []
            ok_evidence = []

            def mentions(node, name):
                return any(H.kind(y) == "path" and y[3] == "local" and y[2].split("::")[-1] == name for y in H.walk(node))
            for x in H.walk(b):
                if H.kind(x) != "mcall":
                    continue
                nm = x[3]
                for bn in binds:
                    recv_is = H.path_of(H.peel(x[4])) == bn
                    in_args = any(mentions(a, bn) for a in x[5])
                    if nm in ("extend", "extend_from_slice") and recv_is and not in_args:
                        ok_evidence.append(f"{bn}.{nm}(new)")
                    elif nm in ("push", "extend", "extend_from_slice", "insert") and in_args and not recv_is:
                        problems.append(f"existing `{bn}` is {nm}-ed onto another collection")
                    elif nm == "insert" and recv_is:
                        problems.append(f"`{bn}.insert(..)` places new values before existing ones")
                    elif nm == "chain":
                        recv_has = mentions(x[4], bn)
                        if in_args and not recv_has:
                            problems.append(f"existing `{bn}` is chained after the new values")
                        elif recv_has and not in_args:
                            ok_evidence.append(f"once({bn}).chain(new)")
            chk.expect(not problems and ok_evidence, rule, fn, v, "existing first, new appended", problems or ok_evidence or "no recognised append shape", loc=f"{h['loc']['f']}:{ln}")
    chk.floor(rule, "extending arms", n, 60)


def run(chk, tier):
    fx = facts.load("W")
    chk.analysed["facts"] = fx.meta
    chk.assume("num_traits::NumCast::from returns None when the value is not representable; str::parse::<T> fails on non-numeric text and on overflow")
    pvars = fx.variants(PV)

    # ---------- rule 1: cast inventory on MIR (function + its closures)
    chk.rule("no-lossy-as", "no lossy `as` cast (IntToInt/FloatToInt/IntToFloat/FloatToFloat) in the conversion functions or their closures")
    n_bodies = 0
    for fn in SINGLE + MULTI:
        path = f"{PV}::{fn}"
        f = fx.method("dicom_core", PV, fn, table="mir")
        bodies = [f] + fx.closures_of(f["path"])
        n_bodies += len(bodies)
        casts = []
        for b in bodies:
            for bb, j, s in M.assigns(b):
                r = s["r"]
                if r["rv"] == "cast" and r["kind"] in LOSSY and r["from"] != r["to"]:
                    casts.append(f"{r['from']} as {r['to']} @{b['path'].split('::')[-1]}:{s['l']}")
        chk.expect(not casts, "no-lossy-as", fn, "casts", "none", casts, loc=C.fn_loc(f))
    chk.analysed["conversion_bodies_incl_closures"] = n_bodies
    chk.floor("no-lossy-as", "MIR bodies inspected (functions + closures)", n_bodies, 30)

    # ---------- rule 2
    chk.rule("conversion-coverage", "variant -> outcome tables: text arms trim then parse; numeric arms use NumCast::from; single family takes [0] under "
             "a non-empty guard; multi family maps every item and collects, Empty -> Ok(empty); siblings agree")
    tables = {}
    for fam, fns in (("single", SINGLE), ("multi", MULTI)):
        for fn in fns:
            h = fx.method("dicom_core", PV, fn)
            ms = H.matches_over(h["body"], lambda t: t == PV)
            if len(ms) != 1:
                raise facts.MissingAnchor(f"{fn}: match over PrimitiveValue")
            arms = H.match_arms(ms[0])
            tab = {}
            for v in pvars:
                got = "no-arm"
                # first arm whose pattern names the variant (guarded or not), else the wildcard
                for (p, g, b, ln) in arms:
                    heads = [H.pat_head(a) for a in H.pat_alts(p)]
                    if any(hd[0] == "variant" and hd[1] == f"{PV}::{v}" for hd in heads):
                        got = classify_conv(b, g, fam)
                        break
                else:
                    for (p, g, b, ln) in arms:
                        if any(H.pat_head(a)[0] == "wild" for a in H.pat_alts(p)):
                            got = classify_conv(b, g, fam)
                            break
                tab[v] = got
            tables[fn] = tab
            # guarded arms need the wildcard to be an error (so that an empty collection is an error, not a panic)
            wild = [classify_conv(b, g, fam) for (p, g, b, ln) in arms if any(H.pat_head(a)[0] == "wild" for a in H.pat_alts(p))]
            chk.expect(wild == ["err"], "conversion-coverage", fn, "fallback-arm", "_ => Err(..)", wild, loc=C.fn_loc(h))
    chk.sample({"rule": "conversion-coverage", "tables": tables})
    want_single = {"Str": "parse:whole", "Strs": "parse:first-guarded"}
    want_multi = {"Empty": "ok-empty", "Str": "parse:single-item-vec", "Strs": "parse:map-collect"}
    for fn in SINGLE:
        t = tables[fn]
        for v, w in want_single.items():
            chk.expect(t[v] == w, "conversion-coverage", fn, v, w, t[v])
        for v in INTS:
            chk.expect(t[v] == "numcast:first-guarded", "conversion-coverage", fn, v, "numcast:first-guarded", t[v])
        for v in FLOATS:
            own_ty = {"to_float32": "F32", "to_float64": "F64"}.get(fn)
            w = "err" if fn == "to_int" else ("identity:first-guarded" if v == own_ty else "numcast:first-guarded")
            chk.expect(t[v] == w, "conversion-coverage", fn, v, w, t[v])
        for v in ("Empty", "Date", "DateTime", "Time", "Tags"):
            chk.expect(t[v] == "err", "conversion-coverage", fn, v, "err", t[v])
    for fn in MULTI:
        t = tables[fn]
        for v, w in want_multi.items():
            chk.expect(t[v] == w, "conversion-coverage", fn, v, w, t[v])
        for v in INTS:
            chk.expect(t[v] == "numcast:map-collect", "conversion-coverage", fn, v, "numcast:map-collect", t[v])
        for v in FLOATS:
            own_ty = {"to_multi_float32": "F32", "to_multi_float64": "F64"}.get(fn)
            w = "err" if fn == "to_multi_int" else ("identity:whole" if v == own_ty else "numcast:map-collect")
            chk.expect(t[v] == w, "conversion-coverage", fn, v, w, t[v])
        for v in ("Date", "DateTime", "Time", "Tags"):
            chk.expect(t[v] == "err", "conversion-coverage", fn, v, "err", t[v])
    # sibling agreement (float families must be identical; int family equal on non-float variants)
    for a_, b_ in (("to_float32", "to_float64"), ("to_multi_float32", "to_multi_float64")):
        diff = {v: (tables[a_][v], tables[b_][v]) for v in pvars if v not in FLOATS and tables[a_][v] != tables[b_][v]}
        chk.expect(not diff, "conversion-coverage", f"{a_}~{b_}", "sibling-agreement", "equal tables outside their own float types", diff)
    diff = {v: (tables["to_multi_int"][v], tables["to_multi_float64"][v]) for v in pvars if v not in FLOATS and tables["to_multi_int"][v] != tables["to_multi_float64"][v]}
    chk.expect(not diff, "conversion-coverage", "to_multi_int~to_multi_float64", "sibling-agreement", "equal tables outside float variants", diff)
    # forwarders
    n_fw = 0
    for ty, crate_path in (("dicom_core::value::Value", "Value"), ("dicom_core::header::DataElement", "DataElement")):
        for fn in SINGLE + MULTI:
            try:
                h = fx.method("dicom_core", ty, fn)
            except facts.MissingAnchor:
                continue
            n_fw += 1
            cs = [c for c, _ in H.calls(h["body"]) if c]
            target = [c for c in cs if c.endswith(f"::{fn}") or c.endswith(f"::{fn}::<T>")]
            chk.expect(len(target) >= 1 and not any(c.split("::")[-1] in SINGLE + MULTI and c.split("::")[-1] != fn for c in cs), "conversion-coverage",
                       f"{crate_path}::{fn}", "forwards-to-same-name", f"calls ..::{fn}", cs, loc=C.fn_loc(h))
    chk.floor("conversion-coverage", "Value/DataElement forwarders", n_fw, 10)

    # ---------- rule 3
    chk.rule("extend-truncate", "extend_{u16,i16,i32,u32,f32,f64} agree per variant (Empty becomes the function's own variant; text values get text; "
             "numeric values are extended; Tags/Date/DateTime/Time are an error); extend_str and truncate tables")
    own = {"extend_u16": "U16", "extend_i16": "I16", "extend_i32": "I32", "extend_u32": "U32", "extend_f32": "F32", "extend_f64": "F64", "extend_str": "Strs"}

    def classify_ext(b):
        become = None
        for x in H.walk(b):
            if H.kind(x) == "assign" and H.show(x[2], 3) in ("Deref(self)", "*self"):
                m = re.search(r"PrimitiveValue::(\w+)", H.show(x[3], 3))
                become = m.group(1) if m else "?"
        names = [x[3] for x in H.walk(b) if H.kind(x) == "mcall"]
        if become:
            return "become:" + become
        if "fail" in names or "build" in names and any((c or "").endswith("Result::Err") for c, _ in H.calls(b)):
            return "error"
        if "extend" in names or "push" in names or "extend_from_slice" in names:
            return "extend"
        return "other"

    ext_tables = {}
    for fn in own:
        h = fx.method("dicom_core", PV, fn)
        ms = H.matches_over(h["body"], lambda t: t == PV)
        if len(ms) != 1:
            raise facts.MissingAnchor(f"{fn}: match over PrimitiveValue")
        tab, arms = H.enum_table(ms[0], pvars, PV)
        ext_tables[fn] = {v: (classify_ext(arms[tab[v][0]][2]) if tab[v] else "no-arm") for v in pvars}
    chk.sample({"rule": "extend-truncate", "tables": ext_tables})
    for fn, t in ext_tables.items():
        chk.expect(t["Empty"] == "become:" + own[fn], "extend-truncate", fn, "Empty", "become:" + own[fn], t["Empty"])
        chk.expect(t["Strs"] == "extend" and t["Str"] == "become:Strs", "extend-truncate", fn, "text", "Strs extended, Str becomes Strs", (t["Strs"], t["Str"]))
        for v in ("Tags", "Date", "DateTime", "Time"):
            chk.expect(t[v] == "error", "extend-truncate", fn, v, "error", t[v])
        for v in INTS + FLOATS:
            w = "error" if fn == "extend_str" else "extend"
            chk.expect(t[v] == w, "extend-truncate", fn, v, w, t[v])
    h = fx.method("dicom_core", PV, "truncate")
    ms = H.matches_over(h["body"], lambda t: t == PV)
    if len(ms) != 1:
        raise facts.MissingAnchor("truncate: match over PrimitiveValue")
    tab, arms = H.enum_table(ms[0], pvars, PV)
    for v in pvars:
        b = arms[tab[v][0]][2] if tab[v] else None
        calls = [x for x in H.walk(b) if H.kind(x) == "mcall" and x[3] == "truncate" and H.path_of(x[5][0]) == "limit"] if b is not None else []
        if v in ("Empty",):
            continue
        if v == "Str":
            # a single string is one item: kept unless limit == 0
            ok = b is not None and "limit" in H.show(b, 6) and "Empty" in H.show(b, 8)
            chk.expect(ok, "extend-truncate", "truncate", v, "depends on limit (0 -> Empty)", H.show(b, 5)[:120] if b is not None else None)
        else:
            chk.expect(len(calls) == 1, "extend-truncate", "truncate", v, "l.truncate(limit)", len(calls), loc=C.fn_loc(h))
    extend_appends(chk, fx)
    # the object-level Push* operations must hand the number over unconverted (exactness of PushU32(3_000_000_000) and the like)
    from . import c13
    c13.push_plumbing(chk, fx)
    from . import shared
    shared.value_truncate(chk, fx, "value-truncate")
    # the single-value converters convert the FIRST value: every constant index into a variant's payload is 0, and it sits in an arm
    # whose guard says the payload is not empty (`!s.is_empty()`, not the reverse)
    chk.rule("first-value", "PrimitiveValue single-value converters (to_int, to_float32/64, to_date/time/datetime and their naive / range forms, string): constant indexes "
             "into the payload are [0], under an arm guard `!<payload>.is_empty()`")
    n_idx = 0
    for hh in fx.crate("dicom_core")["hir"]:
        m = re.fullmatch(r"dicom_core::value::primitive::PrimitiveValue::(to_int|to_float32|to_float64|to_date|to_time|to_datetime|to_naive_date|to_naive_time|to_date_range|to_time_range|"
                         r"to_datetime_range|to_datetime_range_custom|string|to_person_name)", hh["path"])
        if not m:
            continue
        for mm in H.walk(hh["body"]):
            if H.kind(mm) != "match":
                continue
            for p, g, b, ln in H.match_arms(mm):
                binds = set(H.pat_bindings(p))
                idx = [H.int_lit(y[3]) if H.int_lit(y[3]) is not None else H.show(y[3], 4) for y in H.walk(b)
                       if H.kind(y) == "index" and (H.int_lit(y[3]) is not None or H.path_of(H.peel(y[2])) in binds) and "Range" not in H.show(y[3], 2)]
                if not idx:
                    continue
                n_idx += 1
                gt = H.show(g, 5) if g is not None else ""
                ok = all(i == 0 for i in idx) and re.fullmatch(r"Not\(\w+\.is_empty\(\)\)", gt) is not None
                chk.expect(ok, "first-value", m.group(1), f"{H.show_pat(p)[:40]}", "index [0] under guard !payload.is_empty()", {"indexes": idx, "guard": gt}, loc=f"{hh['loc']['f']}:{ln}")
    chk.floor("first-value", "arms indexing the payload", n_idx, 34)
    chk.undecided.append("numeric exactness inside NumCast::from / str::parse (trusted); extend_* numeric casts are documented as lossy and out of the property")
