"""Result collection, known findings, evidence files."""
import json
import os
import re
import time

VERIF = os.path.dirname(os.path.dirname(os.path.abspath(__file__)))
KNOWN = os.path.join(VERIF, "known_findings.txt")


def load_known():
    """finding: property=Cxx key=<rule>/<function>/<instance> <text>   (suppresses exactly that key)
       fixed:   property=Cxx <commit> key=... <text>                   (suppresses nothing)"""
    out = {}
    if not os.path.exists(KNOWN):
        return out
    for line in open(KNOWN):
        line = line.strip()
        if not line.startswith("finding:"):
            continue
        m = re.match(r"finding:\s+property=(C\d+)\s+key=(\S+)\s*(.*)", line)
        if m:
            out[(m.group(1), m.group(2))] = m.group(3)
    return out


class Check:
    def __init__(self, pid, tier):
        self.pid = pid
        self.tier = tier
        self.t0 = time.time()
        self.instances = []      # evaluated rule instances
        self.violations = []     # not known
        self.known_hit = []
        self.rules = {}          # rule -> description
        self.assumptions = []
        self.notes = []
        self.analysed = {}       # free-form: what was analysed
        self.undecided = []
        self.known = load_known()
        self.samples = []

    # -- registration
    def rule(self, name, text):
        self.rules[name] = text

    def assume(self, text):
        if text not in self.assumptions:
            self.assumptions.append(text)

    def note(self, text):
        self.notes.append(text)

    def sample(self, obj):
        if len(self.samples) < 40:
            self.samples.append(obj)

    # -- results
    def ok(self, rule, where, instance, detail=None):
        self.instances.append({"rule": rule, "fn": where, "instance": instance, "status": "ok", "detail": detail})

    def bad(self, rule, where, instance, expected, found, loc=None):
        key = f"{rule}/{where}/{instance}".replace(" ", "_")
        rec = {"rule": rule, "fn": where, "instance": instance, "status": "violation", "key": key,
               "expected": expected, "found": found, "loc": loc}
        if (self.pid, key) in self.known:
            rec["status"] = "known-finding"
            rec["known_text"] = self.known[(self.pid, key)]
            self.known_hit.append(rec)
        else:
            self.violations.append(rec)
        self.instances.append(rec)

    def expect(self, cond, rule, where, instance, expected, found, loc=None, detail=None):
        if cond:
            self.ok(rule, where, instance, detail if detail is not None else found)
        else:
            self.bad(rule, where, instance, expected, found, loc)
        return cond

    def floor(self, rule, what, count, floor):
        """Fail closed when a rule matches fewer sites than were confirmed by hand."""
        self.expect(count >= floor, rule, "<floor>", what, f">= {floor} instances", f"{count} instances")

    # -- output
    def finish(self, level_text=None):
        wall = time.time() - self.t0
        evid_path = os.path.join(os.environ.get("VERIF_EVIDENCE_DIR") or os.path.join(VERIF, "evidence"), f"{self.pid}.json")
        os.makedirs(os.path.dirname(evid_path), exist_ok=True)
        keys = set()
        for i in self.instances:
            keys.add((i["rule"], i["fn"], str(i["instance"])))
        by_rule = {}
        for i in self.instances:
            r = by_rule.setdefault(i["rule"], {"instances": 0, "ok": 0, "violations": 0, "known_findings": 0})
            r["instances"] += 1
            if i["status"] == "ok":
                r["ok"] += 1
            elif i["status"] == "violation":
                r["violations"] += 1
            else:
                r["known_findings"] += 1
        samples = self.samples[:]
        if not samples:
            samples = [{k: i.get(k) for k in ("rule", "fn", "instance", "detail")} for i in self.instances[:12]]
        n_ok = sum(1 for i in self.instances if i["status"] == "ok")
        ev = {
            "property_id": self.pid,
            "tier": self.tier,
            "seed": int(os.environ.get("VERIF_SEED", "0") or 0),
            "level": "other",
            "coverage": {
                "evaluations": len(self.instances),
                "distinct_nontrivial": len(keys),
                "rule": "static analysis of /repo's current source (rustc HIR/MIR facts; nothing executed). One evaluation = "
                        "one rule instance (a table row, call site, path obligation or sibling comparison) decided from the "
                        "facts; distinct = distinct (rule, function, instance) keys; floors fail the check when a rule matches "
                        "fewer sites than were confirmed by hand.",
                "obligations": len(self.instances),
                "discharged": n_ok,
                "exhaustive": True,
                "samples": samples,
                "rules": self.rules,
                "per_rule": by_rule,
                "analysed": self.analysed,
                "explanation": level_text or "",
                "undecided_part_of_property": self.undecided,
                "known_findings_present": [{"key": k["key"], "text": k.get("known_text")} for k in self.known_hit],
                "violation_details": self.violations[:50],
                "instances": [
                    {k: v for k, v in i.items() if k in ("rule", "fn", "instance", "status", "detail", "expected", "found", "loc")}
                    for i in self.instances[:3000]
                ],
            },
            "assumptions": self.assumptions,
            "notes": self.notes,
            "wall_s": round(wall, 2),
            "violations": len(self.violations),
        }
        with open(evid_path, "w") as fh:
            json.dump(ev, fh, indent=1, default=str)
        for r, st in sorted(by_rule.items()):
            print(f"[{self.pid}] rule {r}: {st['instances']} instances, {st['ok']} ok, "
                  f"{st['known_findings']} known findings, {st['violations']} violations")
        for k in self.known_hit:
            print(f"KNOWN-FINDING: property={self.pid} key={k['key']} {k.get('known_text','')}")
        for v in self.violations:
            loc = v.get("loc") or ""
            print(f"  {loc}  rule={v['rule']}  fn={v['fn']}  instance={v['instance']}\n"
                  f"      expected: {v['expected']}\n      found:    {v['found']}\n      key: {v['key']}")
        if self.violations:
            print(f"VIOLATION property={self.pid} replay={evid_path}")
            return 1
        print(f"[{self.pid}] OK: {len(self.instances)} rule instances evaluated in {wall:.1f}s (tier {self.tier})")
        return 0
