"""C01 — data set write-then-read round trip in every writable transfer syntax (structural part).

Equality of arbitrary values after a round trip is a runtime fact and is not decided. Decided here are necessary structural conditions:

1. ts-codec-dispatch (TAB+SIB): TransferSyntax::decoder_for / encoder_for map the same (byte order, explicit VR) keys to the sibling
   decoder / encoder of one encoding and to None otherwise.
2. vr-value-reader (TAB): read_value and read_value_preserved send each of the 34 VRs to a helper whose kind (text split on backslash, single
   text, tag, bytes, N-byte numbers), unit width and result variant equal refs/vr.tsv; inside each numeric helper the element count shift,
   the basic decoder call and the PrimitiveValue variant agree on the unit width. The writer side (variant -> basic encoder width) is C04's
   unit-width rule; together they make width(reader) == width(writer) per VR.
3. dataset-adapter-dispatch (PAIR): every workspace function that builds a data set reader/writer from a &TransferSyntax decides on
   `ts.codec()`: data-set-level compression (Deflated) goes through adapt_reader / adapt_writer, or is refused with an error.
4. token-pairing (TAB): the IntoTokens state machines emit balanced SequenceStart..SequenceEnd, ItemStart..ItemEnd,
   PixelSequenceStart..SequenceEnd and ElementHeader..PrimitiveValue brackets on every path from their start state to their end state.
5. value-separator (SIB): multi-valued text is written with a backslash between values *by position* (n values -> n-1 separators,
   whatever the values are) at both writer sites, and every reader splits on backslash without dropping empty parts.
"""
import re

from . import facts, hirq as H, common as C

LEVEL_TEXT = ("2x4 codec dispatch rows, 2x34 VR->helper rows plus 12 helper width triples, every reader/writer construction from a transfer syntax "
              "(8 sites), 4 token state machines (all paths start->end, brackets balanced) and 2 separator writers / 9 splitters are checked. "
              "Decides the structure that the round trip depends on; equality of concrete values is not decided.")

TS = "dicom_encoding::transfer_syntax"
SD = "dicom_parser::stateful::decode"
PD = "dicom_parser::dataset"

# helper -> (kind, unit, variant)   [frozen from reading; each is re-derived from the helper body below where it is numeric]
HELPER_KIND = {
    "read_value_strs": ("text-multi", 0), "read_value_cs": ("text-multi", 0), "read_value_str": ("text-single", 0),
    "read_value_da": ("text-multi", 0), "read_value_dt": ("text-multi", 0), "read_value_tm": ("text-multi", 0),
    "read_value_ds": ("text-multi", 0), "read_value_is": ("text-multi", 0),
    "read_value_tag": ("tag", 4), "read_value_ob": ("bytes", 1),
    "read_value_us": ("num", 2), "read_value_ss": ("num", 2), "read_value_ul": ("num", 4), "read_value_sl": ("num", 4),
    "read_value_uv": ("num", 8), "read_value_sv": ("num", 8), "read_value_fl": ("num", 4), "read_value_od": ("num", 8),
}
NUM_HELPERS = {  # helper: (decoder call, shift, variant, signed?)
    "read_value_us": ("decode_us_into", 1, "U16"), "read_value_ss": ("decode_ss_into", 1, "I16"),
    "read_value_ul": ("decode_ul_into", 2, "U32"), "read_value_sl": ("decode_sl_into", 2, "I32"),
    "read_value_uv": ("decode_uv_into", 3, "U64"), "read_value_sv": ("decode_sv_into", 3, "I64"),
    "read_value_fl": ("decode_fl_into", 2, "F32"), "read_value_od": ("decode_fd_into", 3, "F64"),
}
# which VRs are signed / float, from PS3.5 6.2 (for the variant check)
VR_VARIANT = {"US": "U16", "OW": "U16", "SS": "I16", "UL": "U32", "OL": "U32", "SL": "I32", "UV": "U64", "OV": "U64", "SV": "I64",
              "FL": "F32", "OF": "F32", "FD": "F64", "OD": "F64"}


def ty_of_default(n):
    """type produced by `Box::<T>::default()` / `T::default()` / `EncoderFor::new(T::default())`: searched in callee paths"""
    out = []
    for x in H.walk(n):
        if H.kind(x) == "call":
            c = H.callee(x) or ""
            m = re.search(r"(dicom_encoding::(?:decode|encode)::\w+::\w+)", c)
            if m and m.group(1).split("::")[-1][0].isupper():
                out.append(m.group(1))
            # the type may only appear as the call's result type
            if x[-1] and isinstance(x[-1], str):
                m = re.search(r"(dicom_encoding::(?:decode|encode)::\w+::\w+)", x[-1])
                if m and m.group(1).split("::")[-1][0].isupper():
                    out.append(m.group(1))
    return sorted(set(out))


def run(chk, tier):
    fx = facts.load("W")
    chk.analysed["facts"] = fx.meta
    # ------------------------------------------------------------------ 1
    chk.rule("ts-codec-dispatch", "decoder_for and encoder_for are total over (byte order, explicit VR) with sibling codecs per key and None for (Big, implicit)")
    want = {("Little", "false"): "implicit_le::ImplicitVRLittleEndian", ("Little", "true"): "explicit_le::ExplicitVRLittleEndian", ("Big", "true"): "explicit_be::ExplicitVRBigEndian"}
    for nm, suffix in (("decoder_for", "Decoder"), ("encoder_for", "Encoder")):
        hh = fx.method("dicom_encoding", f"{TS}::TransferSyntax", nm)
        ms = [m for m in H.walk(hh["body"]) if H.kind(m) == "match" and "(self.byte_order, self.explicit_vr)" == H.show(m[2], 4)]
        if len(ms) != 1:
            raise facts.MissingAnchor(f"{nm}: match over (byte_order, explicit_vr)")
        rows = {}
        for p, g, b, ln in H.match_arms(ms[0]):
            t = H.show_pat(p)
            mm = re.match(r"\((?:\w+::)*(Little|Big), (true|false)\)$", t)
            if mm:
                rows[(mm.group(1), mm.group(2))] = (ty_of_default(b), ln)
            elif t == "_":
                rows["_"] = (H.show(H.peel(b), 3), ln)
            else:
                rows[t] = (None, ln)
        for k, w in want.items():
            got = rows.get(k, (None, None))
            side = "decode" if suffix == "Decoder" else "encode"
            exp = f"dicom_encoding::{side}::{w}{suffix}"
            chk.expect(got[0] is not None and exp in got[0] and all(x == exp or x.endswith("EncoderFor") for x in got[0]), "ts-codec-dispatch", nm, f"{k[0]}/{'explicit' if k[1] == 'true' else 'implicit'}", exp, got[0], loc=f"{hh['loc']['f']}:{got[1]}")
        chk.expect(rows.get("_", (None,))[0] == "core::option::Option::None", "ts-codec-dispatch", nm, "otherwise", "None", rows.get("_"))
        chk.expect(set(rows) == set(want) | {"_"}, "ts-codec-dispatch", nm, "keys", sorted(map(str, set(want) | {"_"})), sorted(map(str, rows)))

    # ------------------------------------------------------------------ 2
    chk.rule("vr-value-reader", "value readers: VR -> helper agrees with refs/vr.tsv in kind and unit; numeric helpers agree internally (count shift, decoder call, variant)")
    vr_ref = C.vr_ref()
    variants = sorted(vr_ref)
    VRP = "dicom_core::header::VR"
    for nm in ("read_value", "read_value_preserved"):
        hs = fx.find_hir("dicom_parser", lambda p, nm=nm: "StatefulDecoder<D, S, BD>" in p and p.endswith("StatefulDecode>::" + nm))
        if len(hs) != 1:
            raise facts.MissingAnchor(f"StatefulDecoder::{nm}")
        ms = [m for m in H.walk(hs[0]["body"]) if H.kind(m) == "match" and m[3].endswith("header::VR")]
        if len(ms) != 1:
            raise facts.MissingAnchor(f"{nm}: match over VR")
        table, arms = H.enum_table(ms[0], variants, VRP)
        for vr in variants:
            idx = table[vr]
            ref = vr_ref[vr]
            if len(idx) != 1:
                chk.bad("vr-value-reader", nm, vr, "exactly one arm", idx)
                continue
            p, g, b, ln = arms[idx[0]]
            cs = [x[3] for x in H.walk(b) if H.kind(x) == "mcall" and H.path_of(x[4]) == "self"]
            fails = [x for x in H.walk(b) if H.kind(x) == "mcall" and x[3] == "fail"]
            loc = f"{hs[0]['loc']['f']}:{ln}"
            if ref["kind"] == "seq":
                chk.expect(not cs and len(fails) == 1, "vr-value-reader", nm, vr, "error (not a primitive value)", cs or "fail", loc=loc)
                continue
            if len(cs) != 1 or cs[0] not in HELPER_KIND:
                chk.bad("vr-value-reader", nm, vr, "one known helper", cs, loc=loc)
                continue
            kind, unit = HELPER_KIND[cs[0]]
            if ref["kind"] == "text":
                exp_kind = "text-single" if ref["single"] == "yes" else "text-multi"
                ok = kind == exp_kind
                # the interpreting reader parses DA/DT/TM/DS/IS with its own helper; the preserving reader keeps text
                if nm == "read_value_preserved":
                    ok = ok and cs[0] in ("read_value_strs", "read_value_cs", "read_value_str")
                if vr == "CS":
                    ok = ok and cs[0] == "read_value_cs"
                chk.expect(ok, "vr-value-reader", nm, vr, exp_kind, f"{cs[0]} ({kind})", loc=loc)
            elif ref["kind"] == "tag":
                chk.expect(kind == "tag", "vr-value-reader", nm, vr, "tag", f"{cs[0]} ({kind})", loc=loc)
            elif ref["kind"] == "bytes":
                chk.expect(kind == "bytes", "vr-value-reader", nm, vr, "bytes", f"{cs[0]} ({kind})", loc=loc)
            else:
                okv = NUM_HELPERS.get(cs[0], (None, None, None))[2] == VR_VARIANT.get(vr)
                chk.expect(kind == "num" and unit == int(ref["unit"]) and okv, "vr-value-reader", nm, vr, f"num x{ref['unit']} -> {VR_VARIANT.get(vr)}", f"{cs[0]} ({kind} x{unit} -> {NUM_HELPERS.get(cs[0], (0, 0, '?'))[2]})", loc=loc)
    # helper internals
    n_h = 0
    for helper, (dec, shift, variant) in NUM_HELPERS.items():
        hh = fx.method("dicom_parser", f"{SD}::StatefulDecoder", helper)
        decs = [x[3] for x in H.walk(hh["body"]) if H.kind(x) == "mcall" and re.fullmatch(r"decode_\w+_into", x[3])]
        shifts = [H.int_lit(x[4]) for x in H.walk(hh["body"]) if H.kind(x) == "bin" and x[2] == "Shr" and H.path_of(x[3]) == "len"]
        outs = [(H.callee(x) or "").split("::")[-1] for x in H.walk(hh["body"]) if H.kind(x) == "call" and "PrimitiveValue::" in (H.callee(x) or "")]
        chk.expect(decs == [dec] and shifts == [shift] and outs == [variant], "vr-value-reader", helper, "count-shift/decoder/variant", [dec, shift, variant], [decs, shifts, outs], loc=C.fn_loc(hh))
        n_h += 1
    for helper, splitting in (("read_value_strs", True), ("read_value_str", False)):
        hh = fx.method("dicom_parser", f"{SD}::StatefulDecoder", helper)
        sp = [x for x in H.walk(hh["body"]) if H.kind(x) == "mcall" and x[3] in ("split", "splitn", "split_terminator")]
        outs = sorted({(H.callee(x) or "").split("::")[-1] for x in H.walk(hh["body"]) if H.kind(x) == "call" and "PrimitiveValue::" in (H.callee(x) or "")})
        chk.expect(bool(sp) == splitting and outs == (["Strs"] if splitting else ["Str"]), "vr-value-reader", helper, "split/variant", {"splits": splitting, "variant": "Strs" if splitting else "Str"}, {"splits": len(sp), "variant": outs}, loc=C.fn_loc(hh))
        n_h += 1
    for helper, variant in (("read_value_tag", "Tags"), ("read_value_ob", "U8")):
        hh = fx.method("dicom_parser", f"{SD}::StatefulDecoder", helper)
        outs = [(H.callee(x) or "").split("::")[-1] for x in H.walk(hh["body"]) if H.kind(x) == "call" and "PrimitiveValue::" in (H.callee(x) or "")]
        chk.expect(outs == [variant], "vr-value-reader", helper, "variant", variant, outs, loc=C.fn_loc(hh))
        n_h += 1
    chk.floor("vr-value-reader", "helpers checked", n_h, 12)

    # ------------------------------------------------------------------ 3
    chk.rule("dataset-adapter-dispatch", "a data set reader/writer is built from a &TransferSyntax only in a function that decides on ts.codec(): Dataset(Some(adapter)) -> adapt_reader/adapt_writer (or an error), Dataset(None) never silently used")
    CTORS = re.compile(r"dataset::(write::DataSetWriter|read::DataSetReader|lazy_read::LazyDataSetReader)::<.*>::(with_ts\w*|new_with_ts\w*)$")
    # functions that take the decision for their callees (audited): name -> reason
    DELEGATED = {
        "dicom_object::collector::CollectionSource::<S>::set_parser_with_ts": "collector API reads the data set lazily from the raw source; data-set-level compression is not supported by the collector (the parser constructor refuses transfer syntaxes without a data set decoder) — outside C01's write/read APIs",
    }
    n_sites = 0
    for crate in ("dicom_object", "dicom_pixeldata", "dicom_dump", "dicom_json", "dicom_ul"):
        try:
            fx.crate(crate)
        except Exception:
            continue
        for h in fx.find_hir(crate, lambda p: True):
            if h.get("is_test"):
                continue
            sites = [x for x in H.walk(h["body"]) if H.kind(x) == "call" and CTORS.search(H.callee(x) or "")]
            if not sites or "::tests::" in h["path"]:
                continue
            n_sites += len(sites)
            aud = [v for k, v in DELEGATED.items() if facts.Facts.strip_generics(k) == facts.Facts.strip_generics(h["path"])]
            if aud:
                chk.ok("dataset-adapter-dispatch", h["path"], "audited", aud[0])
                continue
            # find Codec::Dataset(Some(..)) patterns in this function
            some_arms = []
            none_arms = []
            for x in H.walk(h["body"]):
                if H.kind(x) == "match" and "ts.codec()" in H.show(x[2], 4):
                    for p, g, b, ln in H.match_arms(x):
                        t = H.show_pat(p)
                        if t.startswith("Dataset(Some("):
                            some_arms.append(b)
                        elif t.startswith("Dataset(None"):
                            none_arms.append(b)
                if H.kind(x) == "if" and H.kind(x[2]) == "let" and "codec()" in H.show(x[2][3], 4):
                    t = H.show_pat(x[2][2])
                    if t.startswith("Dataset(Some("):
                        some_arms.append(x[3])
            ok_some = bool(some_arms) and all(any(H.kind(y) == "mcall" and y[3] in ("adapt_writer", "adapt_reader", "fail") for y in H.walk(b)) for b in some_arms)
            ok_none = all(any(H.kind(y) == "mcall" and y[3] == "fail" for y in H.walk(b)) for b in none_arms)
            chk.expect(ok_some and ok_none, "dataset-adapter-dispatch", h["path"], "codec-decision",
                       "Codec::Dataset(Some(a)) branch adapts (or refuses); Dataset(None) branch refuses", {"some_branches": len(some_arms), "none_branches": len(none_arms), "ok_some": ok_some, "ok_none": ok_none}, loc=C.fn_loc(h))
    chk.floor("dataset-adapter-dispatch", "reader/writer constructions from a transfer syntax", n_sites, 8)

    # ------------------------------------------------------------------ 4
    chk.rule("token-pairing", "token state machines: on every path start -> end the emitted tokens are balanced (SequenceStart/PixelSequenceStart..SequenceEnd, ItemStart..ItemEnd, ElementHeader..PrimitiveValue)")
    OPEN = {"SequenceStart": "SequenceEnd", "PixelSequenceStart": "SequenceEnd", "ItemStart": "ItemEnd", "ElementHeader": "PrimitiveValue"}
    CLOSE = set(OPEN.values())
    machines = (("DataElementTokens", "Start", "End"), ("ItemTokens", "Start", "End"), ("ItemValueTokens", "Start", "End"), ("OffsetTableItemTokens", "Start", "End"))
    for mname, s0, s_end in machines:
        hs = fx.find_hir("dicom_parser", lambda p, mname=mname: re.search(rf"dataset::{mname}<[^>]*> as core::iter::traits::iterator::Iterator>::next$", p) is not None)
        if len(hs) != 1:
            raise facts.MissingAnchor(f"{mname}::next ({len(hs)})")
        h = hs[0]
        enum_p = f"{PD}::{mname}"
        ms = [m for m in H.walk(h["body"]) if H.kind(m) == "match" and H.path_of(H.peel(m[2])) == "self"]
        if len(ms) != 1:
            raise facts.MissingAnchor(f"{mname}::next: match self")
        trans = []  # (state, tokens (list; 'inner' for delegated stream; [] for none), next state or None(stop))

        def state_of(n):
            for x in H.walk(n):
                pth = None
                if H.kind(x) == "call":
                    pth = H.callee(x)
                elif H.kind(x) in ("struct", "path"):
                    pth = x[2]
                if pth and pth.startswith(enum_p + "::"):
                    return pth[len(enum_p) + 2:]
            return None

        def states_of(n):
            out = []
            for x in H.walk(n):
                pth = H.callee(x) if H.kind(x) == "call" else (x[2] if H.kind(x) in ("struct", "path") else None)
                if pth and pth.startswith(enum_p + "::") and pth[len(enum_p) + 2:] not in out:
                    out.append(pth[len(enum_p) + 2:])
            return out

        def tokens_of(n):
            out = []
            for x in H.walk(n):
                pth = None
                if H.kind(x) == "call":
                    pth = H.callee(x)
                elif H.kind(x) in ("struct", "path"):
                    pth = x[2]
                if pth and pth.startswith(f"{PD}::DataToken::"):
                    out.append(pth.split("::")[-1])
            return sorted(set(out))
        for p, g, b, ln in H.match_arms(ms[0]):
            hd = H.pat_head(H.pat_alts(p)[0])
            st = hd[1].split("::")[-1] if hd[0] == "variant" else "?"
            # `token` bound from DataToken::from(header) and matched: arms name the token kind
            tuples = [x for x in H.walk(b) if H.kind(x) == "tuple" and len(x[2]) == 2]
            for t in tuples:
                a, c = t[2]
                sa, sc = state_of(a), state_of(c)
                if sa is None and sc is None:
                    continue
                out_e, nxt = (c, sa) if sa is not None and not tokens_of(a) else (a, sc)
                toks = tokens_of(out_e)
                if not toks and H.show(out_e, 3).startswith("core::option::Option::Some(token"):
                    # `token` is a local: either bound by `let token = DataToken::X(..)` in this state arm, or the scrutinee of an
                    # enclosing `match token {..}` whose arm pattern names the kind
                    for y in H.walk(b):
                        if H.kind(y) == "slet" and H.show_pat(y[2]) == "token" and y[3] is not None:
                            toks = tokens_of(y[3]) or toks
                    if not toks:
                        for y, anc in H.walk_anc(b):
                            if y is t:
                                for a in reversed(anc):
                                    if isinstance(a, tuple) and a and a[0] == "arm" and H.path_of(H.peel(a[1][2])) == "token":
                                        pt = H.pat_head(H.pat_alts(a[1][4][a[2]][0])[0])
                                        if pt[0] == "variant":
                                            toks = [pt[1].split("::")[-1]]
                                        break
                for nx in states_of(c if out_e is a else a) or [nxt]:
                    trans.append((st, toks, nx, t[1]))
            # early returns
            for x in H.walk(b):
                if H.kind(x) == "ret":
                    txt = H.show(x, 5)
                    if "Some(token)" in txt:
                        trans.append((st, "inner", st, x[1]))
                    elif "self.next()" in txt:
                        asg = [state_of(y[3]) for y in H.walk(b) if H.kind(y) == "assign" and H.show(y[2], 3) in ("Deref(self)", "*self")]
                        trans.append((st, [], asg[0] if asg and asg[0] else st, x[1]))
                    elif txt.strip().endswith("None") or "Option::None" in txt:
                        trans.append((st, [], None, x[1]))
        chk.sample({"rule": "token-pairing", "machine": mname, "transitions": [(a, b2, c) for a, b2, c, _ in trans]})
        states = {t[0] for t in trans}
        chk.expect(s0 in states and s_end in states, "token-pairing", mname, "states", f"{s0}..{s_end} present", sorted(states), loc=C.fn_loc(h))
        # explore all simple paths
        bad = []
        n_paths = 0

        def dfs(st, stack, seen, path):
            nonlocal n_paths
            for (s, toks, nxt, ln) in trans:
                if s != st or toks == "inner":
                    continue
                stk = list(stack)
                okp = True
                for tk in toks:
                    if tk in OPEN:
                        stk.append(OPEN[tk])
                    elif tk in CLOSE:
                        if not stk or stk[-1] != tk:
                            okp = False
                        else:
                            stk.pop()
                if not okp:
                    bad.append((path + [(s, toks, nxt)], "closer without matching opener"))
                    continue
                if nxt is None or nxt == s_end:
                    n_paths += 1
                    if stk:
                        bad.append((path + [(s, toks, nxt)], f"ends with open {stk}"))
                    continue
                if (nxt, tuple(stk)) in seen:
                    continue
                dfs(nxt, stk, seen | {(nxt, tuple(stk))}, path + [(s, toks, nxt)])
        dfs(s0, [], {(s0, ())}, [])
        chk.expect(not bad and n_paths >= 1, "token-pairing", mname, "balanced-paths", "all start->end paths balanced", {"paths": n_paths, "bad": bad[:3]}, loc=C.fn_loc(h))

    # ------------------------------------------------------------------ 5
    chk.rule("value-separator", "writers put a backslash between values by position (guard mentions only the enumerate index and the collection length); readers split on backslash and keep empty parts")
    writers = [("dicom_parser", f"dicom_parser::stateful::encode::StatefulEncoder", "encode_texts_element", "texts"),
               ("dicom_encoding", None, "dicom_encoding::encode::encode_collection_delimited", "col")]
    for crate, ty, nm, coll in writers:
        hh = fx.method(crate, ty, nm) if ty else fx.hirfn(nm)
        seps = []
        for x, anc in H.walk_anc(hh["body"]):
            is_sep = False
            if H.kind(x) == "mcall" and x[3] in ("push", "write_all", "extend_from_slice") and x[5]:
                l = H.lit(H.peel(x[5][0]))
                if l is not None and (l[1] in ("92", "\\", "5c") or (len(l) > 2 and l[2] == "5c")):
                    is_sep = True
            if is_sep:
                guards = [a for a in anc if H.is_node(a) and H.kind(a) == "if"]
                loops = [a for a in anc if H.is_node(a) and H.kind(a) in ("loop", "match") and "enumerate()" in H.show(a, 8)]
                seps.append((x, guards, loops))
        if len(seps) != 1:
            chk.bad("value-separator", nm, "separator-site", "exactly one backslash write", len(seps), loc=C.fn_loc(hh))
            continue
        x, guards, loops = seps[0]
        g = guards[-1] if guards else None
        idents = sorted({H.path_of(y) for y in H.walk(g[2]) if H.kind(y) == "path" and y[3] == "local"}) if g else None
        cond = H.show(g[2], 6) if g else None
        ok = g is not None and set(idents) <= {"i", coll} and "i" in idents and "enumerate()" in H.show(hh["body"], 12)
        # accepted positional forms: i < n-1 (after the value) or i > 0 / i != 0 (before the value)
        ok = ok and (re.fullmatch(rf"\(i Lt \({coll}\.len\(\) Sub 1\)\)", cond) is not None or cond in ("(i Gt 0)", "(i Ne 0)"))
        chk.expect(ok, "value-separator", nm.split("::")[-1], "positional-guard", f"if i < {coll}.len() - 1 (or i > 0) with i from enumerate()", {"cond": cond, "locals": idents}, loc=f"{hh['loc']['f']}:{x[1]}")
    n_split = 0
    for h in fx.find_hir("dicom_parser", lambda p: p.startswith(f"{SD}::StatefulDecoder") and "::read_value_" in p):
        for x, anc in H.walk_anc(h["body"]):
            if H.kind(x) == "mcall" and x[3] == "split" and "92" in H.show(x[5][0], 6) or (H.kind(x) == "mcall" and x[3] == "split" and "\\\\" in H.show(x[5][0], 6)):
                n_split += 1
                # the chain above the split must not filter
                chain = [a[3] for a in anc if H.is_node(a) and H.kind(a) == "mcall"]
                filt = [c for c in chain if c in ("filter", "filter_map", "skip_while", "take_while", "skip", "flat_map")]
                chk.expect(not filt, "value-separator", h["path"].split("::")[-1], f"split#{n_split}", "no filtering adaptor on the parts", filt, loc=f"{h['loc']['f']}:{x[1]}")
                # the predicate is "this byte IS the backslash"
                pred = re.sub(r"^\|[^|]*\|\s*", "", H.show(x[5][0], 6))
                chk.expect(re.fullmatch(r"\(Deref\((\w+)\) Eq 92\)|\((\w+) Eq &?92\)", pred) is not None or pred in ("92", "'\\\\'"), "value-separator", h["path"].split("::")[-1],
                           f"split#{n_split}/predicate", "|b| *b == b'\\\\'", pred, loc=f"{h['loc']['f']}:{x[1]}")
    chk.floor("value-separator", "backslash splits in value readers", n_split, 7)
    # a value reader is entered only for a non-empty value (length 0 -> PrimitiveValue::Empty, any other length is read); the date / time
    # readers reject text that fails validation (`!= Ok`), they do not reject what passes it
    chk.rule("value-reader-conditions", "read_value / read_value_preserved: `if header.length() == Length(0) { return Ok(Empty) }`; read_value_da/tm/dt: `if validate_x(buf) != Ok { error }`")
    for hh in fx.crate("dicom_parser")["hir"]:
        if re.search(r"StatefulDecoder<.*StatefulDecode>::read_value(_preserved|_bytes)?$", hh["path"]):
            ifs_ = [x for x in H.walk(hh["body"]) if H.kind(x) == "if"]
            first = H.show(ifs_[0][2], 6) if ifs_ else None
            ok = first in ("(header.length() Eq dicom_core::header::Length(0))", "header.length().is_empty()", "header.is_empty()") and "PrimitiveValue::Empty" in H.show(ifs_[0][3], 5)
            chk.expect(ok, "value-reader-conditions", hh["path"].split("::")[-1], "empty-iff-length-0", "if header.length() == Length(0) { return Ok(Empty) }", first, loc=C.fn_loc(hh))
    for nm in ("read_value_da", "read_value_tm", "read_value_dt"):
        hv = fx.method("dicom_parser", f"{SD}::StatefulDecoder", nm)
        vifs = [x for x in H.walk(hv["body"]) if H.kind(x) == "if" and "validate_" in H.show(x[2], 5)]
        ok = len(vifs) >= 1 and all(re.fullmatch(r"\(dicom_encoding::text::validate_\w+\(\w+\) Ne dicom_encoding::text::TextValidationOutcome::Ok\)", H.show(x[2], 6)) and
                                   any(H.kind(y) == "ret" for y in H.walk(x[3])) for x in vifs)
        chk.expect(ok, "value-reader-conditions", nm, "invalid-text-is-an-error", "if validate_x(buf) != Ok { return Err }", [H.show(x[2], 6) for x in vifs], loc=C.fn_loc(hv))
    from . import shared
    shared.value_reader_codec_calls(chk, fx, "value-reader-codec-calls")
    # every codec writes and reads in its own byte order only (shared with C03/C02)
    from . import c03
    c03.endianness_purity(chk, fx)
    # the header length of a primitive element is PrimitiveValue::calculate_byte_len while the bytes come from the encoder: a value whose
    # computed length differs from what is written cannot be read back (the reader cuts the value and misparses what follows) --
    # the per-variant length formulas and the date/time widths of C04 are therefore part of this property too
    # C01 is the umbrella of the codec properties: a data set comes back equal only if every header is laid out as its decoder reads it
    # (C03), every declared length is the number of bytes written (C04), the reader's position and the delimiters / recorded lengths it
    # relies on are right (C07, C02). Their clauses about the writer, the encoders/decoders and the *eager* reader are imported here;
    # clauses about the lazy reader and the collector (C06) are not: C01 does not go through them.
    shared.import_rules(chk, tier, "C04", {"padding-byte", "bytes-written", "unit-width", "even-round", "date-time-width", "writer-text-identity", "fragment-lengths-explicit"},
                        "declared lengths == bytes written", 130)
    shared.import_rules(chk, tier, "C03", {"vr-header-form", "header-layout", "header-bytes-read", "u16-length-guard", "vr-code", "unknown-vr-un"},
                        "encoder and decoder agree on every header form", 280)
    shared.import_rules(chk, tier, "C07", {"sanitize-length", "length-provenance", "position-accounting"}, "position of the eager reader", 36,
                        only=lambda i: i["rule"] == "position-accounting" or i["fn"] == "eager")
    shared.import_rules(chk, tier, "C02", {"sq-length-strategy", "len-plumbing", "delimitation"}, "recorded lengths and delimiters", 55)
    chk.undecided.append("equality of values after write+read for arbitrary data sets; 'writing never fails' for well-formed data")
