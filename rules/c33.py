"""C33 — the storage SCU sends each file on a matching presentation context (query structure).

pc-query (SIB): every query over the negotiated presentation contexts in check_presentation_contexts whose result can be
returned constrains the abstract syntax to the file's SOP class (or honours `ignore_sop_class`); the transfer syntax
returned is the chosen context's; into_ts transcodes exactly when the UIDs differ; the send path writes the data set in
the selected transfer syntax and uses the chosen context's id on every PDV and P-DATA stream.
"""
import re

from . import facts, hirq as H, common as C

LEVEL_TEXT = ("All presentation-context queries of the selection function and all context-id uses of both send paths are enumerated. "
              "Decides query/plumbing structure; the decoded equality of the bytes sent is not decided.")


def iter_queries(body):
    """every `.find(..)` / `.filter(..)` chain that starts at `pcs.iter()`"""
    out = []
    for x in H.walk(body):
        if H.kind(x) == "mcall" and x[3] == "find":
            names = []
            n = x
            filt = []
            while H.kind(n) == "mcall":
                names.append(n[3])
                if n[3] in ("filter", "find"):
                    filt.append(H.peel(n[5][0]))
                n = H.peel(n[4])
            if H.path_of(n) == "pcs":
                out.append((x, list(reversed(names)), filt))
    return out


def constrains_sop_class(clo):
    """closure text says: ignore_sop_class || pc.abstract_syntax == file.sop_class_uid   (or the early-return negative form)"""
    t = H.show(clo[4], 10)
    pos = re.search(r"\(ignore_sop_class Or \(\w+\.abstract_syntax Eq file\.sop_class_uid\)\)", t) is not None
    neg = re.search(r"\(Not\(ignore_sop_class\) And \(\w+\.abstract_syntax Ne file\.sop_class_uid\)\)", t) is not None and "return false" in t
    return pos or neg


def run(chk, tier):
    fx = facts.load("W")
    chk.analysed["facts"] = fx.meta
    chk.rule("pc-query", "each query over `pcs` whose hit can be returned filters on the file's SOP class (or ignore_sop_class); returned ts = chosen context's ts")
    h = fx.hirfn("dicom_storescu::check_presentation_contexts") if fx.has_hir("dicom_storescu::check_presentation_contexts") else None
    if h is None:
        hs = fx.find_hir("dicom_storescu", lambda p: p.endswith("::check_presentation_contexts"), kind="bin")
        if len(hs) != 1:
            raise facts.MissingAnchor("storescu::check_presentation_contexts")
        h = hs[0]
    qs = iter_queries(h["body"])
    chk.floor("pc-query", "queries over the negotiated contexts", len(qs), 4)
    for i, (node, names, closures) in enumerate(qs):
        ok = any(constrains_sop_class(c) for c in closures)
        ts_filter = " | ".join(H.show(c[4], 6)[:90] for c in closures)
        chk.expect(ok, "pc-query", "check_presentation_contexts", f"query#{i}", "a closure testing `ignore_sop_class || pc.abstract_syntax == file.sop_class_uid`", ts_filter,
                   loc=f"{h['loc']['f']}:{node[1]}")
    # results: (pc.clone(), pc.transfer_syntax) or the registry entry of pc.transfer_syntax
    oks = [x for x in H.walk(h["body"]) if H.kind(x) == "call" and (H.callee(x) or "").endswith("Result::Ok") and H.kind(H.peel(x[3][0])) == "tuple"]
    chk.expect(len(oks) == 2, "pc-query", "check_presentation_contexts", "return-sites", 2, len(oks))
    for i, o in enumerate(oks):
        t = H.show(o, 7)
        ok = "pc.clone()" in t and ("pc.transfer_syntax.clone()" in t or "ts.uid()" in t)
        chk.expect(ok, "pc-query", "check_presentation_contexts", f"return#{i}", "(pc.clone(), that context's transfer syntax)", t[:160])
    tsl = [x for x in H.walk(h["body"]) if H.kind(x) == "slet" and H.pat_bindings(x[2]) == ["ts"] and "get(&pc.transfer_syntax)" in H.show(x[3], 6)]
    chk.expect(len(tsl) >= 1, "pc-query", "check_presentation_contexts", "ts-from-chosen-context", "TransferSyntaxRegistry.get(&pc.transfer_syntax)", len(tsl))
    # transcoding fallback only when allowed and decodable
    gate = [x for x in H.walk(h["body"]) if H.kind(x) == "if" and "never_transcode" in H.show(x[2], 5) and "can_decode_all" in H.show(x[2], 5)]
    chk.expect(len(gate) == 1 and "NoPresentationContext" in H.show(gate[0][3], 6), "pc-query", "check_presentation_contexts", "transcode-gate",
               "if never_transcode || !file_ts.can_decode_all() { fail }", [H.show(g[2], 5) for g in gate])

    # the exact form of each test (operators included): the SOP class tests, the transfer syntax tests and the transcoding gate
    def norm(t):
        return re.sub(r"dicom_dictionary_std::uids::|core::ops::", "", t)
    gate_t = [norm(H.show(g[2], 5)) for g in gate]
    chk.expect(gate_t == ["(never_transcode Or Not(file_ts.can_decode_all()))"], "pc-query", "check_presentation_contexts", "transcode-gate/operators",
               "never_transcode || !file_ts.can_decode_all()", gate_t)
    sop_tests = sorted(norm(H.show(y, 5)) for y in H.walk(h["body"]) if H.kind(y) == "bin" and y[2] in ("And", "Or") and "ignore_sop_class" in H.show(y, 5) and "abstract_syntax" in H.show(y, 5))
    want_sop = sorted(["(ignore_sop_class Or (pc.abstract_syntax Eq file.sop_class_uid))"] * 3 + ["(Not(ignore_sop_class) And (pc.abstract_syntax Ne file.sop_class_uid))"])
    chk.expect(sop_tests == want_sop, "pc-query", "check_presentation_contexts", "sop-class-tests", want_sop, sop_tests)
    rej = [x for x in H.walk(h["body"]) if H.kind(x) == "if" and norm(H.show(x[2], 5)) == "(Not(ignore_sop_class) And (pc.abstract_syntax Ne file.sop_class_uid))"]
    chk.expect(len(rej) == 1 and "false" in H.show(rej[0][3], 4), "pc-query", "check_presentation_contexts", "other-class-is-refused", "that test leads to `return false`", [H.show(x[3], 4) for x in rej])
    ts_tests = sorted(norm(H.show(y, 4)) for y in H.walk(h["body"]) if H.kind(y) == "bin" and y[2] in ("Eq", "Ne") and "transfer_syntax" in H.show(y[3], 3) + H.show(y[4], 3) and "pc" in H.show(y, 4))
    want_ts = sorted(["(pc.transfer_syntax Eq file_ts.uid())", "(pc.transfer_syntax Eq EXPLICIT_VR_LITTLE_ENDIAN)", "(pc.transfer_syntax Eq IMPLICIT_VR_LITTLE_ENDIAN)"])
    chk.expect([t for t in ts_tests if t in want_ts] == want_ts and all(" Eq " in t for t in ts_tests), "pc-query", "check_presentation_contexts", "transfer-syntax-tests",
               want_ts + ["(ts == file_ts.uid() in the codec-free query)"], ts_tests)

    # the second query accepts a context whose transfer syntax is the file's OR (both the file's and the context's are codec free)
    q2 = [H.show(y, 9) for y in H.walk(h["body"]) if H.kind(y) == "bin" and y[2] == "Or" and "is_codec_free" in H.show(y, 9)]
    ok_q2 = len(q2) == 1 and q2[0].startswith("((ts Eq file_ts.uid()) Or ") and "(file_ts.is_codec_free() And ts.is_codec_free())" in H.show(h["body"], 40) + " ".join(
        H.show(c, 8) for y in H.walk(h["body"]) if H.kind(y) == "closure" for c in [y[4] if len(y) > 4 else y])
    chk.expect(ok_q2, "pc-query", "check_presentation_contexts", "same-ts-or-both-codec-free", "ts == file_ts.uid() || (file_ts.is_codec_free() && ts.is_codec_free())", [q[:120] for q in q2])
    # command and data set share one PDU only when both fit with room for the three headers: nbytes = len(command) + len(data set),
    # tested `<` against the acceptor's maximum minus a margin of at least 18 bytes -- in both store loops
    for mod in ("store_sync", "store_async"):
        hs_ = fx.find_hir("dicom_storescu", lambda p, mod=mod: p.endswith(f"{mod}::send_file"), kind="bin")
        if len(hs_) != 1:
            raise facts.MissingAnchor(f"storescu {mod}::send_file")
        hs_ = hs_[0]
        nb = [x for x in H.walk(hs_["body"]) if H.kind(x) == "slet" and H.pat_bindings(x[2]) == ["nbytes"]]
        t_nb = H.show(nb[0][3], 5) if len(nb) == 1 else None
        gate_ = [x for x in H.walk(hs_["body"]) if H.kind(x) == "if" and "nbytes" in H.show(x[2], 6) and "acceptor_max_pdu_length" in H.show(x[2], 8)]
        margin = None
        if len(gate_) == 1:
            for y in H.walk(gate_[0][2]):
                if H.kind(y) == "mcall" and y[3] in ("saturating_sub", "checked_sub", "wrapping_sub"):
                    margin = H.int_lit(y[5][0])
        ok_ = t_nb in ("(cmd_data.len() Add object_data.len())", "(object_data.len() Add cmd_data.len())") and len(gate_) == 1 \
            and sorted(y[2] for y in H.walk(gate_[0][2]) if H.kind(y) == "bin") == ["Lt"] and margin is not None and margin >= 18
        chk.expect(ok_, "send-plumbing", mod, "single-pdu-only-when-both-fit", "nbytes = cmd + data; if nbytes < max.saturating_sub(>=18) { one PDU } else { command, then send_pdata }",
                   {"nbytes": t_nb, "gate": [H.show(x[2], 7) for x in gate_], "margin": margin}, loc=C.fn_loc(hs_))

    # ---------- into_ts
    chk.rule("into-ts", "into_ts transcodes iff the selected transfer syntax differs from the file's")
    its = fx.find_hir("dicom_storescu", lambda p: p.endswith("::into_ts"), kind="bin")
    chk.expect(len(its) >= 1, "into-ts", "into_ts", "present", ">= 1", len(its))
    for hh in its:
        ifs = [x for x in H.walk(hh["body"]) if H.kind(x) == "if" and H.show(x[2], 6) == "(ts_selected.uid() Ne dicom_file.meta().transfer_syntax())"]
        chk.expect(len(ifs) == 1, "into-ts", "into_ts", "condition", "ts_selected.uid() != dicom_file.meta().transfer_syntax()", [H.show(x[2], 6) for x in H.walk(hh["body"]) if H.kind(x) == "if"][:2],
                   loc=C.fn_loc(hh))

    # ---------- send paths
    chk.rule("send-plumbing", "send_file: data set written with the selected ts; every presentation_context_id / send_pdata uses pc_selected.id; selection results stored per file")
    for mod in ("store_sync", "store_async"):
        hs = fx.find_hir("dicom_storescu", lambda p, mod=mod: p.startswith(f"dicom_storescu::{mod}::send_file"), kind="bin")
        if len(hs) != 1:
            raise facts.MissingAnchor(f"storescu {mod}::send_file")
        hh = hs[0]
        body = hh["body"]
        ids = []
        for x in H.walk(body):
            if H.kind(x) == "struct":
                f = H.struct_field(x, "presentation_context_id")
                if f is not None:
                    ids.append(H.show(f, 3))
            if H.kind(x) == "mcall" and x[3] == "send_pdata":
                ids.append(H.show(x[5][0], 3))
        chk.expect(len(ids) >= 3 and set(ids) == {"pc_selected.id"}, "send-plumbing", mod, "context-id-uses", "all pc_selected.id", sorted(set(ids)), loc=C.fn_loc(hh))
        # (the command set is written separately, always in Implicit VR LE)
        wr = [x for x in H.walk(body) if H.kind(x) == "mcall" and x[3] == "write_dataset_with_ts" and H.path_of(x[4]) == "dicom_file"]
        chk.expect(len(wr) == 1 and H.path_of(wr[0][5][1]) == "ts_selected", "send-plumbing", mod, "dataset-written-in-selected-ts", "write_dataset_with_ts(.., ts_selected)",
                   [H.show(w, 4)[:100] for w in wr])
        tsl = [x for x in H.walk(body) if H.kind(x) == "slet" and H.pat_bindings(x[2]) == ["ts_selected"]]
        chk.expect(len(tsl) == 1 and "get(&ts_uid_selected)" in H.show(tsl[0][3], 6), "send-plumbing", mod, "selected-ts-from-file-record", "registry.get(&ts_uid_selected)",
                   H.show(tsl[0][3], 6)[:100] if tsl else None)
        it = [x for c, x in H.calls(body) if c and c.endswith("::into_ts")]
        chk.expect(len(it) == 1 and H.path_of(it[0][3][1]) == "ts_selected", "send-plumbing", mod, "into_ts-with-selected", "into_ts(dicom_file, ts_selected, ..)", len(it))
    # selection stored
    n_store = 0
    d = fx.crate("dicom_storescu", "bin")
    for hh in d["hir"]:
        cps = [x for c, x in H.calls(hh["body"]) if c and c.endswith("::check_presentation_contexts")]
        if not cps:
            continue
        n_store += 1
        asg = {H.show(x[2], 3): H.show(x[3], 4) for x in H.walk(hh["body"]) if H.kind(x) == "assign" and H.show(x[2], 3) in ("file.pc_selected", "file.ts_selected")}
        chk.expect(asg == {"file.pc_selected": "core::option::Option::Some(pc)", "file.ts_selected": "core::option::Option::Some(ts)"}, "send-plumbing",
                   hh["path"].split("::")[-2] + "::" + hh["path"].split("::")[-1], "selection-stored", "file.pc_selected = Some(pc); file.ts_selected = Some(ts)", asg, loc=C.fn_loc(hh))
    chk.floor("send-plumbing", "callers of check_presentation_contexts", n_store, 2)
    # the list storescu searches is produced by the client's response processing: its abstract syntax labels must be right
    from . import shared
    shared.negotiated_labels(chk, fx, "context-labels")
    chk.undecided.append("that the bytes sent decode to the file's data set (needs execution)")
