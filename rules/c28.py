"""C28 — the association acceptor negotiates presentation contexts by the rules (structural clauses).

TAB/FLOW on ServerAssociationOptions::process_a_association_rq and choose_ts:
1. one-result-per-proposal: the negotiated list is a plain `map` over the proposals (no filtering adaptor), each result
   takes `id` from its proposal; the A-ASSOCIATE-AC list is a plain `map` over the negotiated list with the same id /
   reason / transfer syntax.
2. reasons: unknown abstract syntax and not promiscuous -> AbstractSyntaxNotSupported; no transfer syntax chosen ->
   TransferSyntaxesNotSupported; otherwise Acceptance with the chosen transfer syntax.
3. choose-ts: no configured list -> first proposed that the registry supports; configured list -> first proposed that is
   configured AND supported; "supported" = found in the registry and not `is_unsupported()`.
4. rejections: protocol version / application context / access control map to the PS3.8 reason constants.
5. max-pdu: MaxLength(0) -> MAXIMUM_PDU_SIZE, MaxLength(n) -> min(n, MAXIMUM_PDU_SIZE), absent -> DEFAULT_MAX_PDU.
"""
import re

from . import facts, hirq as H, common as C

LEVEL_TEXT = ("Every branch of the acceptor's decision procedure is compared with the rule it implements (reason constants, gating "
              "conditions, identifier provenance). Decides the structure of the decision function; its value over all possible requests "
              "is not evaluated.")

SRV = "dicom_ul::association::server"
OPT = f"{SRV}::ServerAssociationOptions"
PDU = "dicom_ul::pdu"
FILTERING = {"filter", "filter_map", "skip", "take", "skip_while", "take_while", "step_by", "flat_map", "dedup", "rev", "zip", "chain"}


def chain_methods(n):
    """method names of a receiver chain, innermost first"""
    out = []
    n = H.peel(n)
    while H.kind(n) == "mcall":
        out.append(n[3])
        n = H.peel(n[4])
    return list(reversed(out)), n


def run(chk, tier):
    fx = facts.load("W")
    chk.analysed["facts"] = fx.meta
    h = fx.method("dicom_ul", OPT, "process_a_association_rq")
    body = h["body"]

    # ---------- rule 1
    chk.rule("one-result-per-proposal", "negotiated = proposals.into_iter().map(..).collect(); id: pc.id in every constructed result; AC list = negotiated.iter().map(..)")
    lets = [x for x in H.walk(body) if H.kind(x) == "slet" and H.pat_bindings(x[2]) == ["presentation_contexts_negotiated"]]
    chk.expect(len(lets) == 1, "one-result-per-proposal", "process_a_association_rq", "negotiated-binding", 1, len(lets), loc=C.fn_loc(h))
    clo = None
    if lets:
        names, root = chain_methods(lets[0][3])
        chk.expect(names == ["into_iter", "map", "collect"] and H.path_of(root) == "presentation_contexts", "one-result-per-proposal", "process_a_association_rq",
                   "plain-map-over-proposals", "presentation_contexts.into_iter().map(..).collect()", {"chain": names, "root": H.show(root, 2)}, loc=C.fn_loc(h))
        mp = [x for x in H.walk(lets[0][3]) if H.kind(x) == "mcall" and x[3] == "map" and H.kind(H.peel(x[5][0])) == "closure"]
        clo = H.peel(mp[0][5][0]) if mp else None
    if clo is None:
        raise facts.MissingAnchor("negotiation closure")
    param = H.pat_bindings(clo[3][0])[0]
    ctors = [x for x in H.walk(clo[4]) if H.kind(x) == "struct" and x[2] == f"{PDU}::PresentationContextNegotiated"]
    chk.expect(len(ctors) >= 2, "one-result-per-proposal", "closure", "constructed-results", ">= 2 constructions", len(ctors))
    for i, c in enumerate(ctors):
        idf = H.struct_field(c, "id")
        chk.expect(H.show(idf, 3) == f"{param}.id", "one-result-per-proposal", "closure", f"id-from-proposal#{i}", f"{param}.id", H.show(idf, 3), loc=f"{h['loc']['f']}:{c[1]}")
    acs = [x for x in H.walk(body) if H.kind(x) == "struct" and x[2] == f"{PDU}::AssociationAC"]
    ok = False
    detail = None
    if len(acs) == 1:
        f = H.struct_field(acs[0], "presentation_contexts")
        names, root = chain_methods(f)
        res = [x for x in H.walk(f) if H.kind(x) == "struct" and x[2] == f"{PDU}::PresentationContextResult"]
        flds = {k: H.show(H.struct_field(res[0], k), 4) for k in ("id", "reason", "transfer_syntax")} if len(res) == 1 else {}
        ok = names == ["iter", "map", "collect"] and H.path_of(root) == "presentation_contexts_negotiated" and flds.get("id") == "pc.id" and \
            flds.get("reason", "").startswith("pc.reason") and flds.get("transfer_syntax", "").startswith("pc.transfer_syntax")
        detail = {"chain": names, "fields": flds}
    chk.expect(ok, "one-result-per-proposal", "process_a_association_rq", "ac-list-mirrors-negotiated", "negotiated.iter().map(|pc| Result{id: pc.id, reason: pc.reason, transfer_syntax: pc.transfer_syntax})", detail)
    # and the NegotiatedOptions keep the same list
    no = [x for x in H.walk(body) if H.kind(x) == "struct" and x[2].endswith("NegotiatedOptions")]
    chk.expect(len(no) == 1 and H.path_of(H.struct_field(no[0], "presentation_contexts")) == "presentation_contexts_negotiated", "one-result-per-proposal",
               "process_a_association_rq", "options-keep-negotiated", "presentation_contexts: presentation_contexts_negotiated", len(no))

    # ---------- rule 2
    chk.rule("reasons", "abstract syntax unknown && !promiscuous -> AbstractSyntaxNotSupported; choose_ts None -> TransferSyntaxesNotSupported; Some -> Acceptance")
    R = f"{PDU}::PresentationContextResultReason"
    ifs = [x for x in H.walk(clo[4]) if H.kind(x) == "if"]
    as_if = [x for x in ifs if any(H.kind(y) == "struct" and H.path_of(H.struct_field(y, "reason")) == f"{R}::AbstractSyntaxNotSupported" for y in H.walk(x[3]))]
    ok = False
    if len(as_if) == 1:
        cond = H.peel(as_if[0][2])
        txt = H.show(cond, 7)
        ok = H.kind(cond) == "bin" and cond[2] == "And" and "abstract_syntax_uids.contains" in txt and "Not(self.promiscuous)" in txt and txt.count("Not(") == 2
    chk.expect(ok, "reasons", "closure", "AbstractSyntaxNotSupported", "if !abstract_syntax_uids.contains(&abstract_syntax) && !self.promiscuous", H.show(as_if[0][2], 7) if as_if else None, loc=C.fn_loc(h))
    # trimmed before comparison
    tl = [x for x in H.walk(clo[4]) if H.kind(x) == "slet" and H.pat_bindings(x[2]) == ["abstract_syntax"]]
    chk.expect(len(tl) == 1 and any((c or "").endswith("uid::trim_uid") for c, _ in H.calls(tl[0][3])), "reasons", "closure", "abstract-syntax-trimmed", "trim_uid(pc.abstract_syntax)",
               H.show(tl[0][3], 4) if tl else None)
    ts_let = [x for x in H.walk(clo[4]) if H.kind(x) == "slet" and sorted(H.pat_bindings(x[2])) == ["reason", "transfer_syntax"]]
    ok = False
    detail = None
    if len(ts_let) == 1:
        e = H.peel(ts_let[0][3])
        names, root = chain_methods(e)
        acc = [y for y in H.walk(e) if H.kind(y) == "path" and y[2] == f"{R}::Acceptance"]
        rej = [y for y in H.walk(e) if H.kind(y) == "path" and y[2] == f"{R}::TransferSyntaxesNotSupported"]
        # Acceptance inside the map closure, rejection inside unwrap_or_else
        mp = [y for y in H.walk(e) if H.kind(y) == "mcall" and y[3] == "map"]
        uo = [y for y in H.walk(e) if H.kind(y) == "mcall" and y[3] in ("unwrap_or_else", "unwrap_or")]
        ok = names == ["choose_ts", "map", uo[0][3] if uo else "?"] and len(acc) == 1 and len(rej) == 1 and mp and acc[0] in list(H.walk(mp[0][5][0])) and uo and rej[0] in list(H.walk(uo[0][5][0]))
        ok = ok and H.show(H.peel(e), 9).count("pc.transfer_syntaxes") == 1
        detail = {"chain": names}
    chk.expect(ok, "reasons", "closure", "transfer-syntax-decision", "self.choose_ts(pc.transfer_syntaxes).map(|ts| (ts, Acceptance)).unwrap_or_else(|| (.., TransferSyntaxesNotSupported))", detail, loc=C.fn_loc(h))
    final = [c for c in ctors if H.path_of(H.struct_field(c, "reason")) == "reason"]
    chk.expect(len(final) == 1 and H.path_of(H.struct_field(final[0], "transfer_syntax")) == "transfer_syntax", "reasons", "closure", "result-carries-decision",
               "reason and transfer_syntax of the decision are stored", len(final))

    # ---------- rule 3
    chk.rule("choose-ts", "no list -> choose_supported(proposed); list -> first proposed that is configured AND supported; supported = in registry and !is_unsupported()")
    hc = fx.method("dicom_ul", OPT, "choose_ts")
    first_if = [x for x in H.walk(hc["body"]) if H.kind(x) == "if" and "transfer_syntax_uids.is_empty()" in H.show(x[2], 4) and any(H.kind(y) == "ret" for y in H.walk(x[3]))]
    ok = len(first_if) == 1 and any((c or "").endswith("server::choose_supported") for c, _ in H.calls(first_if[0][3]))
    chk.expect(ok, "choose-ts", "choose_ts", "empty-list", "return choose_supported(it)", [H.show(x, 5) for x in first_if], loc=C.fn_loc(hc))
    finds = [x for x in H.walk(hc["body"]) if H.kind(x) == "mcall" and x[3] == "find" and H.kind(H.peel(x[5][0])) == "closure"]
    ok = False
    detail = None
    if len(finds) == 1:
        names, root = chain_methods(finds[0])
        cb = H.peel(finds[0][5][0])[4]
        # the condition that applies when a list is configured: either the closure's tail, or the else branch of an inner `if list.is_empty()`
        tail = H.peel(cb)
        tail = H.peel(tail[3]) if H.kind(tail) == "block" and tail[3] is not None else tail
        cond = tail
        if H.kind(tail) == "if" and "is_empty()" in H.show(tail[2], 4):
            cond = H.peel(tail[4])
            cond = H.peel(cond[3]) if H.kind(cond) == "block" and cond[3] is not None else cond
        txt = H.show(cond, 8)
        is_and = H.kind(cond) == "bin" and cond[2] == "And"
        has_cfg = "transfer_syntax_uids.contains" in txt and "trim_uid" in txt
        has_sup = any((c or "").endswith("server::is_supported") for c, _ in H.calls(cond))
        ok = names == ["into_iter", "find"] and is_and and has_cfg and has_sup
        detail = txt
    chk.expect(ok, "choose-ts", "choose_ts", "configured-and-supported", "it.into_iter().find(|ts| configured.contains(trim(ts)) && is_supported(ts))", detail, loc=C.fn_loc(hc))
    hs = fx.hirfn(f"{SRV}::is_supported_with_repo")
    txt = H.show(hs["body"], 8)
    names, root = chain_methods(H.peel(hs["body"])[3] if H.kind(H.peel(hs["body"])) == "block" else hs["body"])
    ok = names == ["get", "filter", "is_some"] and "Not(" in txt and "is_unsupported()" in txt
    chk.expect(ok, "choose-ts", "is_supported_with_repo", "definition", "repo.get(uid).filter(|ts| !ts.is_unsupported()).is_some()", txt, loc=C.fn_loc(hs))
    for fn, inner in (("is_supported", "is_supported_with_repo"), ("choose_supported", "is_supported")):
        hh = fx.hirfn(f"{SRV}::{fn}")
        cs = [c.split("::")[-1] for c, _ in H.calls(hh["body"]) if c and c.startswith(SRV)]
        chk.expect(cs == [inner], "choose-ts", fn, "forwards", inner, cs, loc=C.fn_loc(hh))
    hh = fx.hirfn(f"{SRV}::choose_supported")
    names, root = chain_methods(H.peel(hh["body"])[3] if H.kind(H.peel(hh["body"])) == "block" else hh["body"])
    chk.expect(names == ["into_iter", "find"], "choose-ts", "choose_supported", "first-supported", "it.into_iter().find(is_supported)", names)

    # ---------- rule 4
    chk.rule("rejections", "protocol version mismatch -> (Permanent, ACSE/ProtocolVersionNotSupported); application context mismatch -> (Permanent, "
             "ServiceUser/ApplicationContextNameNotSupported); access control refusal -> (Permanent, ServiceUser(reason from check_access))")
    def rj_in(n):
        out = []
        for x in H.walk(n):
            if H.kind(x) == "struct" and x[2] == f"{PDU}::AssociationRJ":
                out.append((H.show(H.struct_field(x, "result"), 3).split("::")[-1], H.show(H.struct_field(x, "source"), 5).replace("dicom_ul::pdu::", "")))
        return out
    for test_var, want in (("protocol_version", ("Permanent", "AssociationRJSource::ServiceProviderASCE(AssociationRJServiceProviderASCEReason::ProtocolVersionNotSupported)")),
                           ("application_context_name", ("Permanent", "AssociationRJSource::ServiceUser(AssociationRJServiceUserReason::ApplicationContextNameNotSupported)"))):
        site = [x for x in H.walk(body) if H.kind(x) == "if" and H.show(x[2], 4) == f"({test_var} Ne self.{test_var})"]
        got = rj_in(site[0][3]) if len(site) == 1 else None
        rets = [y for y in H.walk(site[0][3]) if H.kind(y) == "ret" and "Err" in H.show(y, 4)] if len(site) == 1 else []
        chk.expect(got == [want] and len(rets) == 1, "rejections", "process_a_association_rq", test_var, want, got, loc=C.fn_loc(h))
    ac = [x for x in H.walk(body) if H.kind(x) == "mcall" and x[3] == "check_access"]
    ok = False
    if len(ac) == 1:
        # the enclosing chain ends in unwrap_or_else(|reason| .. AssociationRJ{ServiceUser(reason)} ..)?
        outer = [x for x in H.walk(body) if H.kind(x) == "mcall" and x[3] == "unwrap_or_else" and ac[0] in list(H.walk(x[4]))]
        if len(outer) == 1:
            cl = H.peel(outer[0][5][0])
            p = H.pat_bindings(cl[3][0])
            got = rj_in(cl[4])
            ok = got == [("Permanent", f"AssociationRJSource::ServiceUser({p[0]})")] and "Err" in H.show(cl[4], 6)
    chk.expect(ok, "rejections", "process_a_association_rq", "access-control", "Err((RJ{Permanent, ServiceUser(reason)}, ..)) with the reason returned by check_access", ok, loc=C.fn_loc(h))
    # the reply to other PDUs
    mp = [m for m in H.matches_over(body, lambda t: t == f"{PDU}::Pdu")]
    chk.expect(len(mp) >= 1, "rejections", "process_a_association_rq", "pdu-match", "match over the received Pdu", len(mp))

    # ---------- rule 5
    chk.rule("max-pdu", "requestor max PDU: MaxLength(0) -> MAXIMUM_PDU_SIZE, MaxLength(n) -> n.min(MAXIMUM_PDU_SIZE), absent -> DEFAULT_MAX_PDU")
    init = [x for x in H.walk(body) if H.kind(x) == "slet" and H.pat_bindings(x[2]) == ["requestor_max_pdu_length"]]
    chk.expect(len(init) == 1 and (H.path_of(init[0][3]) or "").endswith("pdu::DEFAULT_MAX_PDU"), "max-pdu", "process_a_association_rq", "default", "DEFAULT_MAX_PDU",
               H.show(init[0][3], 3) if init else None, loc=C.fn_loc(h))
    asg = [x for x in H.walk(body) if H.kind(x) == "assign" and H.path_of(x[2]) == "requestor_max_pdu_length"]
    ok = False
    if len(asg) == 1:
        e = H.peel(asg[0][3])
        if H.kind(e) == "if":
            ok = H.show(e[2], 4) == "(len Eq 0)" and (H.path_of(H.peel(e[3])) or H.show(e[3], 4)).endswith("MAXIMUM_PDU_SIZE") and "len.min(" in H.show(e[4], 5) and "MAXIMUM_PDU_SIZE" in H.show(e[4], 5)
    chk.expect(ok, "max-pdu", "process_a_association_rq", "from-request", "if len == 0 { MAXIMUM_PDU_SIZE } else { len.min(MAXIMUM_PDU_SIZE) }", H.show(asg[0][3], 6) if asg else None)
    chk.expect(len(no) == 1 and H.path_of(H.struct_field(no[0], "peer_max_pdu_length")) == "requestor_max_pdu_length", "max-pdu", "process_a_association_rq", "stored-as-peer-max",
               "peer_max_pdu_length: requestor_max_pdu_length", len(no))
    from . import shared
    shared.trim_uid(chk, fx, "uid-trim")
    # "rejected with the matching reason" is about what goes on the wire: the reject code tables of the PDU writer and reader (C25's
    # pdu-tables instances for A-ASSOCIATE-RJ) are part of this property too
    from . import c25, report
    sub = report.Check("C25", tier)
    c25.run(sub, tier)
    chk.rule("reject-codes-on-the-wire", "A-ASSOCIATE-RJ result / source / reason codes written and read equal PS3.8 Table 9-21 (instances of C25 pdu-tables for the reject tables)")
    n_rj = 0
    for inst in sub.instances:
        if inst["rule"] == "pdu-tables" and "rj_" in str(inst["fn"]):
            n_rj += 1
            if inst["status"] == "ok":
                chk.ok("reject-codes-on-the-wire", inst["fn"], inst["instance"], inst.get("detail"))
            else:
                chk.bad("reject-codes-on-the-wire", inst["fn"], inst["instance"], inst.get("expected"), inst.get("found"), loc=inst.get("loc"))
    chk.floor("reject-codes-on-the-wire", "reject table instances", n_rj, 20)
    # the two built-in access control policies
    chk.rule("access-control", "AcceptAny::check_access is Ok(()) unconditionally; AcceptCalledAeTitle::check_access is Ok(()) iff this_ae_title == called_ae_title, "
             "otherwise Err(CalledAETitleNotRecognized)")
    acs = {hh["path"]: hh for hh in fx.crate("dicom_ul")["hir"] if hh["path"].endswith("AccessControl>::check_access") and f"{SRV}::Accept" in hh["path"]}
    any_ = [hh for p_, hh in acs.items() if "AcceptAny" in p_]
    called = [hh for p_, hh in acs.items() if "AcceptCalledAeTitle" in p_]
    if len(any_) != 1 or len(called) != 1:
        raise facts.MissingAnchor("AccessControl impls of AcceptAny / AcceptCalledAeTitle")
    t_any = H.show(any_[0]["body"], 5)
    chk.expect(re.fullmatch(r"\{?core::result::Result::Ok\(\(\)\)\}?", t_any) is not None, "access-control", "AcceptAny", "always-ok", "Ok(())", t_any, loc=C.fn_loc(any_[0]))
    ifs_ = [x for x in H.walk(called[0]["body"]) if H.kind(x) == "if"]
    ok = len(ifs_) == 1 and H.show(ifs_[0][2], 4) in ("(this_ae_title Eq called_ae_title)", "(called_ae_title Eq this_ae_title)") \
        and "Result::Ok(())" in H.show(ifs_[0][3], 4) and ifs_[0][4] is not None and "Result::Err(" in H.show(ifs_[0][4], 5) and "CalledAETitleNotRecognized" in H.show(ifs_[0][4], 6)
    chk.expect(ok, "access-control", "AcceptCalledAeTitle", "ok-iff-titles-equal", "if this_ae_title == called_ae_title { Ok(()) } else { Err(CalledAETitleNotRecognized) }",
               [H.show(x, 6)[:160] for x in ifs_], loc=C.fn_loc(called[0]))
    chk.undecided.append("the value of the decision function over all requests and configurations (needs evaluation); access-control policies supplied by users")
