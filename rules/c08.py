"""C08 — flexible VR decoding agrees with the correct decoder (sibling agreement + state discipline).

1. explicit-length-table: decode_explicit_length (adaptive) is the same VR -> length-form table as the explicit decoder
   (C03's vr-header-form, re-evaluated here for the adaptive site).
2. implicit-vr-resolution (SIB): AdaptiveVRLittleEndianDecoder::resolve_vr and the VR resolution inside
   ImplicitVRLittleEndianDecoder::decode_header are the same expression ((7FE0,0010) and (60xx,3000) -> OW, else
   dictionary VR relaxed, default UN); both implicit length reads are 4 bytes little endian, reported as 8.
3. virtual-vr (TAB): vr_compatible_with_virtual: Exact -> equality, Xs -> {US,SS}, Ox/Px -> {OB,OW}, Lt -> {US,OW}, else false.
4. state-lock (PAIR, MIR): in decode_header, every path through the `Unknown` arm that returns a header first stores
   VrState::Explicit or VrState::Implicit (the decision is made once, on the first non-delimiter element); the delimiter
   early return never touches the state; on the implicit paths the two probed bytes become the low half of the 32-bit length
   (read_exact(&mut buf[2..4]) then read_u32(&buf)).
5. selection (FLOW): the adaptive decoder is used iff flexible_decoding && little endian, else the transfer syntax's own.
"""
import re

from . import facts, hirq as H, mirq as M, common as C
from . import c03

LEVEL_TEXT = ("All 34 VRs for the adaptive length table, every path of the Unknown arm (MIR must-pass-through), and the two sibling VR "
              "resolution expressions are compared. Decides the structure that makes the adaptive decoder follow its siblings; the decoded "
              "values of concrete streams are not compared.")

AD = "dicom_encoding::decode::adaptive_le"
ADT = f"{AD}::AdaptiveVRLittleEndianDecoder"
IMP = "dicom_encoding::decode::implicit_le::ImplicitVRLittleEndianDecoder"
DEC = "dicom_encoding::decode::Decode"


def run(chk, tier):
    fx = facts.load("W")
    chk.analysed["facts"] = fx.meta
    ref = C.vr_ref()
    vrs = fx.variants(C.VR_ENUM)

    # ---------- rule 1
    chk.rule("explicit-length-table", "adaptive decode_explicit_length: VR -> {short: 2-byte length, 8 bytes; long: reserved + 4-byte length, 12 bytes} equals PS3.5 7.1.2")
    h, m = c03.vr_match(chk, fx, "explicit-length-table", f"{AD}::decode_explicit_length", "adaptive")
    table, arms = H.enum_table(m, vrs, C.VR_ENUM)
    for v in vrs:
        b = arms[table[v][0]][2]
        widths = sorted({C.width_of(f) for (_, f, e, _, _) in C.byteorder_calls(b) if f.startswith("read_")})
        lits = sorted({x for k, x in C.ok_literals(b)})
        got = "short" if (widths == [2] and lits == [8]) else ("long" if (widths == [4] and lits == [12]) else f"?{widths}{lits}")
        chk.expect(got == ref[v]["header"], "explicit-length-table", "decode_explicit_length", v, ref[v]["header"], got, loc=f"{h['loc']['f']}:{arms[table[v][0]][3]}")
    he = fx.hirfn(f"{AD}::decode_explicit_header")
    cs = [c for c, _ in H.calls(he["body"]) if c]
    ok = any(c.endswith("VR::from_binary") for c in cs) and any(c.endswith("adaptive_le::decode_explicit_length") for c in cs) and sum(e[2] or 0 for e, _ in C.read_exact_calls(he["body"])) == 2
    chk.expect(ok, "explicit-length-table", "decode_explicit_header", "vr-then-length", "read 2 VR bytes, from_binary(..).unwrap_or(UN), decode_explicit_length", cs, loc=C.fn_loc(he))

    # ---------- rule 2
    chk.rule("implicit-vr-resolution", "resolve_vr (adaptive) == VR resolution of the implicit decoder; implicit length = 4 bytes LE, 8 reported")
    hr = fx.method("dicom_encoding", ADT, "resolve_vr")
    hi = fx.method("dicom_encoding", f"<{IMP} as {DEC}>", "decode_header")
    r_expr = H.peel(H.peel(hr["body"])[3]) if H.kind(H.peel(hr["body"])) == "block" else H.peel(hr["body"])
    i_lets = [x for x in H.walk(hi["body"]) if H.kind(x) == "slet" and H.pat_bindings(x[2]) == ["vr"]]
    i_expr = H.peel(i_lets[0][3]) if i_lets else None
    a, b = H.show(r_expr, 12), H.show(i_expr, 12) if i_expr is not None else None
    chk.expect(a == b and "VR::OW" in a and "relaxed()" in a and "VR::UN" in a and "32736" in a and "12288" in a and "96" in a, "implicit-vr-resolution", "resolve_vr~implicit::decode_header",
               "same-expression", "identical VR resolution expression (pixel data / overlay data -> OW; dictionary VR relaxed; UN)", {"adaptive": a[:200], "implicit": (b or "")[:200]}, loc=C.fn_loc(hr))
    hl = fx.hirfn(f"{AD}::decode_implicit_length")
    consumed = sum(e[2] or 0 for e, _ in C.read_exact_calls(hl["body"]))
    reads = sorted({C.width_of(f) for (_, f, e, _, _) in C.byteorder_calls(hl["body"]) if f.startswith("read_")})
    lits = [x for k, x in C.ok_literals(hl["body"])]
    rv = [c for c, _ in H.calls(hl["body"]) if c and c.endswith("resolve_vr")]
    chk.expect(consumed == 4 and reads == [4] and lits == [8] and len(rv) == 1, "implicit-vr-resolution", "decode_implicit_length", "length-and-count", "read 4 bytes as u32, resolve_vr, report 8",
               {"consumed": consumed, "widths": reads, "reported": lits}, loc=C.fn_loc(hl))

    # ---------- rule 3
    chk.rule("virtual-vr", "vr_compatible_with_virtual: Exact(vr) -> probed == vr; Xs -> US|SS; Ox, Px -> OB|OW; Lt -> US|OW; anything else -> false")
    hv = fx.hirfn(f"{AD}::vr_compatible_with_virtual")
    VV = "dicom_core::dictionary::data_element::VirtualVr"
    ms = H.matches_over(hv["body"], lambda t: t == VV)
    if len(ms) != 1:
        raise facts.MissingAnchor("vr_compatible_with_virtual: match over VirtualVr")
    want = {"Xs": {"US", "SS"}, "Ox": {"OB", "OW"}, "Px": {"OB", "OW"}, "Lt": {"US", "OW"}}
    seen = {}
    for p, g, b, ln in H.match_arms(ms[0]):
        hd = H.pat_head(H.pat_alts(p)[0])
        if hd[0] == "variant":
            name = hd[1].split("::")[-1]
            inner = [mm for mm in H.walk(b) if H.kind(mm) == "match"]
            if inner:
                acc = set()
                for p2, g2, b2, _ in H.match_arms(inner[0]):
                    l = H.lit(b2)
                    if l and l[1] == "true":
                        acc |= {H.pat_head(a_)[1].split("::")[-1] for a_ in H.pat_alts(p2) if H.pat_head(a_)[0] == "variant"}
                seen[name] = acc
            else:
                seen[name] = H.show(b, 4)
        elif hd[0] == "wild":
            l = H.lit(b)
            seen["_"] = l[1] if l else H.show(b, 3)
    for k, v in want.items():
        chk.expect(seen.get(k) == v, "virtual-vr", "vr_compatible_with_virtual", k, sorted(v), sorted(seen.get(k)) if isinstance(seen.get(k), set) else seen.get(k), loc=C.fn_loc(hv))
    chk.expect(seen.get("Exact") == "(probed Eq vr)", "virtual-vr", "vr_compatible_with_virtual", "Exact", "probed == vr", seen.get("Exact"))
    chk.expect(seen.get("_") == "false", "virtual-vr", "vr_compatible_with_virtual", "other", "false", seen.get("_"))

    # ---------- rule 4 (MIR)
    chk.rule("state-lock", "decode_header: every header-returning path through VrState::Unknown stores Explicit or Implicit first; the delimiter early return stores nothing; "
             "implicit fallbacks complete the 4-byte length from the 2 probed bytes")
    f = fx.method("dicom_encoding", f"<{ADT} as {DEC}>", "decode_header", table="mir")
    gets = [(bb, t) for bb, t in M.calls(f) if (M.callee(t) or "").endswith("cell::Cell::<T>::get")]
    sets = [bb for bb, t in M.calls(f) if (M.callee(t) or "").endswith("cell::Cell::<T>::set")]
    chk.expect(len(gets) == 1 and len(sets) >= 2, "state-lock", "decode_header", "state-accesses", "one state.get(), >= 2 state.set(..)", {"get": len(gets), "set": len(sets)}, loc=C.fn_loc(f))
    VS = f"{AD}::VrState"
    discr = {v["name"]: v["discr"] for v in fx.adt(VS)["variants"]}
    if gets:
        gbb, gt = gets[0]
        sdest = gt["d"]["l"]
        sw = None
        for b in sorted(M.reachable(f, gt["bb"])):
            tt = f["blocks"][b]["t"]
            if tt["t"] == "switch":
                sl = M.op_local(tt["o"])
                ds = M.defs_of(f, sl) if sl is not None else []
                if len(ds) == 1 and ds[0][0] == "stmt" and ds[0][3]["r"]["rv"] == "discr" and ds[0][3]["r"].get("adt") == VS:
                    sw = (b, tt)
                    break
        chk.expect(sw is not None, "state-lock", "decode_header", "state-dispatch", "switch on the VrState read from self.state", sw is not None)
        if sw is not None:
            b, tt = sw
            targets = {v[0]: v[1] for v in tt["vals"]}
            listed = set(targets)
            unk = targets.get(discr["Unknown"])
            others = [t_ for k, t_ in targets.items() if k != discr["Unknown"]]
            if unk is None:
                unk = tt["else"]
            else:
                others.append(tt["else"])
            goals = [bb for bb, c in M.ret_classes(f).items() if c == "ok" or c.startswith("fwd")]
            # paths from the dispatch that enter the Unknown arm
            avoid = set(sets) | {o for o in others if o != unk}
            w = M.escapes(f, [b], goals, avoid)
            chk.expect(w is None, "state-lock", "decode_header", "unknown-arm-locks-before-returning", "every Ok return reached through the Unknown arm passes a state.set(..)",
                       f"path without state.set: bb{' -> bb'.join(map(str, w))}" if w else "ok", loc=C.fn_loc(f))
            # the delimiter early return happens before the state is read and stores nothing
            before = M.reachable(f, 0, avoid={gbb})
            early_ok = [bb for bb, c in M.ret_classes(f).items() if c == "ok" and bb in before]
            chk.expect(len(early_ok) == 1 and not (set(sets) & before), "state-lock", "decode_header", "delimiter-return-leaves-state", "one early Ok return before state.get(), no set on it",
                       {"early_ok": early_ok, "sets_before_get": sorted(set(sets) & before)})
    # what is stored: only Explicit / Implicit
    hh = fx.method("dicom_encoding", f"<{ADT} as {DEC}>", "decode_header")
    stored = sorted({(H.path_of(x[5][0]) or "?").split("::")[-1] for x in H.walk(hh["body"]) if H.kind(x) == "mcall" and x[3] == "set" and "state" in H.show(x[4], 3)})
    chk.expect(stored == ["Explicit", "Implicit"], "state-lock", "decode_header", "stored-values", ["Explicit", "Implicit"], stored, loc=C.fn_loc(hh))
    # implicit fallbacks: read_exact(&mut buf[2..4]) then read_u32(&buf), 8 reported
    n_fb = 0
    for x in H.walk(hh["body"]):
        if H.kind(x) == "mcall" and x[3] == "set" and (H.path_of(x[5][0]) or "").endswith("VrState::Implicit"):
            n_fb += 1
    fb_reads = [e for e, _ in C.read_exact_calls(hh["body"]) if e[1] == 2 and e[2] == 2]
    chk.expect(n_fb == len(fb_reads) and n_fb >= 1, "state-lock", "decode_header", "implicit-fallback-completes-length", "each Implicit decision reads buf[2..4] (the high half of the length)",
               {"implicit decisions": n_fb, "reads of buf[2..4]": len(fb_reads)})
    probe = [e for e, _ in C.read_exact_calls(hh["body"]) if e[1] == 0 and e[2] == 2]
    chk.expect(len(probe) == 1, "state-lock", "decode_header", "probe-two-bytes", "one read_exact(&mut buf[0..2]) probe", len(probe))

    # ---------- rule 5
    chk.rule("selection", "DataSetReader::new_with_ts_cs_options: adaptive decoder iff options.flexible_decoding && ts.endianness() == Little; else the transfer syntax's decoder")
    hs = fx.method("dicom_parser", "dicom_parser::dataset::read::DataSetReader", "new_with_ts_cs_options")
    ifs = [x for x in H.walk(hs["body"]) if H.kind(x) == "if" and "flexible_decoding" in H.show(x[2], 5)]
    ok = False
    if len(ifs) == 1:
        c = H.show(ifs[0][2], 6)
        then_t = " ".join((C.expr_ty(x) or "") + (H.callee(x) or "") for x in H.walk(ifs[0][3]) if H.kind(x) in ("call", "mcall"))
        else_t = " ".join((H.callee(x) or "") for x in H.walk(ifs[0][4]) if H.kind(x) in ("call", "mcall"))
        ok = c == "(options.flexible_decoding And (ts.endianness() Eq byteordered::base::Endianness::Little))" and "AdaptiveVRLittleEndianDecoder" in then_t and "new_with_override" in else_t
    chk.expect(ok, "selection", "new_with_ts_cs_options", "adaptive-iff-flexible-and-little-endian", "if flexible && LE { adaptive } else { new_with_override(ts) }", [H.show(x[2], 6) for x in ifs], loc=C.fn_loc(hs))
    # both branches build the stateful decoder from the same reader settings: character set, character set override, base position
    if len(ifs) == 1:
        def ctor_args(branch):
            for x in H.walk(branch):
                if H.kind(x) == "call" and re.search(r"StatefulDecoder::<.*>::(new_with_\w+)$", H.callee(x) or ""):
                    return (H.callee(x) or "").split("::")[-1], [H.show(a, 4) for a in H.call_args(x)]
            return None, []
        tn, ta = ctor_args(ifs[0][3])
        en, ea = ctor_args(ifs[0][4])
        common = ["cs", "options.charset_override", "0"]
        chk.expect(tn is not None and en is not None and ta[-3:] == common and ea[-3:] == common, "selection", "new_with_ts_cs_options", "same-reader-settings-in-both-branches",
                   {"flexible": common, "regular": common}, {"flexible": (tn, ta[-3:]), "regular": (en, ea[-3:])}, loc=C.fn_loc(hs))
    ho = fx.method("dicom_parser", "dicom_parser::stateful::decode::StatefulDecoder", "new_with_override")
    chk.expect(any((c or "").endswith("::decoder_for") for c, _ in H.calls(ho["body"])), "selection", "new_with_override", "uses-ts-decoder", "ts.decoder_for()", "ok")
    # the probe trusts VR::from_binary to recognise exactly the 34 defined two-letter codes (anything else means "not explicit VR")
    c03.vr_code(chk, fx, fx.variants(C.VR_ENUM))
    # the adaptive decoder's own header paths report what they read: the FFFE early return (4 length bytes, 8 reported, test on the group
    # equal to the explicit decoder's), and the two implicit fall-backs of the probe (2 + 2 length bytes after the tag, 8 reported)
    chk.rule("adaptive-header-bytes", "AdaptiveDecoder::decode_header: `group == 0xFFFE` -> read 4, report 8 (same test as ExplicitVRLittleEndianDecoder); "
             "probe fall-backs to implicit read buf[0..2] then buf[2..4] and report 8; the explicit path reports decode_explicit_length's count")
    hads = [hh for hh in fx.crate("dicom_encoding")["hir"] if "adaptive_le::AdaptiveVRLittleEndianDecoder" in hh["path"] and hh["path"].endswith("decode::Decode>::decode_header")]
    hexp = [hh for hh in fx.crate("dicom_encoding")["hir"] if "explicit_le::ExplicitVRLittleEndianDecoder" in hh["path"] and hh["path"].endswith("decode::Decode>::decode_header")]
    if len(hads) != 1 or len(hexp) != 1:
        raise facts.MissingAnchor("AdaptiveDecoder / ExplicitVRLittleEndianDecoder decode_header")
    hd_ = hads[0]

    def delim(hh):
        ifs_ = [x for x in H.walk(hh["body"]) if H.kind(x) == "if" and "65534" in H.show(x[2], 6)]
        if len(ifs_) != 1:
            return None
        x = ifs_[0]
        return (H.show(x[2], 6), sum(e[2] or 0 for e, _ in C.read_exact_calls(x[3])), sorted({v for _, v in C.ok_literals(x[3])}))
    da, de = delim(hd_), delim(hexp[0])
    chk.expect(da is not None and da == de and da[1:] == (4, [8]) and da[0] == "(group Eq 65534)", "adaptive-header-bytes", "decode_header", "delimiter-branch",
               "(group == 0xFFFE): reads 4, reports 8, as the explicit decoder", {"adaptive": da, "explicit": de}, loc=C.fn_loc(hd_))
    # fall-backs: blocks that set the state to Implicit
    fbs = []
    for x in H.walk(hd_["body"]):
        if H.kind(x) == "block" and any(H.kind(s) in ("semi", "sexpr") and H.kind(H.peel(s[2])) == "mcall" and H.peel(s[2])[3] == "set" and "VrState::Implicit" in H.show(s[2], 5) for s in x[2]):
            fbs.append(x)
    for i, b in enumerate(fbs):
        ext = [e[1:] for e, _ in C.read_exact_calls(b)]
        lits = sorted({v for _, v in C.ok_literals(b)})
        chk.expect(ext == [(2, 2)] and lits == [8], "adaptive-header-bytes", "decode_header", f"implicit-fallback#{i}", "reads buf[2..4] (after the probed buf[0..2]), reports 8",
                   {"reads": ext, "reported": lits}, loc=f"{hd_['loc']['f']}:{b[1]}")
    chk.expect(len(fbs) == 2, "adaptive-header-bytes", "decode_header", "fallback-count", 2, len(fbs), loc=C.fn_loc(hd_))
    probe = [e[1:] for e, x in C.read_exact_calls(hd_["body"]) if e[1:] == (0, 2)]
    chk.expect(len(probe) == 1, "adaptive-header-bytes", "decode_header", "probe-reads-two-bytes", "one read_exact(buf[0..2]) before the decision", probe, loc=C.fn_loc(hd_))
    # the probe compares the VR it reads with the dictionary's VR for the first element's tag (StandardDataDictionary::by_tag): the
    # generic fall-backs of that look-up (group length -> UL, private creator -> LO, in that order and with those ranges) decide whether an
    # Explicit VR stream starting with a group length or a private element is recognised -- C15's look-up order instances are part of this
    from . import c15, report
    sub = report.Check("C15", tier)
    c15.run(sub, tier)
    chk.rule("dictionary-vr-for-the-probe", "StandardDataDictionary::by_tag resolves exact entries first, then repeating groups/elements, then private creator (odd group, 0010..=00FF), "
             "then group length (element 0000) (instances of C15 lookup-order)")
    n_lk = 0
    for inst in sub.instances:
        if inst["rule"] == "lookup-order" and inst["fn"] in ("indexed_tag", "by_tag", "index", "init_dictionary"):
            n_lk += 1
            if inst["status"] == "ok":
                chk.ok("dictionary-vr-for-the-probe", inst["fn"], inst["instance"], inst.get("detail"))
            else:
                chk.bad("dictionary-vr-for-the-probe", inst["fn"], inst["instance"], inst.get("expected"), inst.get("found"), loc=inst.get("loc"))
    chk.floor("dictionary-vr-for-the-probe", "look-up instances", n_lk, 6)
    chk.undecided.append("token-for-token equality on concrete data sets; ambiguity resolution for streams whose first length bytes spell a compatible VR (excluded by the property)")
