"""C27 — PDU reception is independent of how the byte stream is segmented (buffering discipline).

wire-loop (SIB+PAIR) on the four receive loops (read_pdu_from_wire, read_pdu_from_wire_async, PDataReader::read,
PDataReader::poll_read):
  (a) each attempt parses a cursor over the *whole* carried read buffer `RB[..]`;
  (b) on Some(pdu) exactly `buf.position()` bytes are advanced from RB and nothing else is dropped from it;
  (c) on None nothing is consumed from RB;
  (d) every byte obtained from the transport is appended to RB: `extend_from_slice(recv)` together with
      `consume(len(recv))` of the same bytes, or `read_buf(RB)`;
  (e) zero bytes from the transport is an error (connection closed), never a busy loop or a silent success;
  (f) the buffer used while negotiating is the one stored in the association (bytes received after the
      A-ASSOCIATE PDU are not lost), client and server, sync and async.
The parser itself (read_pdu never reads past what is available; incomplete -> None) is C25's pdu-budget.
"""
import re

from . import facts, hirq as H, common as C
from .acc import place_text

LEVEL_TEXT = ("All four receive loops and all four association constructors of the analysed configuration are checked clause by clause on "
              "the resolved HIR. Decides the buffering discipline that makes reception segmentation-independent; the schedules themselves "
              "are not enumerated.")

A = "dicom_ul::association"
MUTATORS = {"clear", "truncate", "split_to", "split_off", "advance", "resize", "set_len", "split", "drain", "reserve_exact_and_clear", "unsplit"}


def loop_bodies(h):
    return [x for x in H.walk(h["body"]) if H.kind(x) == "loop" and any((c or "").endswith("pdu::reader::read_pdu") for c, _ in H.calls(x[2]))]


def check_loop(chk, fx, h, name):
    loops = loop_bodies(h)
    chk.expect(len(loops) == 1, "wire-loop", name, "loop-present", "one receive loop around read_pdu", len(loops), loc=C.fn_loc(h))
    if len(loops) != 1:
        return
    body = loops[0][2]
    # (a) cursor over the whole buffer
    cur = [x for x in H.walk(body) if H.kind(x) == "call" and (H.callee(x) or "").endswith("io::cursor::Cursor::<T>::new")]
    rb = None
    ok_a = False
    if len(cur) == 1:
        arg = H.peel(cur[0][3][0])
        if H.kind(arg) == "index":
            idx = H.peel(arg[3])
            rb = place_text(arg[2])
            ok_a = H.kind(idx) == "struct" and idx[2].split("::")[-1] == "RangeFull" and rb is not None
    chk.expect(ok_a, "wire-loop", name, "(a)parse-over-whole-buffer", "Cursor::new(&RB[..])", H.show(cur[0], 6) if cur else None, loc=C.fn_loc(h))
    if rb is None:
        return
    # the match on the parse result
    ms = [m for m in H.walk(body) if H.kind(m) == "match" and "Option<dicom_ul::pdu::Pdu>" in m[3] and not m[5].startswith("TryDesugar")]
    chk.expect(len(ms) == 1, "wire-loop", name, "parse-result-match", "match read_pdu(..)? { Some / None }", len(ms))
    if len(ms) != 1:
        return
    some_b = none_b = None
    for p, g, b, ln in H.match_arms(ms[0]):
        hd = H.pat_head(H.pat_alts(p)[0])
        if hd[0] == "variant" and hd[1].endswith("Option::Some"):
            some_b = b
        elif hd[0] == "variant" and hd[1].endswith("Option::None"):
            none_b = b
    # (b) Some: advance(buf.position())
    adv = [x for x in H.walk(some_b) if H.kind(x) == "mcall" and x[3] in MUTATORS and place_text(x[4]) == rb] if some_b is not None else []
    ok_b = len(adv) == 1 and adv[0][3] == "advance" and "position()" in H.show(adv[0][5][0], 5) and any(H.kind(x) == "break" for x in H.walk(some_b))
    chk.expect(ok_b, "wire-loop", name, "(b)consume-exactly-parsed", f"{rb}.advance(buf.position()) then break", [H.show(x, 5) for x in adv], loc=C.fn_loc(h))
    # (c) None: RB untouched
    mut_none = [H.show(x, 4) for x in H.walk(none_b) if H.kind(x) == "mcall" and place_text(x[4]) == rb and x[3] in MUTATORS | {"extend_from_slice", "extend", "put"}] if none_b is not None else ["?"]
    chk.expect(not mut_none, "wire-loop", name, "(c)incomplete-consumes-nothing", f"no mutation of {rb} in the None arm", mut_none)
    # nothing else in the function drops bytes from RB
    other = [f"{x[3]}@{x[1]}" for x in H.walk(h["body"]) if H.kind(x) == "mcall" and place_text(x[4]) == rb and x[3] in MUTATORS and x not in adv]
    chk.expect(not other, "wire-loop", name, "(b)nothing-else-dropped", f"no other shrinking call on {rb}", other)
    # (d) bytes from the transport appended
    ext = [x for x in H.walk(body) if H.kind(x) == "mcall" and x[3] == "extend_from_slice" and place_text(x[4]) == rb]
    rdb = [x for x in H.walk(body) if H.kind(x) == "mcall" and x[3] == "read_buf" and place_text(x[5][0]) == rb]
    cons = [x for x in H.walk(body) if H.kind(x) == "mcall" and x[3] == "consume"]
    fill = [x for x in H.walk(body) if H.kind(x) == "mcall" and x[3] in ("fill_buf", "poll_fill_buf")]
    if rdb:
        ok_d = len(rdb) == 1 and not ext and not cons
        detail = "read_buf(RB)"
        recv_name = None
        lets = [x for x in H.walk(body) if H.kind(x) == "slet" and x[3] is not None and rdb[0] in list(H.walk(x[3]))]
        recv_name = H.pat_bindings(lets[0][2])[0] if lets else None
    else:
        lets = [x for x in H.walk(body) if H.kind(x) == "slet" and x[3] is not None and fill and fill[0] in list(H.walk(x[3]))]
        recv_name = H.pat_bindings(lets[0][2])[0] if lets else None
        ok_d = len(ext) == 1 and len(cons) == 1 and len(fill) == 1 and recv_name is not None and H.path_of(ext[0][5][0]) == recv_name
        # consume(len(recv)): either `recv.len()` directly or a local bound to it
        carg = H.peel(cons[0][5][0]) if cons else None
        if ok_d:
            if H.kind(carg) == "mcall" and carg[3] == "len" and H.path_of(carg[4]) == recv_name:
                pass
            elif H.kind(carg) == "path":
                bl = [x for x in H.walk(body) if H.kind(x) == "slet" and H.pat_bindings(x[2]) == [carg[2]] and x[3] is not None]
                ok_d = len(bl) == 1 and H.kind(H.peel(bl[0][3])) == "mcall" and H.peel(bl[0][3])[3] == "len" and H.path_of(H.peel(bl[0][3])[4]) == recv_name
            else:
                ok_d = False
        detail = {"extend": [H.show(x, 4) for x in ext], "consume": [H.show(x, 4) for x in cons]}
    chk.expect(ok_d, "wire-loop", name, "(d)all-received-bytes-appended", "RB.extend_from_slice(recv) + consume(recv.len())  |  read_buf(RB)", detail, loc=C.fn_loc(h))
    # (e) zero bytes -> error
    zero = []
    for x in H.walk(body):
        if H.kind(x) == "if":
            cond = H.show(x[2], 6)
            errs = [y for y in H.walk(x[3]) if H.kind(y) == "ret" and ("Err" in H.show(y, 6) or "fail" in H.show(y, 6))] + \
                   [y for y in H.walk(x[3]) if H.kind(y) == "mcall" and y[3] == "fail"]
            if errs and recv_name and (f"{recv_name}.is_empty()" in cond or f"{recv_name} Gt 0" in cond or f"{recv_name} Ne 0" in cond or "bytes_read Ne 0" in cond or f"{recv_name} Eq 0" in cond):
                zero.append(cond)
    chk.expect(len(zero) == 1, "wire-loop", name, "(e)zero-bytes-is-an-error", "connection-closed error when the transport yields 0 bytes", zero, loc=C.fn_loc(h))


def run(chk, tier):
    fx = facts.load("W")
    chk.analysed["facts"] = fx.meta
    chk.assume("BufRead::fill_buf returns the bytes available without consuming them and consume(n) drops exactly n; AsyncReadExt::read_buf appends what it reads")
    chk.rule("wire-loop", "buffering discipline (a)-(e) on each receive loop; (f) the negotiation buffer is carried into the association")
    check_loop(chk, fx, fx.hirfn(f"{A}::read_pdu_from_wire"), "read_pdu_from_wire")
    check_loop(chk, fx, fx.hirfn(f"{A}::read_pdu_from_wire_async"), "read_pdu_from_wire_async")
    check_loop(chk, fx, fx.method("dicom_ul", f"<{A}::pdata::PDataReader as std::io::Read>", "read"), "PDataReader::read")
    pr = fx.find_hir("dicom_ul", lambda p: p.endswith("::poll_read") and "PDataReader" in p and "AsyncRead" in p)
    if len(pr) != 1:
        raise facts.MissingAnchor(f"PDataReader::poll_read: {len(pr)} candidates")
    check_loop(chk, fx, pr[0], "PDataReader::poll_read")
    # (f)
    d = fx.crate("dicom_ul")
    n = 0
    for h in d["hir"]:
        for x in H.walk(h["body"]):
            if H.kind(x) == "struct" and x[2].split("::")[-1] in ("ClientAssociation", "AsyncClientAssociation", "ServerAssociation", "AsyncServerAssociation"):
                f = H.struct_field(x, "read_buffer")
                if f is None:
                    continue
                n += 1
                nm = H.path_of(f)
                # the same local must be the buffer passed (by &mut) to the negotiation reads in this function
                uses = [y for c, y in H.calls(h["body"]) if c and (c.endswith("read_pdu_from_wire") or c.endswith("read_pdu_from_wire_async") or c.endswith("::timeout"))
                        and nm and any(place_text(a) == nm for z in H.walk(y) if H.kind(z) in ("call", "mcall") for a in H.call_args(z))]
                fresh = H.kind(H.peel(f)) in ("call", "mcall")
                chk.expect(nm is not None and not fresh and len(uses) >= 1, "wire-loop", h["path"].split("::")[-1], f"(f)negotiation-buffer-kept:{x[2].split('::')[-1]}",
                           "read_buffer: <the buffer used by read_pdu_from_wire during negotiation>", H.show(f, 4), loc=f"{h['loc']['f']}:{x[1]}")
    chk.floor("wire-loop", "association constructors", n, 4)
    # the association's receive paths hand that same field to the wire readers
    for ty, fn in (("client::ClientAssociation", "receive"), ("server::ServerAssociation", "receive")):
        cands = [h for h in d["hir"] if fx.strip_generics(h["path"]).endswith(f"{ty} as dicom_ul::association::private::SyncAssociationSealed>::{fn}")]
        for h in cands:
            args = [H.show(a, 4) for c, y in H.calls(h["body"]) if c and c.endswith("read_pdu_from_wire") for a in H.call_args(y)]
            chk.expect(any("self.read_buffer" in a for a in args), "wire-loop", f"{ty}::{fn}", "(f)receive-uses-carried-buffer", "&mut self.read_buffer", args, loc=C.fn_loc(h))
    # every `receive` (sync / async, requestor / acceptor) hands on exactly what the wire reader returned: one call, no loop that could
    # drop or re-order PDUs; and nothing but the wire readers consumes the carried buffer (no clear / advance / truncate elsewhere)
    from . import forward
    n_rx = 0
    for h in d["hir"]:
        if not re.search(r"(client::(Async)?ClientAssociation|server::(Async)?ServerAssociation)<.*> as dicom_ul::association::private::(Sync|Async)AssociationSealed<.*>>::receive$", h["path"]):
            continue
        n_rx += 1
        c = forward.core_call(h["body"])
        loops = [x for x in H.walk(h["body"]) if H.kind(x) == "loop" and "desugar:Await" not in H.mac(x)]
        wire = [c_ for c_, _ in H.calls(h["body"]) if c_ and re.search(r"read_pdu_from_wire(_async)?$", c_)]
        if c is None and "Async" in h["path"]:
            # `async fn`: the body is the future's closure; the single awaited expression is the call
            c = next((x for c_, x in H.calls(h["body"]) if c_ and re.search(r"association::timeout$|read_pdu_from_wire_async$", c_)), None)
        conds = [x for x in H.walk(h["body"]) if H.kind(x) == "if" or (H.kind(x) == "match" and len(x) > 5 and x[5] == "Normal")]
        ok = c is not None and len(wire) == 1 and not loops and not conds
        chk.expect(ok, "wire-loop", h["path"].split(" as ")[0].lstrip("<").split("::")[-1].split("<")[0] + "::receive", "(g)receive-is-the-wire-read", "a single call of read_pdu_from_wire(_async), no loop",
                   {"call": (H.callee(c) or "?").split("::")[-1] if c is not None else None, "loops": len(loops)}, loc=C.fn_loc(h))
    chk.floor("wire-loop", "receive implementations", n_rx, 4)
    MUT = {"clear", "truncate", "advance", "split_to", "split_off", "split", "drain", "resize", "set_len", "unsplit", "reserve", "extend_from_slice", "put", "put_slice"}
    touch = []
    for h in d["hir"]:
        if not re.match(r"<?dicom_ul::association::(client|server)::", h["path"]):
            continue
        for x in H.walk(h["body"]):
            if H.kind(x) == "mcall" and x[3] in MUT - {"reserve"} and H.show(x[4], 4).endswith("self.read_buffer"):
                touch.append(f"{h['path'].split('::')[-1]}: self.read_buffer.{x[3]}() line {x[1]}")
    # the synchronous and asynchronous twins of send / receive do the same things (same calls up to `_async`, await plumbing ignored);
    # close differs by design (std `close` of the socket wrapper vs tokio `shutdown`)
    import collections
    IGN = re.compile(r"into_future|IntoFuture|Future|poll|Pin|get_mut|branch|from_residual|from_output|Ok$|Err$|Some$|timeout$|context$|map_err$|into$|from$|new_unchecked|Context|as_mut$|deref|^fail$|build$")

    def call_sig(hh):
        c_ = collections.Counter()
        for x, anc in H.walk_anc(hh["body"]):
            if H.kind(x) not in ("call", "mcall"):
                continue
            cal = H.callee(x)
            if not cal or re.search(r"tracing|log::|format_args|fmt::", " ".join([H.mac(x), cal] + [H.mac(a) for a in anc if H.is_node(a)])):
                continue  # logging (and what is computed only for a log line) added to one twin only is not drift
            nm = re.sub(r"_async$", "", cal.split("::")[-1])
            if IGN.search(nm) or IGN.search(cal.split("::")[-2] if "::" in cal else ""):
                continue
            c_[nm] += 1
        return c_
    twins = {}
    for h in d["hir"]:
        m_ = re.match(r"<dicom_ul::association::(client|server)::(Async)?(Client|Server)Association<.*> as dicom_ul::association::private::(Sync|Async)AssociationSealed<.*>>::(\w+)$", h["path"])
        if m_:
            twins.setdefault((m_.group(1), m_.group(5)), {})["async" if m_.group(2) else "sync"] = h
    n_tw = 0
    for (side, meth), v in sorted(twins.items()):
        if len(v) != 2 or meth not in ("send", "receive", "close"):
            continue
        n_tw += 1
        a_, b_ = call_sig(v["sync"]), call_sig(v["async"])
        want_diff = ({"close": 1}, {"shutdown": 1}) if meth == "close" else ({}, {})
        chk.expect((dict(a_ - b_), dict(b_ - a_)) == want_diff, "wire-loop", f"{side}::{meth}", "(i)sync-and-async-twins-make-the-same-calls", {"only sync": want_diff[0], "only async": want_diff[1]},
                   {"only sync": dict(a_ - b_), "only async": dict(b_ - a_)}, loc=C.fn_loc(v["sync"]))
    chk.floor("wire-loop", "sync/async twin pairs", n_tw, 6)
    # the parser hands back the PDU it parsed: it never goes on to the next one by itself (a PDU on the wire is never hidden from the
    # association layer, in strict or non-strict mode)
    hrp = fx.hirfn("dicom_ul::pdu::reader::read_pdu")
    rec = [x[1] for c_, x in H.calls(hrp["body"]) if c_ and c_.endswith("pdu::reader::read_pdu")]
    chk.expect(not rec, "wire-loop", "read_pdu", "(j)one-pdu-per-call", "no recursive / repeated read_pdu inside read_pdu", [f"line {ln}" for ln in rec], loc=C.fn_loc(hrp))
    chk.expect(not touch, "wire-loop", "associations", "(h)only-the-wire-readers-consume-the-carried-buffer", "no clear / advance / truncate / split of self.read_buffer in client.rs / server.rs", touch)
    # the parser under the loops: a partial PDU must come back as "incomplete", never as a panic or a misread —
    # every cursor read needs a dominating availability proof (same GUARD as C25's pdu-budget)
    from . import budget
    chk.rule("parser-availability", "every Buf getter of pdu::reader is preceded by a proof that the bytes are there, so that any prefix cut by the transport "
             "is reported as incomplete (Ok(None)) and retried with more bytes")
    n_sites = 0
    for h in d["hir"]:
        if not h["path"].startswith("dicom_ul::pdu::reader::"):
            continue
        short = h["path"].split("::")[-1]
        b = budget.analyse(h, short)
        ordn = {}
        for s in b.sites:
            n_sites += 1
            k = (s.cursor, s.op)
            ordn[k] = ordn.get(k, 0) + 1
            chk.expect(s.ok, "parser-availability", short, f"{s.cursor}.{s.op}#{ordn[k]}", f"remaining() >= {s.need} proven", f"proven lower bound {s.bound}",
                       loc=f"{h['loc']['f']}:{s.line}")
    chk.floor("parser-availability", "cursor read sites in pdu::reader", n_sites, 60)
    from . import shared
    shared.guard_tightness(chk, fx, "guards-exact")
    chk.undecided.append("the set of all segmentations / schedules; TLS transports (feature-gated, not in the analysed configuration)")
