"""C07 — odd-length values are handled per strategy and reading stays aligned.

1. sanitize-length: both copies (eager/lazy) of `sanitize_length` are the table Accept->same, NextEven->len+1,
   Fail->None, applied only to defined odd lengths; every length that ends up in an emitted token passed through it.
2. position accounting (ACC): on every Ok path of every StatefulDecoder method that touches `self.from`,
   bytes consumed == amount added to `self.position`, as polynomials over opaque atoms.
3. odd-length plumbing: the public options reach the reader options field-to-field.
"""
from . import facts, hirq as H, common as C, acc, accmodels

LEVEL_TEXT = ("Every StatefulDecoder method that reads from the source is interpreted symbolically on all of its paths "
              "(byte accounting as polynomial identities, no sampling); both sanitize_length copies are compared as total "
              "tables over OddLengthStrategy; every token construction site with a length is checked for provenance. "
              "Decides the accounting/plumbing structure, not concrete stream positions.")

P = "dicom_parser::dataset"
ODD = f"{P}::read::OddLengthStrategy"
SD = "dicom_parser::stateful::decode::StatefulDecoder"


def sanitize_table(chk, fx, path, where):
    h = fx.hirfn(path)
    body = H.peel(h["body"])
    param = H.pat_bindings(h["params"][1])[0]
    ifs = [x for x in H.walk(body) if H.kind(x) == "if"]
    chk.expect(len(ifs) == 1, "sanitize-length", where, "shape", "single if/else", len(ifs), loc=C.fn_loc(h))
    if len(ifs) != 1:
        return
    cond, then, els = ifs[0][2], ifs[0][3], ifs[0][4]
    cs = [c for c, _ in H.calls(cond) if c]
    has_defined = any(c.endswith("Length::is_defined") for c in cs)
    odd_test = any(H.kind(x) == "bin" and x[2] == "Ne" and H.int_lit(x[4]) == 0 and H.kind(H.peel(x[3])) == "bin"
                   and H.peel(x[3])[2] == "BitAnd" and H.int_lit(H.peel(x[3])[4]) == 1 for x in H.walk(cond))
    is_and = H.kind(H.peel(cond)) == "bin" and H.peel(cond)[2] == "And"
    chk.expect(has_defined and odd_test and is_and, "sanitize-length", where, "applies-to-defined-odd-only",
               "length.is_defined() && length.0 & 1 != 0", H.show(cond, 6), loc=C.fn_loc(h))
    ms = H.matches_over(then, lambda t: t == ODD)
    if len(ms) != 1:
        raise facts.MissingAnchor(f"{where}: match over OddLengthStrategy")
    variants = fx.variants(ODD)
    table, arms = H.enum_table(ms[0], variants, ODD)
    want = {"Accept": "Some(len)", "NextEven": "Some(len+1)", "Fail": "None"}
    chk.expect(sorted(variants) == sorted(want), "sanitize-length", where, "strategy-enum", sorted(want), sorted(variants))

    def classify(b):
        b = H.peel(b)
        if H.kind(b) == "call" and (H.callee(b) or "").endswith("Option::Some"):
            a = H.peel(b[3][0])
            if H.path_of(a) == param:
                return "Some(len)"
            if H.kind(a) == "bin" and a[2] == "Add" and H.path_of(a[3]) == param and H.int_lit(a[4]) == 1:
                return "Some(len+1)"
            return "Some(" + H.show(a) + ")"
        if (H.path_of(b) or "").endswith("Option::None"):
            return "None"
        return H.show(b)

    for v in variants:
        idxs = table.get(v, [])
        got = classify(arms[idxs[0]][2]) if idxs else "no-arm"
        chk.expect(got == want.get(v), "sanitize-length", where, v, want.get(v), got, loc=f"{h['loc']['f']}:{arms[idxs[0]][3] if idxs else 0}")
    chk.expect(classify(els) == "Some(len)", "sanitize-length", where, "even-or-undefined-unchanged", "Some(len)", classify(els))


def token_provenance(chk, fx, path, where, token_enum):
    """every token construction carrying a length comes after a sanitize_length call in the same arm,
    unless the arm is guarded by `len.is_undefined()` (undefined lengths are never odd)"""
    h = fx.hirfn(path)
    n_sites = 0
    for n, anc in H.walk_anc(h["body"]):
        is_tok = False
        if H.kind(n) == "struct" and n[2] in (f"{token_enum}::ItemStart", f"{token_enum}::SequenceStart"):
            is_tok, kind_ = True, n[2].split("::")[-1]
        if H.kind(n) == "call" and (H.callee(n) or "") == f"{token_enum}::ElementHeader":
            is_tok, kind_ = True, "ElementHeader"
        if not is_tok:
            continue
        arm = H.enclosing_arm(anc)
        # skip token re-wrapping arms (peek replay: scrutinee is a DataToken / LazyDataToken value)
        if arm is not None and ("DataToken" in arm[1][3]):
            continue
        n_sites += 1
        if arm is None:
            chk.bad("length-provenance", where, f"{kind_}@{n[1]}", "inside a decode-outcome arm", "no enclosing arm", loc=f"{h['loc']['f']}:{n[1]}")
            continue
        p, g, b, ln = H.match_arms(arm[1])[arm[2]]
        guard_undef = g is not None and any((c or "").endswith("Length::is_undefined") for c, _ in H.calls(g))
        san = [x for c, x in H.calls(b) if c and c.endswith("::sanitize_length") and x[1] <= n[1]]
        ok = guard_undef or len(san) >= 1
        detail = "guard len.is_undefined()" if guard_undef else (f"sanitize_length at line {san[0][1]}" if san else "no sanitize_length before the token")
        if ok and not guard_undef:
            # the sanitised value must be what is emitted: `let len = match sanitize(..) {Some(len) => len ..}` / `let Some(len) = .. else` / `header.len = len`
            fail_exit = any((H.kind(x) == "mcall" and x[3] == "fail" and "Invalid" in H.show(x[4], 2)) for x in H.walk(b))
            ok = ok and fail_exit
            if not fail_exit:
                detail += "; None does not lead to an Invalid*Length error"
        chk.expect(ok, "length-provenance", where, f"{kind_}@arm{arm[2]}", "length sanitised (or undefined) before emission; None => Invalid*Length error",
                   detail, loc=f"{h['loc']['f']}:{n[1]}")
        # the header remembered for the value step (self.last_header) must be the header that the token reports, with the sanitised
        # length stored in it: the value is later consumed with last_header.len
        if kind_ == "ElementHeader" and not guard_undef and san:
            tok_arg = H.show(H.call_args(n)[0], 4) if H.call_args(n) else None
            saved = [x for x in H.walk(b) if H.kind(x) == "assign" and H.show(x[2], 3) == "self.last_header"]
            saved_arg = None
            if saved:
                sv = H.peel(saved[-1][3])
                saved_arg = H.show(H.call_args(sv)[0], 4) if H.kind(sv) == "call" and H.call_args(sv) else H.show(sv, 4)
            len_set = [x for x in H.walk(b) if H.kind(x) == "assign" and tok_arg is not None and H.show(x[2], 3) == f"{tok_arg}.len" and x[1] <= (saved[-1][1] if saved else n[1])]
            ok_h = tok_arg is not None and saved_arg == tok_arg and len(len_set) >= 1
            chk.expect(ok_h, "length-provenance", where, f"{kind_}@arm{arm[2]}/saved-header", "header.len = <sanitised>; self.last_header = Some(header); token carries the same header",
                       {"token": tok_arg, "saved": saved_arg, "len_assigned": len(len_set)}, loc=f"{h['loc']['f']}:{n[1]}")
        # the delimiter record pushed in the same arm must carry the very length that the token reports (the sanitised one):
        # a record with the raw length ends the item one byte early under NextEven
        if kind_ in ("ItemStart", "SequenceStart"):
            emitted = H.show(H.struct_field(n, "len"), 4)
            pushes = [x for x in H.walk(b) if H.kind(x) == "mcall" and x[3] == "push_sequence_token" and len(x[5]) >= 2]
            for x in pushes:
                pushed = H.show(x[5][1], 4)

                def binder(name, before_line):
                    """initialiser of the nearest `let name = ..` in this arm before the line, or None if the name is the arm's pattern binding"""
                    lets = [s for s in H.walk(b) if H.kind(s) == "slet" and name in H.pat_bindings(s[2]) and s[1] <= before_line and s[3] is not None]
                    return lets[-1][3] if lets else None
                same_name = pushed == emitted
                bp, be = binder(pushed, x[1]), binder(emitted, n[1])
                same_binding = same_name and (bp is be)
                san_ok = guard_undef or not san or (bp is not None and any((c or "").endswith("::sanitize_length") for c, _ in H.calls(bp))) or pushed.endswith("UNDEFINED")
                chk.expect(same_binding and san_ok, "length-provenance", where, f"{kind_}@arm{arm[2]}/pushed-length", "push_sequence_token gets the same (sanitised) length binding as the emitted token",
                           {"pushed": pushed, "emitted": emitted, "pushed_is_sanitised": bool(san_ok)}, loc=f"{h['loc']['f']}:{x[1]}")
    return n_sites


def run(chk, tier):
    fx = facts.load("W")
    chk.analysed["facts"] = fx.meta
    chk.assume("Read::read_exact fills the whole slice or fails; BasicDecode::decode_XX_into fills the whole slice (width per unit checked in C03/C01)")
    chk.assume("io::copy(take(n)) copies n bytes unless the stream ends early (flagged `at-most` in evidence; see audit note)")

    # ---------- rule 1
    chk.rule("sanitize-length", "both sanitize_length copies: Accept->unchanged, NextEven->len+1, Fail->None, only for defined odd lengths")
    sanitize_table(chk, fx, f"{P}::read::DataSetReader::<S>::sanitize_length", "eager")
    sanitize_table(chk, fx, f"{P}::lazy_read::LazyDataSetReader::<S>::sanitize_length", "lazy")
    chk.rule("length-provenance", "every ItemStart/SequenceStart/ElementHeader token built from a decoded header carries a length that went through "
             "sanitize_length in the same decode-outcome arm (or the arm is guarded by len.is_undefined()), and the None case exits with an Invalid*Length error")
    n1 = token_provenance(chk, fx, f"<{P}::read::DataSetReader<S> as core::iter::traits::iterator::Iterator>::next", "eager", f"{P}::DataToken")
    n2 = token_provenance(chk, fx, f"{P}::lazy_read::LazyDataSetReader::<S>::advance", "lazy", f"{P}::LazyDataToken")
    chk.floor("length-provenance", "eager token sites", n1, 5)
    chk.floor("length-provenance", "lazy token sites", n2, 5)

    # ---------- rule 2: ACC
    chk.rule("position-accounting", "ACC: on every Ok path of every StatefulDecoder method touching self.from, bytes consumed == bytes added to "
             "self.position (polynomials over opaque atoms: len, (len >> k), returned counts)")
    hs = fx.find_hir("dicom_parser", lambda p: p.startswith(SD + "::<") or p.startswith(f"<{SD}<"))
    model = accmodels.DecoderModel()
    n_fns = 0
    n_paths = 0
    for h in sorted(hs, key=lambda x: x["path"]):
        short = h["path"].split("::")[-1]
        try:
            recs = acc.check_fn(model, h, short)
        except acc.Unknown as e:
            # only matters if the function touches the stream or the counter
            txt = H.show(h["body"], 12)
            touches = any(acc.place_text(x) in ("self.from", "self.position") and H.kind(x) == "field" for x in H.walk(h["body"]))
            writes = any(H.kind(x) in ("assign", "assignop") and acc.place_text(x[2] if H.kind(x) == "assign" else x[3]) == "self.position"
                         for x in H.walk(h["body"]))
            uses_from = any(acc.place_text(x) == "self.from" for x in H.walk(h["body"]) if H.kind(x) == "field")
            if writes or uses_from:
                chk.bad("position-accounting", short, "shape", "a shape the byte-movement model knows", str(e), loc=C.fn_loc(h))
            continue
        relevant = [r for r in recs if r["moved"] != "0" or r["acct"] != "0"]
        if not relevant:
            continue
        n_fns += 1
        if short in model.self_movers:
            # a consume-only helper: must move exactly its argument and leave the counter alone
            arg = H.pat_bindings(h["params"][1 + model.self_movers[short]])[0]
            for r in recs:
                if r["outcome"] == "err":
                    continue
                chk.expect(r["moved"] == arg and r["acct"] == "0", "position-accounting", short, f"helper-moves-exactly:{arg}",
                           f"consumed == {arg}, accounted == 0", f"consumed {r['moved']}, accounted {r['acct']}", loc=C.fn_loc(h))
            continue
        seen = set()
        for r in recs:
            if r["outcome"] == "err":
                continue
            key = (r["outcome"], r["moved"], r["acct"])
            if key in seen:
                continue
            seen.add(key)
            n_paths += 1
            inst = f"path[{r['outcome']}]:consumed={r['moved']};accounted={r['acct']}"
            chk.expect(r["balanced"], "position-accounting", short, inst, "consumed == accounted", f"consumed {r['moved']} vs accounted {r['acct']}",
                       loc=C.fn_loc(h), detail={"trace": r["trace"], "flags": r["flags"]})
            if r["flags"]:
                chk.note(f"{short}: {r['flags']}")
            # ... and what is consumed is the declared amount: a value reader takes exactly the element's length, the raw readers
            # exactly the requested number of bytes (4 per requested word for read_u32)
            want_moved = "len" if short.startswith("read_value_") else {"read_to": "length", "skip_bytes": "length", "read_u32": "4*n"}.get(short)
            if want_moved is not None and r["outcome"] == "ok":
                chk.expect(r["moved"] == want_moved, "position-accounting", short, "consumes-the-declared-length", want_moved, r["moved"], loc=C.fn_loc(h))
        if short == "read_value_ss":
            chk.sample({"rule": "position-accounting", "fn": short, "paths": recs})
    chk.floor("position-accounting", "decoder methods moving the cursor", n_fns, 22)
    # read_u32_to_vec(length in bytes) asks read_u32 for length / 4 words (the basic offset table is read through it)
    hw = [hh for hh in fx.crate("dicom_parser")["hir"] if hh["path"].endswith("StatefulDecode>::read_u32_to_vec") and "StatefulDecoder<" in hh["path"]]
    if len(hw) != 1:
        raise facts.MissingAnchor("StatefulDecoder::read_u32_to_vec")
    cw = [x for c, x in H.calls(hw[0]["body"]) if c and c.endswith("::read_u32")]
    words = H.show(H.call_args(cw[0])[1], 5) if len(cw) == 1 else None
    chk.expect(words in ("((length Shr 2) as usize)", "((length Div 4) as usize)", "((length as usize) Shr 2)", "((length as usize) Div 4)"), "position-accounting", "read_u32_to_vec",
               "bytes-to-words", "length >> 2 (or / 4) words", words, loc=C.fn_loc(hw[0]))
    chk.analysed["acc_functions"] = n_fns
    chk.analysed["acc_paths"] = n_paths
    # read_u32_to_vec passes (length >> 2) elements: the remainder of an offset table whose length is not a multiple of 4
    h = fx.hirfn(f"<{SD}<D, S, BD> as dicom_parser::stateful::decode::StatefulDecode>::read_u32_to_vec")
    chk.note("read_u32_to_vec(length) reads 4*(length>>2) bytes: callers must pass a multiple of 4 (offset table); audited in C06/C05")

    # ---------- rule 3: plumbing of the strategy option
    chk.rule("odd-length-plumbing", "every construction of DataSetReaderOptions / LazyDataSetReaderOptions in dicom-object takes `odd_length` from the "
             "caller's odd_length parameter/field, and the public setters store their argument")
    n = 0
    for (cn, kind), d in [(("dicom_object", "lib"), fx.crate("dicom_object"))]:
        for h in d["hir"]:
            for x in H.walk(h["body"]):
                if H.kind(x) == "struct" and x[2] in (f"{P}::read::DataSetReaderOptions", f"{P}::lazy_read::LazyDataSetReaderOptions"):
                    f = H.struct_field(x, "odd_length")
                    if f is None:
                        # `..Default::default()` without odd_length: must be followed by `options.odd_length = odd_length`
                        continue
                    n += 1
                    src = H.show(f, 4)
                    ok = src in ("odd_length", "self.odd_length", "Deref(odd_length)", "options.odd_length")
                    chk.expect(ok, "odd-length-plumbing", h["path"], f"{x[2].split('::')[-1]}@{x[1]}", "odd_length / self.odd_length", src,
                               loc=f"{h['loc']['f']}:{x[1]}")
                if H.kind(x) == "assign" and H.show(x[2], 3).endswith(".odd_length"):
                    n += 1
                    src = H.show(x[3], 4)
                    ok = src in ("odd_length", "option", "Deref(odd_length)", "self.odd_length")
                    chk.expect(ok, "odd-length-plumbing", h["path"], f"assign@{x[1]}", "the caller's odd_length", src, loc=f"{h['loc']['f']}:{x[1]}")
    chk.floor("odd-length-plumbing", "option plumbing sites", n, 4)
    # calls that pass the strategy positionally: the argument bound to a parameter named odd_length must be the caller's odd_length
    n_pos = 0
    d = fx.crate("dicom_object")
    params_of = {h["path"]: [H.pat_bindings(p) for p in h["params"]] for h in d["hir"]}
    for h in d["hir"]:
        for c, x in H.calls(h["body"]):
            if c in params_of:
                names = [p[0] if p else None for p in params_of[c]]
                if "odd_length" in names:
                    i = names.index("odd_length")
                    args = H.call_args(x)
                    if i < len(args):
                        n_pos += 1
                        src = H.show(args[i], 4)
                        ok = src in ("odd_length", "self.odd_length", "Deref(odd_length)", "options.odd_length")
                        # convenience constructors that expose no strategy parameter use the default
                        caller_names = [q for p_ in params_of.get(h["path"], []) for q in p_]
                        holder = "Options" in h["path"]
                        if src.endswith("Default::default()") and "odd_length" not in caller_names and not holder:
                            ok = True
                        chk.expect(ok, "odd-length-plumbing", h["path"], f"arg->{c.split('::')[-1]}@{x[1]}", "odd_length / self.odd_length", src,
                                   loc=f"{h['loc']['f']}:{x[1]}")
    chk.floor("odd-length-plumbing", "positional odd_length arguments", n_pos, 4)

    # the position advances by the byte count each header decoder *reports*: it must be the count it read (C03 header-bytes-read,
    # per decoder, per header form, including the item / delimiter early return)
    from . import c03, report
    sub = report.Check("C03", tier)
    c03.run(sub, tier)
    chk.rule("reported-header-bytes", "every header decoder reports exactly the bytes it consumed: element headers per form, item headers and the FFFE early return (instances of C03 header-bytes-read)")
    n_hb = 0
    for inst in sub.instances:
        if inst["rule"] == "header-bytes-read":
            n_hb += 1
            if inst["status"] == "ok":
                chk.ok("reported-header-bytes", inst["fn"], inst["instance"], inst.get("detail"))
            else:
                chk.bad("reported-header-bytes", inst["fn"], inst["instance"], inst.get("expected"), inst.get("found"), loc=inst.get("loc"))
    chk.floor("reported-header-bytes", "decoder accounting instances", n_hb, 12)
    chk.undecided.append("concrete positions on concrete streams; behaviour of third-party Read implementations")
