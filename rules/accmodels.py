"""Byte-movement models for ACC (DESIGN Appendix C)."""
import re

from . import hirq as H
from .acc import Model, Poly, Unknown, place_text

WIDTH = {"us": 2, "ss": 2, "ul": 4, "sl": 4, "fl": 4, "uv": 8, "sv": 8, "fd": 8}


class DecoderModel(Model):
    stream = "self.from"
    counter = "self.position"
    balanced_self_methods = set()
    # helper -> index of the argument giving the number of bytes it consumes (it must not touch the counter)
    self_movers = {"skip_remainder": 0}

    def stream_call(self, it, n, st):
        name = n[3] if n[0] == "mcall" else (H.callee(n) or "").split("::")[-1]
        args = H.call_args(n)
        callee = H.callee(n) or ""
        if name == "read_exact" and place_text(args[0]) == self.stream:
            return it.slice_size(args[1], st), None
        m = re.fullmatch(r"decode_(us|ss|ul|sl|fl|uv|sv|fd)_into", name)
        if m and callee.startswith("dicom_encoding::decode::BasicDecode::") and place_text(args[1]) == self.stream:
            return Poly.const(WIDTH[m.group(1)]) * it.slice_size(args[2], st), None
        m = re.fullmatch(r"decode_(us|ss|ul|sl|fl|uv|sv|fd)", name)
        if m and callee.startswith("dicom_encoding::decode::BasicDecode::"):
            return Poly.const(WIDTH[m.group(1)]), None
        if name == "decode_tag" and callee.startswith("dicom_encoding::decode::BasicDecode::"):
            return Poly.const(4), None
        if name == "decode_header" and "DecodeFrom" in callee:
            a = Poly.atom("bytes_read(decode_header)")
            return a, a
        if name == "decode_item_header" and "DecodeFrom" in callee:
            return Poly.const(8), None
        if name == "copy" and callee == "std::io::copy::copy":
            src = H.peel(args[0])
            if H.kind(src) == "mcall" and src[3] == "take" and place_text(src[4]) == self.stream:
                st.flags.add("at-most(io::copy of take(n): short only at end of stream)")
                return it.poly(src[5][0], st), None
        if name == "seek":
            st.flags.add("seek")
            return Poly(), None
        raise Unknown(f"unrecognised call on the input stream: {H.show(n)} [{callee}]")


class EncoderModel(Model):
    stream = "self.to"
    counter = "self.bytes_written"
    balanced_self_methods = {"encode_element_header", "encode_item_header", "encode_item_delimiter", "encode_sequence_delimiter",
                             "write_raw_bytes", "write_bytes", "encode_offset_table", "encode_primitive_element",
                             "encode_text_element", "encode_texts_element", "encode_element_as_text"}

    def stream_call(self, it, n, st):
        name = n[3] if n[0] == "mcall" else (H.callee(n) or "").split("::")[-1]
        args = H.call_args(n)
        callee = H.callee(n) or ""
        if name == "write_all" and place_text(args[0]) == self.stream:
            return it.slice_size(args[1], st), None
        if name == "write_fmt" and place_text(args[0]) == self.stream:
            # write!(self.to, "{x}") of a single string argument: len(x) bytes
            fa = args[1]
            bound = {b for x in H.walk(fa) if H.kind(x) == "slet" for b in H.pat_bindings(x[2])}
            names = [x[2] for x in H.walk(fa) if H.kind(x) == "path" and x[3] == "local" and x[2] not in bound]
            lits = [x[2][1] for x in H.walk(fa) if H.kind(x) == "lit" and x[2][0] == "str" and x[2][1]]
            names = sorted(set(names))
            if len(names) == 1 and not lits:
                return Poly.atom(f"len({names[0]})"), None
            raise Unknown(f"write! with a format this model does not know: {H.show(fa, 6)}")
        if "EncodeTo" in callee or callee.startswith("dicom_encoding::encode::Encode"):
            if name == "encode_element_header":
                a = Poly.atom("ret(encode_element_header)")
                return a, a
            if name in ("encode_item_header", "encode_item_delimiter", "encode_sequence_delimiter"):
                return Poly.const(8), None
            if name == "encode_primitive":
                a = Poly.atom("ret(encode_primitive)")
                return a, a
            if name == "encode_offset_table":
                return Poly.const(4) * it.slice_size(args[2], st), None
        if name == "flush":
            return Poly(), None
        raise Unknown(f"unrecognised call on the output stream: {H.show(n)} [{callee}]")
