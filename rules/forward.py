"""FORWARD template: convenience entry points hand the caller's arguments to the full entry point unchanged.

A *forwarder* is a function whose body is one call into dicom-rs code (behind `?`, `Ok(..)`, `.map_err(..)`, `.context(..)` and
`let` bindings that are substituted) and whose parameters are referenced nowhere but in that call's arguments. For every forwarder
in the files a property is anchored in, each parameter
  * reaches the call (not dropped, not replaced by a default),
  * exactly once, as itself: behind `&`, `&mut`, `*`, `.as_ref()`, `.into()`, `.clone()`, `Some(..)` ... only (FAITHFUL), never through
    a computation, a branch or a text/number rewriting method,
  * and not in the slot of a *different* parameter of the callee that carries the wrapper parameter's own name (swapped arguments).
Functions that build a value out of their parameters (constructors, closures capturing the parameter) are not forwarders and are
listed with the reason in audit/forwarders.tsv when they have the single-call shape.

This is a necessary condition of every property observed through the convenience API: the property is stated for the values the
caller passed, the mechanism rules are stated for the full entry point.
"""
import os
import re

from . import facts, hirq as H, common as C

FAITHFUL_M = {"as_ref", "as_mut", "into", "clone", "to_owned", "borrow", "borrow_mut", "as_str", "as_slice", "iter", "into_iter", "by_ref", "deref", "deref_mut",
              "as_deref", "as_deref_mut", "to_vec", "cloned", "copied", "as_path", "to_path_buf", "into_inner", "to_string", "as_bytes", "into_boxed_slice", "into_vec"}
WRAP_M = {"map_err", "context", "with_context", "ok", "boxed", "whatever_context"}
FAITHFUL_F = re.compile(r"(Into<.*>>::into|From<.*>>::from|AsRef<.*>>::as_ref|Option::Some|Box::<.*>::new|Box::new|Borrow<.*>>::borrow|IntoIterator>::into_iter|Clone>::clone|Cow::Owned|Cow::Borrowed)$")
AUDIT = os.path.join(os.path.dirname(__file__), "..", "audit", "forwarders.tsv")


def _subst(n, env):
    if not H.is_node(n):
        if isinstance(n, list):
            return [_subst(x, env) for x in n]
        return n
    if n[0] == "path" and isinstance(n[2], str) and n[2] in env:
        return env[n[2]]
    return [n[0], n[1]] + [_subst(x, env) for x in n[2:]]


def core_call(body):
    """(call node, True) when the body is a single call behind value-preserving wrappers; let-bound names are substituted into it"""
    n = body
    env = {}
    while H.is_node(n):
        k = n[0]
        if k == "block" and n[3] is not None and all(H.kind(s) == "slet" and s[3] is not None and (s[2][0] == "pwild" or (len(H.pat_bindings(s[2])) == 1 and s[2][0] == "pbind")) for s in n[2]):
            for s in n[2]:
                if s[2][0] != "pwild":  # `let _ = x;` only discards x
                    env[H.pat_bindings(s[2])[0]] = _subst(s[3], env)
            n = n[3]
        elif k == "match" and len(n) > 5 and n[5] in ("TryDesugar", "AwaitDesugar"):
            n = n[2]
        elif k == "call" and (H.callee(n) or "").endswith(("Result::Ok", "Try>::branch", "IntoFuture>::into_future")) and len(n[3]) == 1:
            n = n[3][0]
        elif k == "mcall" and n[3] in WRAP_M:
            n = n[4]
        else:
            break
    if H.is_node(n) and n[0] in ("call", "mcall"):
        return _subst(n, env) if env else n
    return None


def local_uses(n, name):
    return sum(1 for x in H.walk(n) if H.kind(x) == "path" and x[2] == name)


def faithful_core(a):
    """strip value-preserving adapters; returns the innermost node"""
    while H.is_node(a):
        k = a[0]
        if k == "ref":
            a = a[3]
        elif k == "un" and a[2] == "Deref":
            a = a[3]
        elif k == "block" and not a[2] and a[3] is not None:
            a = a[3]
        elif k == "mcall" and a[3] in FAITHFUL_M and not a[5]:
            a = a[4]
        elif k == "call" and len(a[3]) == 1 and FAITHFUL_F.search(H.callee(a) or ""):
            a = a[3][0]
        else:
            break
    return a


def handed_over(c, p):
    """number of places inside call `c` where local `p` is, as itself, an argument of a call (not its receiver), a field of a struct
    literal or an element of an array / tuple -- i.e. handed on unchanged, possibly to an inner constructor"""
    n = 0
    for x in H.walk(c):
        k = H.kind(x)
        if k == "call":
            slots = x[3]
        elif k == "mcall":
            slots = x[5]
        elif k in ("struct", "array", "tuple"):
            slots = H.children(x)
        else:
            continue
        for a in slots:
            a = faithful_core(a)
            if H.kind(a) == "match" and len(a) > 5 and a[5] == "TryDesugar":
                continue
            if H.kind(a) == "path" and a[2] == p:
                n += 1
    return n


def env_used(h, p):
    """the parameter only feeds `let` bindings that were substituted into the call"""
    b = h["body"]
    if H.kind(b) != "block":
        return False
    outside = sum(local_uses(s, p) for s in b[2] if H.kind(s) != "slet")
    return outside == 0


def param_names(h):
    out = []
    for p in h.get("params", []):
        b = H.pat_bindings(p)
        out.append(b[0] if len(b) == 1 and isinstance(p, list) and p and p[0] == "pbind" else None)
    return out


def load_audit():
    rows = {}
    if os.path.exists(AUDIT):
        for line in open(AUDIT):
            line = line.rstrip("\n")
            if not line or line.startswith("#"):
                continue
            f = line.split("\t")
            rows[(f[0], f[1])] = f[2]
    return rows


def forwarders(fx, files, kinds=("lib", "bin")):
    """yield (hir fn, call node, callee path) for every forwarder defined in `files`"""
    files = set(files)
    wanted = {"dicom_" + f.split("/")[0].replace("-", "_") for f in files}
    unknown = wanted - set(fx.crate_names())
    if unknown:
        raise facts.MissingAnchor(f"forwarders: no crate facts for {sorted(unknown)}")
    for key in sorted(fx.files):
        if key[0] not in wanted or key[1] not in kinds:
            continue
        d = fx.crate(*key)
        for h in d["hir"]:
            if h["loc"]["f"] not in files or h["loc"].get("m") or re.search(r"::tests?::", h["path"]) or "{closure" in h["path"]:
                continue
            if not H.is_node(h.get("body")):
                continue
            c = core_call(h["body"])
            if c is None:
                continue
            cal = H.callee(c)
            if not cal or not re.match(r"<?&?(mut )?dicom", cal):
                continue
            # constructors of tuple variants / structs are value builders, not entry points
            last = cal.split("::")[-1]
            if last[:1].isupper():
                continue
            yield h, c, cal


# forwarded parameters counted on the pinned tree per property (anchor files of properties.jsonl); the floor is 90 % of the count so
# that the rule cannot pass vacuously while a removed convenience function does not raise an alarm
COUNTED = {"C01": 252, "C02": 116, "C03": 68, "C04": 103, "C05": 134, "C06": 71, "C07": 57, "C08": 12, "C09": 59, "C10": 91, "C13": 44, "C14": 2, "C15": 4, "C16": 10,
           "C26": 3, "C27": 3, "C28": 7, "C29": 12, "C30": 12, "C31": 42, "C32": 4, "C33": 3, "C34": 72}


def setters(chk, fx, rule, files):
    """option / builder setters named after a field store their argument in that field and in no other one"""
    chk.rule(rule, "SETTER: a method `fn <field>(self, x)` of an options / builder struct assigns an expression containing x to self.<field>, and x reaches no other field")
    files = set(files)
    wanted = {"dicom_" + f.split("/")[0].replace("-", "_") for f in files}
    n = 0
    for key in sorted(fx.files):
        if key[0] not in wanted:
            continue
        d = fx.crate(*key)
        adts = {a["path"]: a for a in d["adts"]}
        for h in d["hir"]:
            if h["loc"]["f"] not in files or h["loc"].get("m") or "{closure" in h["path"]:
                continue
            m = re.match(r"(.*)::(\w+)$", h["path"])
            if not m:
                continue
            base = re.sub(r"::<.*>$", "", m.group(1))
            a = adts.get(base)
            if not a:
                continue
            fields = [f["name"] if isinstance(f, dict) else f[0] for v in a.get("variants", []) for f in v.get("fields", [])]
            name = m.group(2)
            ps = param_names(h)
            if name not in fields or len(ps) != 2 or ps[0] != "self" or ps[1] is None:
                continue
            asg = [(H.show(x[2], 3), x[3]) for x in H.walk(h["body"]) if H.kind(x) == "assign"]
            if not asg:
                continue
            taint = {ps[1]}  # the argument and the locals computed from it
            for s in H.walk(h["body"]):
                if H.kind(s) == "slet" and s[3] is not None and any(local_uses(s[3], t) for t in taint):
                    taint |= set(H.pat_bindings(s[2]))
            carries = lambda r: any(local_uses(r, t) for t in taint)
            own = [H.show(r, 5) for l, r in asg if l == f"self.{name}" and carries(r)]
            other = [l for l, r in asg if l != f"self.{name}" and carries(r)]
            n += 1
            chk.expect(bool(own) and not other, rule, h["path"], f"stores `{ps[1]}` in self.{name}", f"self.{name} = <{ps[1]}>, no other field receives it",
                       {"assigned": [(l, H.show(r, 5)) for l, r in asg]}, loc=C.fn_loc(h))
    return n


def rebuilds(chk, fx, rule, files):
    """struct literals that rebuild Self from `self` (type-changing builder steps) copy every field they do not set from a parameter"""
    chk.rule(rule, "REBUILD: in a method of struct S, a literal `S { f: self.f, .. }` that copies most fields from self initialises every field either from "
                   "self.<the same field> or from a parameter of the method (no option silently reset to a constant, no field copied from another one)")
    files = set(files)
    wanted = {"dicom_" + f.split("/")[0].replace("-", "_") for f in files}
    n = 0
    for key in sorted(fx.files):
        if key[0] not in wanted:
            continue
        d = fx.crate(*key)
        for h in d["hir"]:
            if h["loc"]["f"] not in files or h["loc"].get("m") or "{closure" in h["path"]:
                continue
            ps = [p for p in param_names(h) if p]
            if "self" not in ps:
                continue
            for x in H.walk(h["body"]):
                if H.kind(x) != "struct" or not isinstance(x[4], list):
                    continue
                base = re.sub(r"::<.*>$", "", re.sub(r"::\w+$", "", h["path"]))
                if x[2] != base:
                    continue
                inits = [(f[0], f[1]) for f in x[4] if isinstance(f, list) and len(f) == 2 and isinstance(f[0], str)]
                copies = [f for f, e in inits if H.show(faithful_core(e), 3) == f"self.{f}"]
                if len(copies) * 2 < len(inits) or len(inits) < 3:
                    continue
                lets = {b: s[3] for s in H.walk(h["body"]) if H.kind(s) == "slet" and s[3] is not None for b in H.pat_bindings(s[2])}
                for f, e in inits:
                    n += 1
                    c = faithful_core(e)
                    from_param = any(local_uses(e, p) for p in ps if p != "self")
                    # a local computed from the same field of self (and from no other field) counts as that field
                    derived = H.kind(c) == "path" and c[2] in lets and set(re.findall(r"self\.(\w+)", H.show(lets[c[2]], 9))) == {f}
                    ok = H.show(c, 3) == f"self.{f}" or derived or (from_param and not local_uses(e, "self"))
                    chk.expect(ok, rule, h["path"], f"{x[2].split('::')[-1]}.{f}", f"self.{f} or a parameter", H.show(e, 5), loc=f"{h['loc']['f']}:{x[1]}")
    return n


def swapped_args(chk, fx, rule, files):
    """call sites whose arguments are locals named after the callee's parameters pass them in the callee's order"""
    chk.rule(rule, "ARG-NAMES: at a call of a dicom-rs function, two arguments that are plain locals carrying the names of two of the callee's parameters "
                   "are not passed in each other's slots (same-typed arguments swapped compile silently)")
    files = set(files)
    wanted = {"dicom_" + f.split("/")[0].replace("-", "_") for f in files}
    n = 0
    for key in sorted(fx.files):
        if key[0] not in wanted:
            continue
        d = fx.crate(*key)
        for h in d["hir"]:
            if h["loc"]["f"] not in files or h["loc"].get("m") or not H.is_node(h.get("body")):
                continue
            ordn = {}
            for x in H.walk(h["body"]):
                if H.kind(x) not in ("call", "mcall"):
                    continue
                cal = H.callee(x)
                if not cal or not re.match(r"<?&?(mut )?dicom", cal) or not fx.has_hir(cal):
                    continue
                cp = param_names(fx.hirfn(cal))
                args = H.call_args(x)
                if len(cp) != len(args):
                    continue
                names = []
                for a in args:
                    c = faithful_core(a)
                    names.append(c[2] if H.kind(c) == "path" and isinstance(c[2], str) and "::" not in c[2] else None)
                named = [i for i, nm in enumerate(names) if nm and nm != "self" and nm in cp]
                if len(named) < 2:
                    continue
                short = cal.split("::")[-1]
                ordn[short] = ordn.get(short, 0) + 1
                crossed = [(names[i], names[j]) for i in named for j in named if i < j and names[i] == cp[j] and names[j] == cp[i] and names[i] != names[j]]
                n += 1
                chk.expect(not crossed, rule, h["path"], f"call of {short}#{ordn[short]}", "arguments named after parameters sit in those parameters' slots",
                           {"arguments": names, "parameters": cp, "crossed": crossed}, loc=f"{h['loc']['f']}:{x[1]}")
    return n


def ctor_fields(chk, fx, rule, files):
    """a struct literal field that carries the name of one of the function's parameters is initialised with that parameter itself"""
    chk.rule(rule, "CTOR-FIELD: in a struct literal `S { p: <expr>, .. }` (or shorthand `S { p, .. }`) written in a function with a parameter `p`, the field takes `p` as it is "
                   "(only & / into / clone / Some adapters): a limit, an id or an option stored under its own name is the caller's value")
    files = set(files)
    wanted = {"dicom_" + f.split("/")[0].replace("-", "_") for f in files}
    audit = load_audit()
    n = 0
    for key in sorted(fx.files):
        if key[0] not in wanted:
            continue
        d = fx.crate(*key)
        for h in d["hir"]:
            if h["loc"]["f"] not in files or h["loc"].get("m") or not H.is_node(h.get("body")) or re.search(r"::tests?::", h["path"]):
                continue
            ps = {p for p in param_names(h) if p and p != "self"}
            if not ps:
                continue
            for y in H.walk(h["body"]):
                if H.kind(y) != "struct" or not isinstance(y[4], list) or H.mac(y) or y[2].endswith("Snafu"):
                    continue  # snafu context selectors describe the failure (`ts: ts.name()`), they do not store state
                for f in y[4]:
                    if not (isinstance(f, list) and len(f) == 2 and isinstance(f[0], str)) or f[0] not in ps:
                        continue
                    # the parameter may have been re-bound on purpose (`let p = p.into();`): follow plain local re-bindings of the same name
                    c = faithful_core(f[1])
                    n += 1
                    if (h["path"], "field:" + f[0]) in audit:
                        chk.ok(rule, h["path"], f"{y[2].split('::')[-1]}.{f[0]}", "audited: " + audit[(h["path"], "field:" + f[0])])
                        continue
                    ok = H.kind(c) == "path" and c[2] == f[0]
                    chk.expect(ok, rule, h["path"], f"{y[2].split('::')[-1]}.{f[0]}", f"the parameter `{f[0]}` itself", H.show(f[1], 5), loc=f"{h['loc']['f']}:{y[1]}")
    return n


CTOR_COUNTED = {"C01": 35, "C02": 30, "C03": 19, "C04": 7, "C05": 80, "C06": 31, "C07": 18, "C08": 5, "C09": 17, "C10": 23, "C11": 26, "C13": 19, "C14": 22, "C15": 1, "C16": 8,
                "C25": 4, "C26": 6, "C28": 3, "C29": 5, "C30": 5, "C31": 13, "C33": 1, "C34": 26}
ARGS_COUNTED = {"C01": 98, "C02": 92, "C03": 12, "C04": 15, "C05": 176, "C06": 83, "C07": 15, "C08": 12, "C09": 71, "C10": 79, "C11": 3, "C13": 70, "C16": 2, "C23": 1,
                "C25": 7, "C26": 5, "C27": 5, "C28": 4, "C29": 7, "C30": 11, "C31": 70, "C32": 5, "C33": 12, "C34": 88}
REBUILDS_COUNTED = {"C05": 28, "C06": 26, "C09": 14, "C16": 5}
SETTERS_COUNTED = {"C01": 4, "C02": 4, "C04": 1, "C05": 20, "C06": 9, "C07": 3, "C08": 3, "C09": 15, "C28": 4, "C29": 13, "C30": 13, "C34": 1}


# C06: lazy values and the collector read their values through `impl StatefulDecode for &mut D` and LazyDataToken::into_value (the eager
# reader owns its decoder); C01/C02: tokens of every value come from parser/src/dataset/mod.rs
EXTRA_FILES = {"C06": ["parser/src/stateful/decode.rs", "parser/src/dataset/mod.rs"],
               # "no PDU longer than the peer's maximum" also holds on the send_pdata path: the writers are built in pdata.rs
               "C29": ["ul/src/association/pdata.rs"], "C33": ["ul/src/association/pdata.rs"]}


def check_property(chk, pid):
    import json
    files = None
    with open(os.path.join(os.path.dirname(__file__), "..", "properties.jsonl")) as fh:
        for line in fh:
            p = json.loads(line)
            if p["id"] == pid:
                files = p["anchors"]["files"]
    if not files:
        return 0
    # files the property's behaviour goes through although properties.jsonl does not anchor it there
    files = list(files) + [f for f in EXTRA_FILES.get(pid, []) if f not in files]
    fx = facts.load("W")
    n = 0
    if COUNTED.get(pid):
        n = check(chk, fx, "forwarders", files, floor=(COUNTED[pid] * 9) // 10)
    if CTOR_COUNTED.get(pid):
        m = ctor_fields(chk, fx, "constructor-fields", files)
        chk.floor("constructor-fields", "fields named after a parameter", m, (CTOR_COUNTED[pid] * 9) // 10)
    if ARGS_COUNTED.get(pid):
        m = swapped_args(chk, fx, "argument-names", files)
        chk.floor("argument-names", "call sites with two arguments named after parameters", m, (ARGS_COUNTED[pid] * 9) // 10)
    if SETTERS_COUNTED.get(pid):
        m = setters(chk, fx, "option-setters", files)
        chk.floor("option-setters", "setters named after a field", m, (SETTERS_COUNTED[pid] * 9) // 10)
    if REBUILDS_COUNTED.get(pid):
        m = rebuilds(chk, fx, "option-rebuilds", files)
        chk.floor("option-rebuilds", "fields of rebuild literals", m, (REBUILDS_COUNTED[pid] * 9) // 10)
    return n


def check(chk, fx, rule, files, floor=None):
    chk.rule(rule, "FORWARD: every single-call convenience function in the anchored files passes each of its parameters to the full entry point exactly once and as itself "
                   "(only & / * / as_ref / into / clone / Some adapters), in the slot of the same name where the callee has one; value builders are audited in audit/forwarders.tsv")
    audit = load_audit()
    used_audit = set()
    n = 0
    for h, c, cal in forwarders(fx, files):
        params = [p for p in param_names(h)]
        args = H.call_args(c)
        cores = [faithful_core(a) for a in args]
        callee_params = None
        if fx.has_hir(cal):
            callee_params = param_names(fx.hirfn(cal))
        fn = h["path"]
        # delegation impls (`impl Trait for &T / &mut T / Box<T>`): method m forwards to the inner value's m, not to a sibling method
        md = re.match(r"^<(?:&(?:'\w+ )?(?:mut )?[A-Z]\w?|alloc::boxed::Box<[A-Z]\w?>) as .*>::(\w+)$", fn)  # blanket impls over a type parameter only
        if md and H.kind(c) == "mcall" and "self" in H.show(c[4], 4):
            n += 1
            chk.expect(c[3] == md.group(1), rule, fn, "delegates-to-the-same-method", md.group(1), c[3], loc=C.fn_loc(h))
        for p in params:
            if p is None or p == "self":
                continue
            key = (fn, p)
            if p.startswith("_") and key not in audit:
                n += 1
                chk.bad(rule, fn, f"param {p}", "passed once, as itself", "declared unused (`_` prefix): the call does not receive it", loc=C.fn_loc(h))
                continue
            total = local_uses(c, p)
            direct = [i for i, a in enumerate(cores) if H.kind(a) == "path" and a[2] == p]
            if local_uses(h["body"], p) != total and not env_used(h, p):
                continue  # also used outside the call (error context, closure ...): not a pure hand-over of this parameter
            if key in audit:
                used_audit.add(key)
                chk.ok(rule, fn, f"param {p}", f"audited: {audit[key]}")
                n += 1
                continue
            status, found = True, f"arg #{direct[0]} of {cal.split('::')[-1]}" if direct else None
            if total == 0:
                status, found = False, "dropped: the call does not receive it"
            elif not direct and handed_over(c, p) == total:
                found = "handed on as itself to an inner call / literal inside the arguments"
            elif len(direct) != 1:
                j = [i for i, a in enumerate(args) if local_uses(a, p)]
                status, found = False, f"not passed as itself exactly once: {[H.show(args[i], 5)[:90] for i in j]}"
            elif callee_params and len(callee_params) == len(args):
                i = direct[0]
                if callee_params[i] != p and p in callee_params:
                    status, found = False, f"passed in the slot of `{callee_params[i]}` while the callee has a parameter `{p}` at #{callee_params.index(p)}"
            n += 1
            chk.expect(status, rule, fn, f"param {p}", "passed once, as itself", found, loc=C.fn_loc(h))
    if floor is not None:
        chk.floor(rule, "forwarded parameters", n, floor)
    return n
