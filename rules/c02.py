"""C02 — reading and rewriting a canonical stream reproduces it byte for byte.

Byte equality of a stream is a runtime fact. What is decided here is the length-preservation plumbing it depends on:

1. sq-length-strategy (TAB): DataSetWriter::write, per (token kind, ExplicitLengthSqItemStrategy): which length is pushed on the writer's
   delimiter stack and which length reaches the header that is written; delimiters are written iff the pushed length is undefined.
   DataSetWriter::write_impl maps every token to its encoder call with the token's own operands.
2. len-plumbing (FLOW): the lengths decoded by the reader reach the object model and come back out of the token generators:
   reader tokens -> build_object / build_sequence -> InMemDicomObject.len, DataSetSequence length, element header length -> AsItem / ItemTokens /
   DataToken::from(header).
3. delimitation (TAB + PAIR): DataSetReader::update_seq_delimiters classifies end-of-sequence vs position as Equal -> end token,
   Less -> error, Greater -> continue, measured from the position recorded at push time; every value token emitted by the reader arms the
   delimiter check, so that an explicit-length sequence ends exactly after its last value.
4. default-codec (TAB): DefaultCharacterSetCodec decodes and encodes through the same single-byte total encoding; encoding is strict.
5. endianness-purity is shared with C03 (rule module c03) and re-run here: a byte-order slip in one codec direction is a rewrite difference.
"""
import re

from . import facts, hirq as H, common as C
from . import c03

LEVEL_TEXT = ("All 9 arms of DataSetWriter::write (x2 strategies where they branch), the 9 arms of write_impl, 14 length-carrying sites between reader, "
              "object model and token generators, the 3 orderings of update_seq_delimiters and all value-token sites of the reader are checked, "
              "plus byte-order purity of all codecs. Decides the length-preservation plumbing, not byte equality of concrete streams.")

P = "dicom_parser::dataset"
UNDEF = "dicom_core::header::Length::UNDEFINED"


def short(t):
    return (t.replace("dicom_core::header::", "").replace("dicom_parser::dataset::write::", "").replace("dicom_parser::dataset::", "")
            .replace("core::option::Option::", "").replace("core::result::Result::", ""))


def pushes(body):
    out = []
    for x in H.walk(body):
        if H.kind(x) == "mcall" and x[3] == "push" and "seq_tokens" in H.show(x[4], 3):
            st = x[5][0]
            if H.kind(st) == "struct":
                out.append((short(H.show(H.struct_field(st, "typ"), 3)), short(H.show(H.struct_field(st, "len"), 3))))
    return out


def written(body):
    """argument texts of self.write_impl(..) calls"""
    return [short(H.show(x[5][0], 6)) for x in H.walk(body) if H.kind(x) == "mcall" and x[3] == "write_impl"]


def run(chk, tier):
    fx = facts.load("W")
    chk.analysed["facts"] = fx.meta
    W = f"{P}::write::DataSetWriter"
    # ------------------------------------------------------------------ 1
    chk.rule("sq-length-strategy", "DataSetWriter::write: NoChange forwards the token's length to the stack and to the header; SetUndefined substitutes UNDEFINED "
             "(except items of encapsulated pixel data); delimiters are written iff the pushed length is undefined; write_impl passes each token's own operands to its encoder call")
    hw = fx.method("dicom_parser", W, "write")
    m = max((mm for mm in H.walk(hw["body"]) if H.kind(mm) == "match" and mm[3].endswith("dataset::DataToken")), key=lambda mm: len(mm[4]), default=None)
    if m is None:
        raise facts.MissingAnchor("DataSetWriter::write: match over DataToken")
    arms = {}
    for p, g, b, ln in H.match_arms(m):
        for alt in H.pat_alts(p):
            hd = H.pat_head(alt)
            if hd[0] == "variant":
                arms[hd[1].split("::")[-1]] = (alt, b, ln)
    chk.floor("sq-length-strategy", "token kinds handled by write", len(arms), 9)
    loc = lambda ln: f"{hw['loc']['f']}:{ln}"
    for tok, typ in (("SequenceStart", "SeqTokenType::Sequence"), ("ItemStart", "SeqTokenType::Item")):
        if tok not in arms:
            raise facts.MissingAnchor(f"DataSetWriter::write: arm {tok}")
        alt, b, ln = arms[tok]
        binds = H.pat_bindings(alt)
        sm = [mm for mm in H.walk(b) if H.kind(mm) == "match" and mm[3].endswith("ExplicitLengthSqItemStrategy")]
        if len(sm) != 1:
            raise facts.MissingAnchor(f"DataSetWriter::write/{tok}: match over the strategy")
        seen = {}
        for p2, g2, b2, ln2 in H.match_arms(sm[0]):
            hd = H.pat_head(H.pat_alts(p2)[0])
            seen[hd[1].split("::")[-1]] = (b2, ln2)
        chk.expect(sorted(seen) == ["NoChange", "SetUndefined"], "sq-length-strategy", "write", f"{tok}/strategies", ["NoChange", "SetUndefined"], sorted(seen), loc=loc(ln))
        if "NoChange" in seen:
            b2, ln2 = seen["NoChange"]
            chk.expect(pushes(b2) == [(typ, "len")] and written(b2) == ["&token"], "sq-length-strategy", "write", f"{tok}/NoChange",
                       {"push": [(typ, "len")], "write": ["&token"]}, {"push": pushes(b2), "write": written(b2)}, loc=loc(ln2))
        if "SetUndefined" in seen:
            b2, ln2 = seen["SetUndefined"]
            if tok == "SequenceStart":
                want_w = ["&DataToken::SequenceStart{tag: tag, len: Length::UNDEFINED}"]
                chk.expect(pushes(b2) == [(typ, "Length::UNDEFINED")] and written(b2) == want_w, "sq-length-strategy", "write", f"{tok}/SetUndefined",
                           {"push": [(typ, "Length::UNDEFINED")], "write": want_w}, {"push": pushes(b2), "write": written(b2)}, loc=loc(ln2))
            else:
                # let len = if <last_de is encapsulated pixel data> { len } else { UNDEFINED }
                lets = [x for x in H.walk(b2) if H.kind(x) == "slet" and H.show_pat(x[2]) == "len"]
                ok = False
                got = None
                if len(lets) == 1:
                    init = H.peel(lets[0][3])
                    if H.kind(init) == "if":
                        c, t, e = H.show(init[2], 8), short(H.show(H.peel(init[3]), 3)), short(H.show(H.peel(init[4]), 3)) if init[4] is not None else None
                        got = {"cond": c, "then": t, "else": e}
                        ok = "self.last_de" in c and "is_encapsulated_pixeldata" in c and t == "len" and e == "Length::UNDEFINED"
                want_w = ["&DataToken::ItemStart{len: len}"]
                ok = ok and pushes(b2) == [(typ, "len")] and written(b2) == want_w
                chk.expect(ok, "sq-length-strategy", "write", f"{tok}/SetUndefined",
                           "len := (last_de is encapsulated pixel data) ? len : UNDEFINED; push(Item, len); write ItemStart{len}",
                           {"len": got, "push": pushes(b2), "write": written(b2)}, loc=loc(ln2))
    for tok, typ in (("ItemEnd", "SeqTokenType::Item"), ("SequenceEnd", "SeqTokenType::Sequence")):
        alt, b, ln = arms[tok]
        ifs = [x for x in H.walk(b) if H.kind(x) == "if" and any(H.kind(y) == "mcall" and y[3] == "write_impl" for y in H.walk(x[3]))]
        conds = [short(H.show(x[2], 8)) for x in ifs]
        pops = [x for x in H.walk(b) if H.kind(x) == "mcall" and x[3] == "pop" and "seq_tokens" in H.show(x[4], 3)]
        inner = conds[-1] if conds else None
        ok = len(pops) == 1 and inner == f"((seq_start.typ Eq {typ}) And seq_start.len.is_undefined())" and written(b) == ["&token"]
        chk.expect(ok, "sq-length-strategy", "write", tok, f"pop; write the delimiter iff typ == {typ} && len.is_undefined()", {"pops": len(pops), "conds": conds, "write": written(b)}, loc=loc(ln))
    alt, b, ln = arms["PixelSequenceStart"]
    chk.expect(pushes(b) == [("SeqTokenType::Sequence", "Length::UNDEFINED")] and written(b) == ["&token"], "sq-length-strategy", "write", "PixelSequenceStart",
               "push(Sequence, UNDEFINED); write token", {"push": pushes(b), "write": written(b)}, loc=loc(ln))
    ld = [short(H.show(x[3], 8)) for x in H.walk(b) if H.kind(x) == "assign" and H.show(x[2], 3) == "self.last_de"]
    chk.expect(ld == ["Some(DataElementHeader{tag: Tag(32736, 16), vr: VR::OB, len: Length::UNDEFINED})"], "sq-length-strategy", "write", "PixelSequenceStart/last_de",
               "last_de = Some(header (7FE0,0010) OB UNDEFINED) so that fragment items keep their explicit length", ld, loc=loc(ln))
    alt, b, ln = arms["ElementHeader"]
    ld = [short(H.show(x[3], 8)) for x in H.walk(b) if H.kind(x) == "assign" and H.show(x[2], 3) == "self.last_de"]
    chk.expect(ld == ["Some(de)"] and not written(b) and not pushes(b), "sq-length-strategy", "write", "ElementHeader", "last_de = Some(de); header written with its value", {"last_de": ld, "write": written(b)}, loc=loc(ln))
    for tok in ("ItemValue", "PrimitiveValue", "OffsetTable"):
        alt, b, ln = arms[tok]
        chk.expect(written(b) == ["&token"] and not pushes(b), "sq-length-strategy", "write", tok, "write_impl(&token)", written(b), loc=loc(ln))
    # write_impl
    hi = fx.method("dicom_parser", W, "write_impl")
    mi = max((mm for mm in H.walk(hi["body"]) if H.kind(mm) == "match" and "DataToken" in mm[3]), key=lambda mm: len(mm[4]), default=None)
    if mi is None:
        raise facts.MissingAnchor("DataSetWriter::write_impl: match over DataToken")
    WANT = {
        "ElementHeader": "encode_element_header(Deref(header))",
        "SequenceStart": "encode_element_header(DataElementHeader::new(Deref(tag), VR::SQ, Deref(len)))",
        "PixelSequenceStart": "encode_element_header(DataElementHeader::new(Tag(32736, 16), VR::OB, Length::UNDEFINED))",
        "SequenceEnd": "encode_sequence_delimiter()",
        "ItemStart": "encode_item_header(len.0)",
        "ItemEnd": "encode_item_delimiter()",
        "PrimitiveValue": "encode_primitive_element(&last_de, value)",
        "OffsetTable": "encode_offset_table(table)",
        "ItemValue": "write_bytes(data)",
    }
    n = 0
    for p, g, b, ln in H.match_arms(mi):
        hd = H.pat_head(H.pat_alts(p)[0])
        if hd[0] != "variant":
            continue
        v = hd[1].split("::")[-1]
        lets = {H.show_pat(x[2]): short(H.show(x[3], 6)) for x in H.walk(b) if H.kind(x) == "slet" and x[3] is not None and H.kind(H.peel(x[3])) not in ("match",)}
        cs = []
        for x in H.walk(b):
            if H.kind(x) == "mcall" and H.show(x[4], 3) == "self.printer":
                t = short(f"{x[3]}(" + ", ".join(H.show(a, 8) for a in x[5]) + ")")
                for k2, v2 in lets.items():
                    t = re.sub(rf"\b{k2}\b", v2, t)
                cs.append(t)
        chk.expect(cs == [WANT.get(v)], "sq-length-strategy", "write_impl", v, WANT.get(v), cs, loc=f"{hi['loc']['f']}:{ln}")
        n += 1
    chk.floor("sq-length-strategy", "write_impl arms", n, 9)
    if "PrimitiveValue" in WANT:
        # the header of a primitive value is the one remembered by write(ElementHeader)
        b = [b for p, g, b, ln in H.match_arms(mi) if H.pat_head(H.pat_alts(p)[0])[1].endswith("::PrimitiveValue")][0]
        t = [short(H.show(x[3], 9)) for x in H.walk(b) if H.kind(x) == "slet" and H.show_pat(x[2]) == "last_de"]
        chk.expect(len(t) == 1 and "self.last_de.take()" in t[0], "sq-length-strategy", "write_impl", "PrimitiveValue/header-source", "last_de taken from self.last_de", t)

    # ------------------------------------------------------------------ 2
    chk.rule("len-plumbing", "decoded lengths reach the object model unchanged and are the lengths the token generators emit")
    n_sites = 0
    he = fx.hirfn(f"<{P}::read::DataSetReader<S> as core::iter::traits::iterator::Iterator>::next")
    for x, anc in H.walk_anc(he["body"]):
        if H.kind(x) == "struct" and x[2].endswith("DataToken::SequenceStart"):
            t = (short(H.show(H.struct_field(x, "tag"), 3)), short(H.show(H.struct_field(x, "len"), 3)))
            chk.expect(t in (("tag", "len"), ("header.tag", "header.len")), "len-plumbing", "DataSetReader::next", f"SequenceStart#{n_sites}", "tag and len of the decoded header (after sanitize_length)", t, loc=f"{he['loc']['f']}:{x[1]}")
            n_sites += 1
        if H.kind(x) == "struct" and x[2].endswith("DataToken::ItemStart"):
            t = short(H.show(H.struct_field(x, "len"), 3))
            chk.expect(t == "len", "len-plumbing", "DataSetReader::next", f"ItemStart#{n_sites}", "len of the decoded item header", t, loc=f"{he['loc']['f']}:{x[1]}")
            n_sites += 1
    # sanitize_length returns its argument or None (never another defined length)
    hs = fx.method("dicom_parser", f"{P}::read::DataSetReader", "sanitize_length")
    ifs = [x for x in H.walk(hs["body"]) if H.kind(x) == "if" and "BitAnd 1" in H.show(x[2], 8)]
    got = short(H.show(H.peel(ifs[0][4]), 4)) if len(ifs) == 1 and ifs[0][4] is not None else None
    chk.expect(got == "Some(length)", "len-plumbing", "DataSetReader::sanitize_length", "even-length-identity", "a length that is not odd is returned unchanged: else-branch Some(length)", got, loc=C.fn_loc(hs))
    n_sites += 1
    hb = fx.method("dicom_object", "dicom_object::mem::InMemDicomObject", "build_object")
    hq = fx.method("dicom_object", "dicom_object::mem::InMemDicomObject", "build_sequence")
    calls_b = [(H.callee(x) or "", [short(H.show(a, 6)) for a in H.call_args(x)], x[1]) for x in H.walk(hb["body"]) if H.kind(x) == "call"]

    def one(pred, what):
        r = [c for c in calls_b if pred(c[0])]
        if not r:
            raise facts.MissingAnchor(f"build_object: {what}")
        return r
    for c in one(lambda p: p.endswith("DataElement::<I, P>::new_with_len") or p.endswith("::new_with_len"), "new_with_len"):
        if c[1][1] == "VR::SQ":
            ok = c[1][:3] == ["tag", "VR::SQ", "len"] and c[1][3].replace(" ", "") in ("dicom_core::value::Value::Sequence(dicom_core::value::DataSetSequence::new(items,len))", "Value::Sequence(DataSetSequence::new(items,len))") or \
                (c[1][:3] == ["tag", "VR::SQ", "len"] and re.search(r"DataSetSequence(::<[^>]*>)?::new\(items, len\)", c[1][3]) is not None)
            chk.expect(ok, "len-plumbing", "build_object", "SequenceStart->element", "new_with_len(tag, SQ, len, Sequence(DataSetSequence::new(items, len)))", c[1], loc=f"{hb['loc']['f']}:{c[2]}")
        else:
            chk.expect(c[1][:3] == ["header.tag", "header.vr", "header.len"], "len-plumbing", "build_object", "ElementHeader->element", "new_with_len(header.tag, header.vr, header.len, ..)", c[1][:3], loc=f"{hb['loc']['f']}:{c[2]}")
        n_sites += 1
    objs = [x for x in H.walk(hb["body"]) if H.kind(x) == "struct" and x[2].endswith("InMemDicomObject")]
    for i, x in enumerate(objs):
        t = short(H.show(H.struct_field(x, "len"), 3))
        chk.expect(t == "len", "len-plumbing", "build_object", f"object.len#{i}", "the item length given by the caller", t, loc=f"{hb['loc']['f']}:{x[1]}")
        n_sites += 1
    chk.expect(len(objs) == 2, "len-plumbing", "build_object", "object constructions", 2, len(objs))
    bo = [(x, [short(H.show(a, 6)) for a in H.call_args(x)]) for x in H.walk(hq["body"]) if H.kind(x) == "call" and (H.callee(x) or "").endswith("::build_object")]
    if len(bo) != 1:
        raise facts.MissingAnchor("build_sequence: call of build_object")
    arm = None
    for x, anc in H.walk_anc(hq["body"]):
        if x is bo[0][0]:
            arm = H.enclosing_arm(anc)
    pat_txt = H.show_pat(arm[1][4][arm[2]][0]) if arm else None
    chk.expect(bo[0][1][2:4] == ["true", "len"] and pat_txt is not None and pat_txt.startswith("ItemStart{len: len"), "len-plumbing", "build_sequence", "ItemStart->item object",
               "ItemStart{len} => build_object(.., true, len, ..)", {"arm": pat_txt, "args": bo[0][1]}, loc=f"{hq['loc']['f']}:{bo[0][0][1]}")
    n_sites += 1
    # HasLength for InMemDicomObject returns the stored len
    hl = fx.find_hir("dicom_object", lambda p: p.endswith("HasLength>::length") and "InMemDicomObject" in p)
    if not hl:
        raise facts.MissingAnchor("HasLength for InMemDicomObject")
    for h in hl:
        chk.expect(short(H.show(H.peel(h["body"]), 3)) == "self.len", "len-plumbing", "InMemDicomObject::length", "returns-stored-len", "self.len", short(H.show(H.peel(h["body"]), 3)), loc=C.fn_loc(h))
        n_sites += 1
    # token generators
    hn = fx.find_hir("dicom_parser", lambda p: "DataElementTokens" in p and p.endswith("Iterator>::next"))
    if len(hn) != 1:
        raise facts.MissingAnchor("DataElementTokens::next")
    hn = hn[0]
    t_as = [short(H.show(x, 6)) for x in H.walk(hn["body"]) if H.kind(x) == "call" and (H.callee(x) or "").endswith("dataset::AsItem")]
    chk.expect(t_as == ["AsItem(o.length(), o)"], "len-plumbing", "DataElementTokens::next", "AsItem", "AsItem(o.length(), o)", t_as, loc=C.fn_loc(hn))
    n_sites += 1
    # header.len is only overwritten under force_invalidate_sq_length
    for x, anc in H.walk_anc(hn["body"]):
        if H.kind(x) == "assign" and H.show(x[2], 3) == "header.len":
            conds = [H.show(a[2], 6) for a in anc if H.is_node(a) and H.kind(a) == "if"]
            chk.expect(any("force_invalidate_sq_length" in c for c in conds) and short(H.show(x[3], 3)) == "Length::UNDEFINED", "len-plumbing", "DataElementTokens::next", "header.len-overwrite",
                       "only under options.force_invalidate_sq_length, to UNDEFINED", {"conds": conds, "value": short(H.show(x[3], 3))}, loc=f"{hn['loc']['f']}:{x[1]}")
            n_sites += 1
    hfrom = fx.find_hir("dicom_parser", lambda p: p.endswith("From<dicom_core::header::DataElementHeader>>::from") and "DataToken" in p and "Lazy" not in p)
    if len(hfrom) != 1:
        raise facts.MissingAnchor("From<DataElementHeader> for DataToken")
    for x in H.walk(hfrom[0]["body"]):
        if H.kind(x) == "struct" and x[2].endswith("DataToken::SequenceStart"):
            t = (short(H.show(H.struct_field(x, "tag"), 3)), short(H.show(H.struct_field(x, "len"), 3)))
            chk.expect(t == ("header.tag", "header.len"), "len-plumbing", "DataToken::from(header)", "SequenceStart", ("header.tag", "header.len"), t, loc=C.fn_loc(hfrom[0]))
            n_sites += 1
    hnew = fx.method("dicom_parser", f"{P}::ItemTokens", "new")
    lets = [x for x in H.walk(hnew["body"]) if H.kind(x) == "slet" and H.show_pat(x[2]) == "len"]
    ok = False
    got = None
    if len(lets) == 1 and H.kind(H.peel(lets[0][3])) == "if":
        i = H.peel(lets[0][3])
        got = {"cond": H.show(i[2], 6), "then": short(H.show(H.peel(i[3]), 3)), "else": short(H.show(H.peel(i[4]), 3))}
        ok = "force_invalidate_sq_length" in got["cond"] and got["then"] == "Length::UNDEFINED" and got["else"] == "len"
    chk.expect(ok, "len-plumbing", "ItemTokens::new", "len", "len unless force_invalidate_sq_length", got, loc=C.fn_loc(hnew))
    st = [x for x in H.walk(hnew["body"]) if H.kind(x) == "struct" and x[2].endswith("ItemTokens::Start")]
    chk.expect(len(st) == 1 and short(H.show(H.struct_field(st[0], "len"), 3)) == "len", "len-plumbing", "ItemTokens::new", "Start.len", "len", [short(H.show(H.struct_field(s, "len"), 3)) for s in st])
    n_sites += 2
    hin = fx.find_hir("dicom_parser", lambda p: "ItemTokens<T>" in p and p.endswith("Iterator>::next"))
    if len(hin) != 1:
        raise facts.MissingAnchor("ItemTokens::next")
    t = [short(H.show(H.struct_field(x, "len"), 3)) for x in H.walk(hin[0]["body"]) if H.kind(x) == "struct" and x[2].endswith("DataToken::ItemStart")]
    chk.expect(t == ["Deref(len)"], "len-plumbing", "ItemTokens::next", "ItemStart.len", "the stored len", t, loc=C.fn_loc(hin[0]))
    n_sites += 1
    has = fx.find_hir("dicom_parser", lambda p: "AsItem<I>" in p and p.endswith("into_tokens_with_options"))
    if len(has) != 1:
        raise facts.MissingAnchor("AsItem::into_tokens_with_options")
    t = [[short(H.show(a, 3)) for a in H.call_args(x)] for x in H.walk(has[0]["body"]) if H.kind(x) == "call" and (H.callee(x) or "").endswith("::new")]
    chk.expect(t == [["self.0", "self.1", "options"]], "len-plumbing", "AsItem::into_tokens_with_options", "ItemTokens::new args", ["self.0", "self.1", "options"], t, loc=C.fn_loc(has[0]))
    n_sites += 1
    chk.floor("len-plumbing", "length-carrying sites", n_sites, 17)

    # ------------------------------------------------------------------ 3
    chk.rule("delimitation", "explicit-length delimitation: Equal -> end token + pop, Less -> InconsistentSequenceEnd, Greater -> continue; measured from the position at push time; every value token arms the check")
    hu = fx.method("dicom_parser", f"{P}::read::DataSetReader", "update_seq_delimiters")
    mo = [mm for mm in H.walk(hu["body"]) if H.kind(mm) == "match" and mm[3].endswith("cmp::Ordering")]
    if len(mo) != 1:
        raise facts.MissingAnchor("update_seq_delimiters: match over Ordering")
    scr = short(H.show(mo[0][2], 6))
    lets = {H.show_pat(x[2]): short(H.show(x[3], 8)) for x in H.walk(hu["body"]) if H.kind(x) == "slet" and x[3] is not None}
    chk.expect(scr == "end_of_sequence.cmp(&bytes_read)" and lets.get("end_of_sequence") in ("(sd.base_offset Add (len as u64))", "(sd.base_offset Add cast(len))") or
               (scr == "end_of_sequence.cmp(&bytes_read)" and re.fullmatch(r"\(sd\.base_offset Add .*len.*\)", lets.get("end_of_sequence", "")) is not None and lets.get("bytes_read") == "self.parser.position()"),
               "delimitation", "update_seq_delimiters", "operands", "cmp(base_offset + len, parser.position())", {"scrutinee": scr, "lets": lets}, loc=C.fn_loc(hu))
    chk.expect(lets.get("bytes_read") == "self.parser.position()", "delimitation", "update_seq_delimiters", "bytes_read", "self.parser.position()", lets.get("bytes_read"))
    got = {}
    for p, g, b, ln in H.match_arms(mo[0]):
        v = H.pat_head(H.pat_alts(p)[0])[1].split("::")[-1]
        eff = []
        if any(H.kind(x) == "mcall" and x[3] == "pop" for x in H.walk(b)):
            eff.append("pop")
        for x in H.walk(b):
            if H.kind(x) == "mcall" and x[3] == "fail":
                mm = re.search(r"(\w+)Snafu", H.show(x[4], 2))
                eff.append("error:" + (mm.group(1) if mm else "?"))
            if H.kind(x) == "ret" and "Ok(Some(" in short(H.show(x, 4)):
                eff.append("return-token")
        inner = [mm for mm in H.walk(b) if H.kind(mm) == "match" and mm[3].endswith("SeqTokenType")]
        for mm in inner:
            for p2, g2, b2, ln2 in H.match_arms(mm):
                v2 = H.pat_head(H.pat_alts(p2)[0])[1].split("::")[-1]
                asg = sorted(short(H.show(x, 4)) for x in H.walk(b2) if H.kind(x) == "assign")
                eff.append(f"{v2}:{asg}")
        got[v] = sorted(eff)
    want = {"Equal": sorted(["pop", "return-token", "Sequence:" + str(sorted(["self.in_sequence = false", "token = DataToken::SequenceEnd"])), "Item:" + str(sorted(["self.in_sequence = true", "token = DataToken::ItemEnd"]))]),
            "Less": ["error:InconsistentSequenceEnd"], "Greater": []}
    for k in want:
        chk.expect(got.get(k) == want[k], "delimitation", "update_seq_delimiters", k, want[k], got.get(k), loc=C.fn_loc(hu))
    hp = fx.method("dicom_parser", f"{P}::read::DataSetReader", "push_sequence_token")
    sts = [x for x in H.walk(hp["body"]) if H.kind(x) == "struct" and x[2].endswith("SeqToken")]
    t = {f: short(H.show(H.struct_field(sts[0], f), 4)) for f in ("typ", "pixel_data", "len", "base_offset")} if len(sts) == 1 else None
    chk.expect(t == {"typ": "typ", "pixel_data": "pixel_data", "len": "len", "base_offset": "self.parser.position()"}, "delimitation", "push_sequence_token", "fields", "typ, pixel_data, len as given; base_offset = parser.position()", t, loc=C.fn_loc(hp))
    # the check runs before anything is decoded
    first_dec = min((x[1] for x in H.walk(he["body"]) if H.kind(x) == "mcall" and x[3] in ("decode_item_header", "decode_header", "read_value")), default=None)
    upd = [x for x in H.walk(he["body"]) if H.kind(x) == "mcall" and x[3] == "update_seq_delimiters"]
    ok = len(upd) == 1 and first_dec is not None and upd[0][1] < first_dec
    guard = None
    for x, anc in H.walk_anc(he["body"]):
        if upd and x is upd[0]:
            guard = [H.show(a[2], 4) for a in anc if H.is_node(a) and H.kind(a) == "if"]
    chk.expect(ok and guard and guard[-1] == "self.delimiter_check_pending", "delimitation", "DataSetReader::next", "check-before-decode", "update_seq_delimiters runs under `if self.delimiter_check_pending` before any header is decoded", {"guard": guard, "line": upd[0][1] if upd else None, "first_decode": first_dec})
    # every value token arms the check
    n_val = 0
    for x, anc in H.walk_anc(he["body"]):
        if H.kind(x) in ("call",) and re.search(r"DataToken::(PrimitiveValue|ItemValue|OffsetTable)$", H.callee(x) or ""):
            v = (H.callee(x) or "").split("::")[-1]
            # nearest enclosing block that has statements
            blk = None
            for a in reversed(anc):
                if H.is_node(a) and H.kind(a) == "block" and a[2]:
                    blk = a
                    break
            armed = blk is not None and any(H.kind(s) == "assign" and H.show(s[2], 3) == "self.delimiter_check_pending" and H.lit(s[3]) == ("bool", "true") for st_ in blk[2] for s in H.walk(st_) if H.kind(s) == "assign")
            chk.expect(armed, "delimitation", "DataSetReader::next", f"{v}-arms-check", "self.delimiter_check_pending = true in the block that emits the value token", armed, loc=f"{he['loc']['f']}:{x[1]}")
            n_val += 1
    chk.floor("delimitation", "value token sites", n_val, 3)
    # every decoded delimiter that closes an item or sequence arms the check too: the enclosing explicit-length item / sequence may end right there
    from . import c06
    rows = c06.outcome_rows(he, "DataToken")
    n_close = 0
    for k, eff in sorted(rows.items()):
        if not any(e in ("token:ItemEnd", "token:SequenceEnd") for e in eff):
            continue
        n_close += 1
        if k == "encap/SequenceDelimiter":
            chk.ok("delimitation", "DataSetReader::next", f"{k}-arms-check", "audited: a pixel data element without any item (not even the basic offset table) is not a canonical stream; neither reader arms the check there")
            continue
        chk.expect(any(e.startswith("delimiter_check_pending=true") and "?[" not in e for e in eff), "delimitation", "DataSetReader::next", f"{k}-arms-check",
                   "self.delimiter_check_pending = true when a decoded delimiter closes an item / sequence", eff, loc=f"{he['loc']['f']}:{he['loc']['l']}")
    chk.floor("delimitation", "closing-delimiter outcomes", n_close, 4)

    # ------------------------------------------------------------------ 4
    chk.rule("default-codec", "DefaultCharacterSetCodec::{decode,encode} use the same single-byte total encoding; the encoder is strict")
    enc_used = {}
    for nm in ("decode", "encode"):
        hh = fx.find_hir("dicom_encoding", lambda p, nm=nm: "DefaultCharacterSetCodec" in p and p.endswith("TextCodec>::" + nm))
        if len(hh) != 1:
            raise facts.MissingAnchor(f"DefaultCharacterSetCodec::{nm}")
        cs = [x for x in H.walk(hh[0]["body"]) if H.kind(x) == "mcall" and x[3] == nm]
        if len(cs) != 1:
            raise facts.MissingAnchor(f"DefaultCharacterSetCodec::{nm}: inner {nm} call")
        enc_used[nm] = (H.show(cs[0][4], 3), [H.show(a, 4) for a in cs[0][5]])
    chk.expect(enc_used["decode"][0] == enc_used["encode"][0] == "encoding::all::ISO_8859_1", "default-codec", "DefaultCharacterSetCodec", "same-encoding", "encoding::all::ISO_8859_1 both ways", enc_used)
    chk.expect(enc_used["encode"][1][-1].endswith("EncoderTrap::Strict"), "default-codec", "DefaultCharacterSetCodec", "strict-encoder", "EncoderTrap::Strict", enc_used["encode"][1])

    # ------------------------------------------------------------------ 5
    c03.endianness_purity(chk, fx)
    from . import shared
    shared.value_reader_codec_calls(chk, fx, "value-reader-codec-calls")
    # a stream is rewritten byte for byte only if each header is written in the form it was read in (C03), each declared length is the
    # number of bytes written (C04) and the eager reader's positions / kept lengths are right (C07): those clauses are part of C02
    shared.import_rules(chk, tier, "C04", {"padding-byte", "bytes-written", "unit-width", "even-round", "date-time-width", "writer-text-identity", "fragment-lengths-explicit"},
                        "declared lengths == bytes written", 130)
    shared.import_rules(chk, tier, "C03", {"vr-header-form", "header-layout", "header-bytes-read", "u16-length-guard", "vr-code", "unknown-vr-un"},
                        "encoder and decoder agree on every header form", 280)
    shared.import_rules(chk, tier, "C07", {"sanitize-length", "length-provenance", "position-accounting"}, "position of the eager reader", 36,
                        only=lambda i: i["rule"] == "position-accounting" or i["fn"] == "eager")
    chk.undecided.append("byte equality of rewritten streams (needs an independent reference encoder and execution); nested length staleness after in-place edits is a documented limitation of NoChange")
