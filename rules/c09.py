"""C09 — file meta group integrity and preamble handling.

1. group-length-terms: calculate_information_group_length is one term per field: header size of the field's VR
   (Explicit VR LE: 8 short / 12 long, refs/vr.tsv) + even-rounded value length; the field set equals the set of
   elements written by into_element_iter (minus the group length itself).
2. group-length-update (PAIR, MIR): in every method of FileMetaTable / builder that can change a length-relevant
   field, every path from the mutation to a non-error exit passes through update_information_group_length.
3. meta-read-write (SIB): tags written by into_element_iter and tags handled by read_from map to the same fields;
   read_from rejects undefined lengths and consumes exactly the element length of unknown tags.
4. preamble: detect_preamble's table; both entry points skip 128 bytes exactly when the preamble is there;
   writers emit 128 zero bytes, `DICM`, the meta group and the data set in that order.
"""
import re

from . import facts, hirq as H, mirq as M, common as C

LEVEL_TEXT = ("Exhaustive over the 11 length-relevant fields of the table and over every path of every mutating method "
              "(MIR must-pass-through); the read and write tag tables are compared row by row. Decides the structure that "
              "keeps the recorded group length right, not a byte count of executed output.")

META = "dicom_object::meta::FileMetaTable"
BUILDER = "dicom_object::meta::FileMetaTableBuilder"
FIELDS_FIXED = {"information_group_length", "information_version"}


def flatten_add(e):
    e = H.peel(e)
    if H.kind(e) == "bin" and e[2] == "Add":
        return flatten_add(e[3]) + flatten_add(e[4])
    return [e]


def self_field(e):
    """name of `self.X` / `&self.X` expression"""
    e = H.peel(e)
    if H.kind(e) == "field" and H.path_of(e[2]) == "self":
        return e[3]
    return None


def element_table(h):
    """{field: (tag, vr, optional)} from into_element_iter"""
    out = {}
    for n, anc in H.walk_anc(h["body"]):
        if H.kind(n) == "call" and (H.callee(n) or "").endswith("DataElement::<I, P>::new") and len(n[3]) == 3:
            tagn, vrn, valn = n[3]
            tagn = H.peel(tagn)
            if not (H.kind(tagn) == "call" and (H.callee(tagn) or "").endswith("header::Tag") and len(tagn[3]) == 2):
                continue
            tag = (H.int_lit(tagn[3][0]), H.int_lit(tagn[3][1]))
            vr = (H.path_of(vrn) or "").split("::")[-1]
            fields = [self_field(x) for x in H.walk(valn) if self_field(x)]
            optional = False
            fld = fields[0] if fields else None
            if fld is None:
                # inside `if let Some(v) = self.F { ... v ... }`
                for a in reversed(anc):
                    if H.is_node(a) and H.kind(a) == "if" and H.kind(H.peel(a[2])) == "let":
                        lt = H.peel(a[2])
                        fld = self_field(lt[3])
                        optional = True
                        break
            if fld:
                out[fld] = (tag, vr, optional)
    return out


def run(chk, tier):
    fx = facts.load("W")
    ref = C.vr_ref()
    chk.analysed["facts"] = fx.meta
    chk.assume("the meta group is written in Explicit VR Little Endian (FileMetaTable::write constructs that encoder; checked)")
    chk.assume("header sizes per VR are those of refs/vr.tsv (PS3.5 7.1.2), cross-checked against the encoder in C03")

    # ---------- rule 1
    chk.rule("group-length-terms", "each field contributes header_size(VR) + even(len(value)); optional fields contribute 0 when absent; "
             "the fields of the sum are exactly the elements that into_element_iter writes after (0002,0000)")
    hi = fx.hirfn(f"{META}::into_element_iter")
    etab = element_table(hi)
    chk.expect(len(etab) >= 12, "group-length-terms", "into_element_iter", "elements", ">= 12 elements", sorted(etab))
    chk.sample({"rule": "group-length-terms", "into_element_iter": {k: [f"({v[0][0]:04X},{v[0][1]:04X})", v[1], "optional" if v[2] else "required"] for k, v in etab.items()}})
    hc = fx.hirfn(f"{META}::calculate_information_group_length")
    terms = flatten_add(hc["body"])
    const_total = 0
    required, optional = [], {}
    for t in terms:
        v = H.int_lit(t)
        if v is not None:
            const_total += v
            continue
        if H.kind(t) == "call" and (H.callee(t) or "").endswith("meta::dicom_len"):
            f = self_field(t[3][0])
            required.append(f)
            continue
        if H.kind(t) == "mcall" and t[3] == "unwrap_or" and H.int_lit(t[5][0]) == 0:
            mp = H.peel(t[4])
            if H.kind(mp) == "mcall" and mp[3] == "map":
                src = H.peel(mp[4])
                fld = self_field(src[4]) if H.kind(src) == "mcall" and src[3] == "as_ref" else self_field(src)
                clo = H.peel(mp[5][0])
                inner = flatten_add(clo[4])
                k = sum(H.int_lit(x) for x in inner if H.int_lit(x) is not None)
                rest = [x for x in inner if H.int_lit(x) is None]
                kind = "?"
                if len(rest) == 1:
                    r = H.peel(rest[0])
                    if H.kind(r) == "call" and (H.callee(r) or "").endswith("meta::dicom_len"):
                        kind = "dicom_len"
                    elif H.kind(r) == "bin" and r[2] == "BitAnd" and "len()" in H.show(r, 6) and "Add 1" in H.show(r, 6) and "Not(1)" in H.show(r, 6):
                        kind = "even(len)"
                optional[fld] = (k, kind)
                continue
        chk.bad("group-length-terms", "calculate_information_group_length", f"term@{t[1]}", "a recognised term", H.show(t, 6), loc=C.fn_loc(hc))
    hdr = lambda vr: 8 if ref[vr]["header"] == "short" else 12
    # required: constants sum = (12 + 2 for the OB version) + sum of headers
    want_const = hdr("OB") + 2 + sum(hdr(etab[f][1]) for f in required if f in etab)
    chk.expect(const_total == want_const, "group-length-terms", "calculate_information_group_length", "constant-part",
               f"{want_const} = version(12+2) + headers of {required}", const_total, loc=C.fn_loc(hc))
    for f in required:
        chk.expect(f in etab and not etab[f][2], "group-length-terms", "calculate_information_group_length", f"required/{f}",
                   "written unconditionally by into_element_iter", etab.get(f))
    for f, (k, kind) in optional.items():
        ok = f in etab and etab[f][2] and k == hdr(etab[f][1]) and kind == ("even(len)" if etab[f][1] == "OB" else "dicom_len")
        chk.expect(ok, "group-length-terms", "calculate_information_group_length", f"optional/{f}",
                   f"{hdr(etab[f][1]) if f in etab else '?'} + even(len) when present, 0 otherwise", (k, kind), loc=C.fn_loc(hc))
    in_sum = set(required) | set(optional) | FIELDS_FIXED
    chk.expect(in_sum == set(etab), "group-length-terms", "calculate_information_group_length", "field-sets-agree",
               "same fields as into_element_iter", {"only_in_sum": sorted(in_sum - set(etab)), "only_written": sorted(set(etab) - in_sum)})
    chk.expect(etab.get("information_version", (None, None))[1] == "OB" and etab.get("information_group_length", (None, None))[1] == "UL",
               "group-length-terms", "into_element_iter", "fixed-elements", "group length UL, version OB", {k: etab.get(k) for k in FIELDS_FIXED})
    # struct fields not covered at all?
    adt = fx.adt(META)
    all_fields = {fl["name"] for v in adt["variants"] for fl in v["fields"]}
    chk.expect(all_fields == set(etab), "group-length-terms", META, "every-struct-field-is-written", sorted(all_fields), sorted(etab))
    # the writer uses Explicit VR LE
    hw = fx.hirfn(f"{META}::write")
    import json as _json
    txt = " ".join((c or "") for c, _ in H.calls(hw["body"])) + " " + _json.dumps(hw["body"])
    chk.expect("ExplicitVRLittleEndianEncoder" in txt and "ExplicitVRBigEndianEncoder" not in txt and "ImplicitVR" not in txt
               and "DataSetWriter" in txt and "flush" in txt, "group-length-terms", "FileMetaTable::write",
               "explicit-vr-le-and-flush", "DataSetWriter over ExplicitVRLittleEndianEncoder, flushed", txt[:200])

    # ---------- rule 2 (MIR)
    chk.rule("group-length-update", "after any assignment or &mut hand-out of a length-relevant field, every path to a non-error exit calls "
             "update_information_group_length (MIR must-pass-through)")
    len_fields = all_fields - {"information_group_length"}
    mutators = 0
    d = fx.crate("dicom_object")
    for f in d["fns"]:
        p = f["path"]
        if not (p.startswith(META + "::") or p.startswith(f"<{META} as ")):
            continue
        if p.endswith("::update_information_group_length"):
            continue
        # self is _1 when the first parameter is &mut Self
        if f["argc"] < 1 or "&mut " not in f["locals"][1] or "FileMetaTable" not in f["locals"][1]:
            continue
        evs = M.field_writes(f, 1, len_fields)
        if not evs:
            continue
        mutators += 1
        upd = [bb for bb, t in M.calls_to(f, lambda c: c.endswith("FileMetaTable::update_information_group_length"))]
        goals = M.ok_exit_blocks(f)
        short = p.split("::")[-1]
        for bb, kind, fld, line in evs:
            w = M.escapes(f, [bb], goals, upd) if bb not in upd else None
            # the event block itself may also be a goal only through later blocks; check successors
            chk.expect(w is None, "group-length-update", short, f"{kind}:{fld}", "update_information_group_length on every path to a non-error exit",
                       f"path without update: bb{' -> bb'.join(map(str, w))}" if w else "ok", loc=f"{f['loc']['f']}:{line}")
    chk.floor("group-length-update", "mutating methods of FileMetaTable", mutators, 2)
    # builder: the table aggregate is followed by update before Ok
    f = fx.fn(f"{BUILDER}::build")
    aggs = [bb for bb, j, s in M.assigns(f) if s["r"]["rv"] == "agg" and s["r"].get("adt") == META]
    upd = [bb for bb, t in M.calls_to(f, lambda c: c.endswith("FileMetaTable::update_information_group_length"))]
    goals = [b for b, c in M.ret_classes(f).items() if c == "ok"]
    w = M.escapes(f, [a for a in aggs if a not in upd], goals, upd)
    chk.expect(len(aggs) == 1 and w is None, "group-length-update", "FileMetaTableBuilder::build", "table-constructed", "update before Ok(table)",
               f"aggregates={len(aggs)}, escape={w}", loc=C.fn_loc(f))

    # ---------- rule 3
    chk.rule("meta-read-write", "for every tag written by into_element_iter, read_from has an arm for that tag calling the builder setter of the same field; "
             "undefined lengths are rejected; unknown tags consume exactly elem_len bytes and are checked")
    hr = fx.hirfn(f"{META}::read_from")
    tag_ms = [m for m in H.walk(hr["body"]) if H.kind(m) == "match" and m[3].endswith("header::Tag") and len(m[4]) > 5]
    if len(tag_ms) != 1:
        raise facts.MissingAnchor("read_from: match over element tag")
    rtab = {}
    unknown_arms = []
    for p, g, b, ln in H.match_arms(tag_ms[0]):
        alt = H.pat_alts(p)[0]
        if alt[0] == "pts" and alt[1].endswith("header::Tag") and len(alt[3]) == 2 and alt[3][0][0] == "plit" and alt[3][1][0] == "plit":
            tag = (int(alt[3][0][1][1]), int(alt[3][1][1][1]))
            setters = [x[3] for c, x in H.calls(b) if c and c.startswith(BUILDER + "::")]
            rtab[tag] = setters
        else:
            unknown_arms.append((p, b, ln))
    for fld, (tag, vr, opt) in etab.items():
        if fld == "information_group_length":
            continue
        chk.expect(rtab.get(tag) == [fld], "meta-read-write", "read_from", f"({tag[0]:04X},{tag[1]:04X})->{fld}", [fld], rtab.get(tag),
                   loc=C.fn_loc(hr))
    extra = {t for t in rtab} - {v[0] for v in etab.values()}
    chk.expect(not extra, "meta-read-write", "read_from", "no-unwritten-tags", "reader knows only tags the writer emits", sorted(extra))
    # undefined length rejected
    und = [x for x in H.walk(hr["body"]) if H.kind(x) == "mcall" and x[3] == "fail" and "UndefinedValueLength" in H.show(x[4], 2)]
    chk.expect(len(und) >= 1, "meta-read-write", "read_from", "undefined-length-rejected", "UndefinedValueLength error", len(und))
    # unknown tags: copy(take(elem_len)) and compare the count
    chk.expect(len(unknown_arms) == 2, "meta-read-write", "read_from", "fallback-arms", "2 (in-group unknown, off-group)", len(unknown_arms))
    for i, (p, b, ln) in enumerate(unknown_arms):
        cp = [x for c, x in H.calls(b) if c == "std::io::copy::copy"]
        cmp_ = [x for x in H.walk(b) if H.kind(x) == "if" and "bytes_read Ne" in H.show(x[2], 5) and "elem_len" in H.show(x[2], 5)]
        chk.expect(len(cp) == 1 and "take(" in H.show(cp[0], 8) and "elem_len" in H.show(cp[0], 8) and len(cmp_) == 1, "meta-read-write", "read_from",
                   f"fallback-arm{i}-consumes-exactly-elem_len", "io::copy(take(elem_len)) and count compared with elem_len", H.show(cp[0], 8) if cp else None,
                   loc=f"{hr['loc']['f']}:{ln}")
    # loop accounting: total += header bytes + elem_len
    acc = [x for x in H.walk(hr["body"]) if H.kind(x) == "assign" and H.path_of(x[2]) == "total_bytes_read"]
    ok = len(acc) == 1 and "header_bytes_read" in H.show(acc[0][3], 8) and "elem_len" in H.show(acc[0][3], 8)
    chk.expect(ok, "meta-read-write", "read_from", "loop-accounting", "total += header_bytes_read + elem_len", [H.show(a[3], 8) for a in acc])
    # builder setters pad: UI with NUL (ui_padded), SH/AE with space (txt_padded)
    for fld, (tag, vr, opt) in etab.items():
        if vr not in ("UI", "SH", "AE"):
            continue
        hs = fx.hirfn(f"{BUILDER}::{fld}")
        cs = [c.split("::")[-1] for c, _ in H.calls(hs["body"]) if c and c.startswith("dicom_object::meta::")]
        want = "ui_padded" if vr == "UI" else "txt_padded"
        chk.expect(cs == [want], "meta-read-write", f"builder::{fld}", "padding", want, cs, loc=C.fn_loc(hs))
    for fn, ch in (("ui_padded", "\x00"), ("txt_padded", " ")):
        hs = fx.hirfn(f"dicom_object::meta::{fn}")
        lits = [x[2][1] for x in H.walk(hs["body"]) if H.kind(x) == "lit" and x[2][0] == "char"]
        chk.expect(lits == [ch], "meta-read-write", fn, "pad-char", repr(ch), lits)

    # ---------- rule 4
    chk.rule("preamble", "detect_preamble: DICM at 128 -> Always, DICM at 0 -> Never; readers skip exactly 128 bytes for Always and none for Never; "
             "writers emit 128 zero bytes, DICM, meta group, data set in that order")
    FDO = "dicom_object::mem::<impl dicom_object::FileDicomObject<dicom_object::mem::InMemDicomObject<D>>>"
    hd = fx.hirfn(f"{FDO}::detect_preamble")
    rets = []
    for x in H.walk(hd["body"]):
        if H.kind(x) == "if":
            cond = H.show(x[2], 8)
            inner = [H.path_of(y[3][0]) for y in H.walk(x[3]) if H.kind(y) == "call" and (H.callee(y) or "").endswith("Result::Ok")]
            if inner:
                rets.append((cond, (inner[0] or "").split("::")[-1], x))
    by_val = {r[1]: r for r in rets}
    a = by_val.get("Always")
    n = by_val.get("Never")
    ge132 = a is not None and any(H.kind(y) == "bin" and y[2] == "Ge" and H.int_lit(y[4]) == 132 for y in H.walk(a[2][2]))
    ok_a = a is not None and ge132 and C.slice_extent([y for y in H.walk(a[2][2]) if H.kind(y) == "index"][0])[1:] == (128, 4) and "DICM" in a[0]
    ok_n = n is not None and C.slice_extent([y for y in H.walk(n[2][2]) if H.kind(y) == "index"][0])[1:] == (0, 4) and "DICM" in n[0]
    chk.expect(ok_a, "preamble", "detect_preamble", "DICM@128->Always", "buflen >= 132 && buf[128..132] == DICM", a[0] if a else None, loc=C.fn_loc(hd))
    chk.expect(ok_n, "preamble", "detect_preamble", "DICM@0->Never", "buf[0..4] == DICM", n[0] if n else None, loc=C.fn_loc(hd))
    chk.expect(a is not None and n is not None and a[2][1] < n[2][1], "preamble", "detect_preamble", "order", "the 128-offset test comes first", "ok")

    def ops_of(c):
        return sorted(y[2] for y in H.walk(c) if H.kind(y) == "bin" and y[2] in ("And", "Or", "Eq", "Ne", "Lt", "Le", "Gt", "Ge"))
    # the operators themselves: `>=` and `==` joined by `&&` for the 128-offset test, a lone `==` for the 0-offset test
    chk.expect(a is not None and ops_of(a[2][2]) == ["And", "Eq", "Ge"], "preamble", "detect_preamble", "DICM@128->Always/operators", ["And", "Eq", "Ge"], ops_of(a[2][2]) if a else None, loc=C.fn_loc(hd))
    chk.expect(n is not None and ops_of(n[2][2]) == ["Eq"], "preamble", "detect_preamble", "DICM@0->Never/operators", ["Eq"], ops_of(n[2][2]) if n else None, loc=C.fn_loc(hd))
    for fn in ("open_file_with_all_options", "from_reader_with_all_options"):
        h = fx.hirfn(f"{FDO}::{fn}")
        skips = []
        for x in H.walk(h["body"]):
            if H.kind(x) == "if" and any((c or "").endswith("Read::read_exact") for c, _ in H.calls(x[3])):
                sizes = [C.array_len(y[3]) for y in H.walk(x[3]) if H.kind(y) == "repeat"]
                conds = set(re.findall(r"ReadPreamble::(\w+)", H.show(x[2], 8)))
                skips.append((conds, sizes))
        ok = len(skips) == 1 and skips[0][1] == [128] and "Always" in skips[0][0] and "Never" not in skips[0][0]
        chk.expect(ok, "preamble", fn, "skip-128-iff-preamble", "read_exact of [u8;128] under read_preamble == Always (never for Never)", skips, loc=C.fn_loc(h))
        det = [x for c, x in H.calls(h["body"]) if c and c.endswith("::detect_preamble")]
        chk.expect(len(det) == 1, "preamble", fn, "auto-detects", "calls detect_preamble when Auto", len(det))
        # every test on the option is an equality (`==`), alternatives are joined by `||`; detection runs exactly under `== Auto`
        pre_ifs = [x for x in H.walk(h["body"]) if H.kind(x) == "if" and "ReadPreamble::" in H.show(x[2], 8)]
        shapes = [(sorted(set(re.findall(r"ReadPreamble::(\w+)", H.show(x[2], 8)))), sorted(set(y[2] for y in H.walk(x[2]) if H.kind(y) == "bin")),
                   any((c or "").endswith("::detect_preamble") for c, _ in H.calls(x[3]))) for x in pre_ifs]
        ok = all(ops in (["Eq"], ["Eq", "Or"]) for _, ops, _ in shapes) and [v for v, _, d in shapes if d] == [["Auto"]]
        chk.expect(ok, "preamble", fn, "option-tests-are-equalities", "`read_preamble == X` (|| ...); detect_preamble under `== Auto`", shapes, loc=C.fn_loc(h))
    for fn in ("write_to_file", "write_all"):
        h = fx.hirfn(f"dicom_object::FileDicomObject::<O>::{fn}")
        seq = []
        for c, x in H.calls(h["body"]):
            if c and c.endswith("io::Write::write_all"):
                a1 = H.peel(H.call_args(x)[1])
                if H.kind(a1) == "index":
                    rep = [y for y in H.walk(a1) if H.kind(y) == "repeat"]
                    if rep and C.array_len(rep[0][3]) == 128 and H.int_lit(rep[0][2]) == 0:
                        seq.append(("preamble", x[1]))
                elif H.kind(a1) == "lit" and a1[2][1] == "DICM":
                    seq.append(("DICM", x[1]))
            elif c and c.endswith("FileMetaTable::write"):
                seq.append(("meta", x[1]))
            elif c and c.endswith("::write_dataset_impl"):
                seq.append(("dataset", x[1]))
        names = [s for s, _ in sorted(seq, key=lambda t: t[1])]
        chk.expect(names == ["preamble", "DICM", "meta", "dataset"], "preamble", fn, "write-order", ["preamble", "DICM", "meta", "dataset"], names, loc=C.fn_loc(h))
    chk.note("open_file (path) also skips 128 bytes when nothing is detected (Auto), from_reader does not: outside the property's statement "
             "(it speaks of files written with or without the preamble), recorded here, not a violation")
    from . import shared
    shared.meta_order_ascending(chk, fx, "meta-order-ascending")
    shared.collector_preamble(chk, fx, "collector-preamble")
    # the two helpers every term of the group length goes through: dicom_len(x) = len rounded up to even, padded(s) appends one pad
    # character exactly when the length is odd
    chk.rule("even-helpers", "meta::dicom_len is (len + 1) & !1 and meta::padded pushes the pad character iff len % 2 == 1")
    hdl = fx.hirfn("dicom_object::meta::dicom_len")
    t = H.show(hdl["body"], 8)
    n_ = r"\(?x\.as_ref\(\)\.len\(\)( as u32)?\)?"
    even_forms = [rf"\{{?\(\({n_} Add 1\) BitAnd Not\(1\)\)\}}?", rf"\{{?\({n_} Add \({n_} (BitAnd|Rem) [12]\)\)\}}?", rf"\{{?{n_}\.next_multiple_of\(2\)( as u32)?\}}?"]
    chk.expect(any(re.fullmatch(f_, t) for f_ in even_forms), "even-helpers", "dicom_len", "formula", "(len as u32 + 1) & !1", t, loc=C.fn_loc(hdl))
    hpd = fx.hirfn("dicom_object::meta::padded")
    ifs = [x for x in H.walk(hpd["body"]) if H.kind(x) == "if"]
    odd_forms = {"((s.len() Rem 2) Eq 1)", "((s.len() Rem 2) Ne 0)", "((s.len() BitAnd 1) Eq 1)", "((s.len() BitAnd 1) Ne 0)", "Not(s.len().is_multiple_of(2))"}
    ok = len(ifs) == 1 and H.show(ifs[0][2], 6) in odd_forms and ifs[0][4] is None and [y[3] for y in H.walk(ifs[0][3]) if H.kind(y) == "mcall"] == ["push"] \
        and H.show([y for y in H.walk(ifs[0][3]) if H.kind(y) == "mcall"][0][5][0], 3) == "pad"
    chk.expect(ok, "even-helpers", "padded", "pads-iff-odd", "if s.len() % 2 == 1 { s.push(pad) }", [H.show(x[2], 6) for x in ifs], loc=C.fn_loc(hpd))
    shared.open_options_passthrough(chk, fx, "open-options-passthrough")
    chk.undecided.append("equality of the re-read table with the written one on concrete values")
