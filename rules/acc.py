"""ACC — symbolic byte accounting over resolved HIR (no solver: polynomial normal form over opaque atoms).

A tiny path-enumerating abstract interpreter for the cursor-moving helper functions of
StatefulDecoder / StatefulEncoder.  On every path that ends in `Ok`, the amount moved through the
underlying stream (consumed / written) must equal the amount added to the accounting field
(`self.position` / `self.bytes_written`) as polynomials over opaque atoms (`len`, `(len >> 1)`, `len(x)`,
returned counts).  `2*(len >> 1)` and `len` are different polynomials.

Unknown shapes (loops or closures containing events, unrecognised stream calls) raise Unknown:
the caller fails closed.
"""
from fractions import Fraction

from . import hirq as H


class Unknown(Exception):
    pass


class Poly:
    """polynomial with integer coefficients over string atoms; monomial = sorted tuple of atoms"""

    def __init__(self, terms=None):
        self.t = {k: v for k, v in (terms or {}).items() if v != 0}

    @staticmethod
    def const(c):
        return Poly({(): c})

    @staticmethod
    def atom(a):
        return Poly({(a,): 1})

    def __add__(self, o):
        t = dict(self.t)
        for k, v in o.t.items():
            t[k] = t.get(k, 0) + v
        return Poly(t)

    def __neg__(self):
        return Poly({k: -v for k, v in self.t.items()})

    def __sub__(self, o):
        return self + (-o)

    def __mul__(self, o):
        t = {}
        for k1, v1 in self.t.items():
            for k2, v2 in o.t.items():
                k = tuple(sorted(k1 + k2))
                t[k] = t.get(k, 0) + v1 * v2
        return Poly(t)

    def __eq__(self, o):
        return isinstance(o, Poly) and self.t == o.t

    def __hash__(self):
        return hash(tuple(sorted(self.t.items())))

    def is_const(self):
        return all(k == () for k in self.t)

    def const_value(self):
        return self.t.get((), 0) if self.is_const() else None

    def __repr__(self):
        if not self.t:
            return "0"
        parts = []
        for k, v in sorted(self.t.items()):
            if k == ():
                parts.append(str(v))
            else:
                m = "*".join(k)
                parts.append(m if v == 1 else f"{v}*{m}")
        return " + ".join(parts)


class State:
    def __init__(self):
        self.env = {}      # local name -> Poly
        self.size = {}     # place text -> Poly (length of a buffer)
        self.moved = Poly()
        self.acct = Poly()
        self.trace = []
        self.flags = set()

    def copy(self):
        s = State()
        s.env = dict(self.env)
        s.size = dict(self.size)
        s.moved = self.moved
        s.acct = self.acct
        s.trace = list(self.trace)
        s.flags = set(self.flags)
        return s


def place_text(n):
    """canonical text of a place expression: self.from, self.buffer, buf, vec"""
    n = H.peel(n)
    k = H.kind(n)
    if k == "path":
        return n[2]
    if k == "field":
        b = place_text(n[2])
        return f"{b}.{n[3]}" if b else None
    if k == "mcall" and n[3] in ("by_ref", "as_mut", "as_ref", "borrow_mut", "as_mut_slice", "as_slice"):
        return place_text(n[4])
    if k == "index":
        return None
    return None


class Model:
    """what moves bytes and what accounts for them; subclassed for decoder / encoder"""
    stream = "self.from"
    counter = "self.position"
    balanced_self_methods = set()
    # callee-suffix -> bytes per unit for `_into(stream, slice)` calls
    into_width = {}

    def stream_call(self, interp, n, st):
        """return Poly of bytes moved by call node n (already known to involve the stream), or None if not a mover"""
        raise NotImplementedError


def is_try(m):
    return H.kind(m) == "match" and m[5].startswith("TryDesugar")


def try_operand(m):
    """the operand of `expr?`: scrutinee is `Try::branch(expr)`"""
    s = H.peel(m[2])
    if H.kind(s) == "call" and (H.callee(s) or "").endswith("Try::branch"):
        return s[3][0]
    return s


class Interp:
    def __init__(self, model, fn_name):
        self.model = model
        self.fn = fn_name
        self.paths = []   # finished: (state, outcome)

    # ---- expression to polynomial (pure arithmetic)
    def poly(self, n, st):
        n = H.peel(n)
        k = H.kind(n)
        if k == "lit":
            v = H.int_lit(n)
            if v is not None:
                return Poly.const(v)
            return Poly.atom(H.show(n))
        if k == "cast":
            return self.poly(n[2], st)
        if k == "path":
            if n[3] == "local":
                return st.env.get(n[2], Poly.atom(n[2]))
            return Poly.atom(n[2].split("::")[-1])
        if k == "bin":
            a, b = self.poly(n[3], st), self.poly(n[4], st)
            op = n[2]
            if op == "Add":
                return a + b
            if op == "Sub":
                return a - b
            if op == "Mul":
                return a * b
            # sound identity for unsigned x:  x & (2^k - 1)  ==  x - 2^k * (x >> k)
            if op == "BitAnd" and b.is_const() and b.const_value() is not None:
                c = b.const_value()
                if c > 0 and (c + 1) & c == 0:
                    k = (c + 1).bit_length() - 1
                    return a - Poly.const(c + 1) * Poly.atom(f"({a!r} Shr {k})")
            return Poly.atom(f"({a!r} {op} {b!r})")
        if k == "mcall":
            name = n[3]
            if name == "len" and not n[5]:
                pt = place_text(n[4])
                if pt and pt in st.size:
                    return st.size[pt]
                return Poly.atom(f"len({pt or H.show(n[4])})")
            if name in ("into", "get") and not n[5]:
                return self.poly(n[4], st)
        if k == "call":
            c = H.callee(n) or ""
            if c.endswith("convert::From::from") or c.endswith("::from"):
                return self.poly(n[3][0], st)
        if k == "field":
            pt = place_text(n)
            if pt:
                return Poly.atom(pt)
        if k == "block" and not n[2] and n[3] is not None:
            return self.poly(n[3], st)
        return Poly.atom(H.show(n, 5))

    def slice_size(self, n, st):
        """number of elements of a buffer expression (whole buffer, x[..], x[a..], x[a..b])"""
        n0 = H.peel(n)
        if H.kind(n0) == "index":
            base = place_text(n0[2])
            idx = H.peel(n0[3])
            total = st.size.get(base) if base else None
            if H.kind(idx) == "struct":
                nm = idx[2].split("::")[-1]
                fields = {f[0]: f[1] for f in idx[4]}
                if nm == "RangeFull":
                    return total if total is not None else Poly.atom(f"len({base})")
                if nm == "RangeFrom":
                    if total is None:
                        total = Poly.atom(f"len({base})")
                    return total - self.poly(fields["start"], st)
                if nm == "Range":
                    return self.poly(fields["end"], st) - self.poly(fields["start"], st)
                if nm == "RangeTo":
                    return self.poly(fields["end"], st)
            raise Unknown(f"slice expression {H.show(n0)}")
        if H.kind(n0) == "array":
            return Poly.const(len(n0[2]))
        if H.kind(n0) == "lit" and n0[2][0] in ("bstr", "str"):
            return Poly.const(len(n0[2][1].encode()))
        if H.kind(n0) == "mcall" and n0[3] in ("as_bytes", "as_ref", "as_slice", "as_mut_slice", "as_mut"):
            return self.slice_size(n0[4], st)
        pt = place_text(n0)
        if pt:
            if pt in st.size:
                return st.size[pt]
            # fixed-size array local?
            from .common import expr_ty, array_len
            al = array_len(expr_ty(n0) or "")
            if al is not None:
                return Poly.const(al)
            return Poly.atom(f"len({pt})")
        raise Unknown(f"buffer expression {H.show(n0)}")

    # ---- events
    def involves_stream(self, n):
        for x in H.walk(n):
            if place_text(x) == self.model.stream:
                return True
        return False

    def account_event(self, n, st):
        """`self.<counter> += E`"""
        if H.kind(n) == "assignop" and n[2] in ("Add", "AddAssign") and place_text(n[3]) == self.model.counter:
            e = self.poly(n[4], st)
            st.acct = st.acct + e
            st.trace.append(f"L{n[1]}: {self.model.counter} += {e!r}")
            return True
        if H.kind(n) in ("assign", "assignop") and place_text(n[2] if H.kind(n) == "assign" else n[3]) == self.model.counter:
            raise Unknown(f"counter assigned in an unrecognised way: {H.show(n)}")
        return False

    # ---- evaluation: returns list of (state, value Poly|None); finished paths go to self.paths
    def ev(self, n, st):
        k = H.kind(n)
        if k is None:
            return [(st, None)]
        if k == "block":
            states = [st]
            for s in n[2]:
                nxt = []
                for s0 in states:
                    nxt.extend(x for x, _ in self.ev_stmt(s, s0))
                states = nxt
            if n[3] is None:
                return [(s0, None) for s0 in states]
            out = []
            for s0 in states:
                out.extend(self.ev(n[3], s0))
            return out
        if k in ("semi", "sexpr", "slet"):
            return self.ev_stmt(n, st)
        if k == "if":
            out = []
            for s1, _ in self.ev(n[2], st):
                out.extend(self.ev(n[3], s1.copy()))
                if n[4] is not None:
                    out.extend(self.ev(n[4], s1.copy()))
                else:
                    out.append((s1.copy(), None))
            return out
        if k == "match":
            if is_try(n):
                # `expr?`: the error path returns Err (not our concern); the value is the Ok payload
                res = self.ev(try_operand(n), st)
                return [(s, v) for s, v in res]
            out = []
            for s1, _ in self.ev(n[2], st):
                for (p, g, b, ln) in H.match_arms(n):
                    s2 = s1.copy()
                    if g is not None:
                        for s3, _ in self.ev(g, s2):
                            out.extend(self.ev(b, s3))
                    else:
                        out.extend(self.ev(b, s2))
            return out
        if k == "ret":
            if n[2] is not None:
                for s1, _ in self.ev(n[2], st):
                    self.paths.append((s1, self.outcome(n[2])))
            else:
                self.paths.append((st, "unit"))
            return []
        if k == "loop":
            # a loop whose body has no events is irrelevant; otherwise unknown
            if self.has_events(n[2]):
                raise Unknown(f"loop with stream/accounting events at line {n[1]}")
            self.havoc(n[2], st)
            return [(st, None)]
        if k == "closure":
            if self.has_events(n[4]):
                raise Unknown(f"closure with stream/accounting events outside a recognised combinator, line {n[1]}")
            self.havoc(n[4], st)
            return [(st, None)]
        if k in ("assign", "assignop"):
            rhs = n[3] if k == "assign" else n[4]
            out = []
            for s1, _ in self.ev(rhs, st):
                if not self.account_event(n, s1):
                    # track simple local re-assignment
                    lhs = n[2] if k == "assign" else n[3]
                    p = H.path_of(lhs)
                    if p and k == "assign":
                        s1.env[p] = self.poly(rhs, s1)
                out.append((s1, None))
            return out
        if k in ("call", "mcall"):
            return self.ev_call(n, st)
        if k == "let":
            return self.ev(n[3], st)
        # generic: evaluate children in order
        states = [st]
        for c in H.children(n):
            nxt = []
            for s0 in states:
                nxt.extend(x for x, _ in self.ev(c, s0))
            states = nxt
        val = None
        if k in ("bin", "lit", "cast", "path", "field"):
            return [(s0, self.poly(n, s0)) for s0 in states]
        return [(s0, val) for s0 in states]

    def havoc(self, n, st):
        """forget what is known about buffers / locals that a skipped loop or closure body may change"""
        for x in H.walk(n):
            if H.kind(x) == "mcall":
                pt = place_text(x[4])
                if pt:
                    st.size.pop(pt, None)
                for a in x[5]:
                    a0 = H.peel(a)
                    pt = place_text(a0)
                    if pt:
                        st.size.pop(pt, None)
            if H.kind(x) in ("assign", "assignop"):
                lhs = x[2] if H.kind(x) == "assign" else x[3]
                p = H.path_of(lhs)
                if p:
                    st.env.pop(p, None)
                    st.size.pop(p, None)

    def has_events(self, n):
        for x in H.walk(n):
            if H.kind(x) in ("assign", "assignop"):
                lhs = x[2] if H.kind(x) == "assign" else x[3]
                if place_text(lhs) == self.model.counter:
                    return True
            if H.kind(x) in ("call", "mcall") and self.is_mover(x):
                return True
        return False

    def is_mover(self, n):
        args = H.call_args(n)
        return any(place_text(a) == self.model.stream for a in args) or any(
            H.kind(H.peel(a)) == "mcall" and self.involves_stream(H.peel(a)) and H.peel(a)[3] in ("take", "by_ref") for a in args)

    def outcome(self, e):
        e = H.peel(e)
        if H.kind(e) == "call":
            c = H.callee(e) or ""
            if c.endswith("result::Result::Ok"):
                return "ok"
            if c.endswith("result::Result::Err"):
                return "err"
        if H.kind(e) == "mcall":
            if e[3] in ("fail",):
                return "err"
            return "fwd:" + e[3]
        if H.kind(e) == "match" and not is_try(e):
            return "mixed"
        return "val"

    def ev_stmt(self, s, st):
        k = H.kind(s)
        if k in ("semi", "sexpr"):
            return [(x, None) for x, _ in self.ev(s[2], st)]
        if k == "slet":
            if s[3] is None:
                return [(st, None)]
            out = []
            for s1, v in self.ev(s[3], st):
                names = H.pat_bindings(s[2])
                if s[2][0] == "pbind" and len(names) == 1:
                    nm = names[0]
                    init = H.peel(s[3])
                    sz = self.alloc_size(init, s1)
                    if sz is not None:
                        s1.size[nm] = sz
                        s1.env.pop(nm, None)
                    elif v is not None:
                        s1.env[nm] = v
                    else:
                        p = self.pure_poly(init, s1)
                        if p is not None:
                            s1.env[nm] = p
                        else:
                            s1.env.pop(nm, None)
                out.append((s1, None))
            return out
        return self.ev(s, st)

    def pure_poly(self, n, st):
        n = H.peel(n)
        if is_try(n):
            return None
        if H.kind(n) in ("bin", "lit", "cast", "path"):
            return self.poly(n, st)
        if H.kind(n) == "mcall" and n[3] == "len":
            return self.poly(n, st)
        if H.kind(n) == "call" and (H.callee(n) or "").endswith("::from") and len(n[3]) == 1:
            return self.pure_poly(n[3][0], st)
        return None

    def alloc_size(self, init, st):
        """size of a freshly allocated buffer: smallvec![x; n], vec![x; n], [x; N]"""
        if H.kind(init) == "call":
            c = H.callee(init) or ""
            if c.endswith("from_elem") and len(init[3]) == 2:
                return self.poly(init[3][1], st)
        if H.kind(init) == "repeat":
            from .common import array_len
            al = array_len(init[3])
            if al is not None:
                return Poly.const(al)
        return None

    def ev_call(self, n, st):
        # evaluate arguments first (they may contain nested calls with events), except closures
        model = self.model
        name = n[3] if n[0] == "mcall" else (H.callee(n) or "").split("::")[-1]
        args = H.call_args(n)
        # Result/Option combinators whose closure runs once on the success path
        if n[0] == "mcall" and name in ("map", "inspect", "and_then") and args and H.kind(H.peel(args[-1])) == "closure":
            clo = H.peel(args[-1])
            out = []
            for s1, v in self.ev(n[4], st):
                if self.has_events(clo[4]):
                    # bind closure params: tuple element 1 of the Ok payload is the returned count
                    params = clo[3]
                    s2 = s1
                    if params and v is not None:
                        pn = H.pat_bindings(params[0])
                        if params[0][0] == "ptuple" and len(pn) == 2:
                            s2.env[pn[1]] = v
                        elif params[0][0] == "pbind":
                            s2.env[pn[0]] = v
                    for s3, _ in self.ev(clo[4], s2):
                        out.append((s3, None))
                else:
                    out.append((s1, v))
            return out
        # error-context adaptors: transparent
        if n[0] == "mcall" and name in ("context", "with_context", "map_err", "ok", "unwrap_or_default"):
            res = self.ev(n[4], st)
            return res
        # iterator over n_times(k) whose map-closure moves bytes: k * per-iteration
        if n[0] == "mcall" and name == "collect" or name == "map":
            chain = self.iter_chain(n)
            if chain is not None:
                count, clo = chain
                if self.has_events(clo[4]):
                    sub = Interp(model, self.fn)
                    s0 = State()
                    s0.env, s0.size = dict(st.env), dict(st.size)
                    res = sub.ev(clo[4], s0)
                    if sub.paths or len(res) != 1 or res[0][0].acct != Poly():
                        raise Unknown("iteration closure with accounting or early returns")
                    per = res[0][0].moved
                    cnt = self.poly(count, st)
                    st.moved = st.moved + per * cnt
                    st.trace.append(f"L{n[1]}: {cnt!r} x closure moving {per!r}")
                    return [(st, None)]
        # sibling helper that moves exactly its argument and accounts nothing (verified separately by the caller of ACC)
        if n[0] == "mcall" and H.path_of(n[4]) == "self" and name in getattr(model, "self_movers", {}):
            amount = self.poly(n[5][model.self_movers[name]], st)
            st.moved = st.moved + amount
            st.trace.append(f"L{n[1]}: self.{name}(..) moves {amount!r} [helper checked separately]")
            return [(st, None)]
        # balanced calls to sibling methods
        if n[0] == "mcall" and H.path_of(n[4]) == "self" and name in model.balanced_self_methods:
            states = [st]
            for a in n[5]:
                nxt = []
                for s0 in states:
                    nxt.extend(x for x, _ in self.ev(a, s0))
                states = nxt
            for s0 in states:
                s0.trace.append(f"L{n[1]}: self.{name}(..) [balanced, checked separately]")
            return [(s0, None) for s0 in states]
        # stream movers
        if self.is_mover(n):
            moved, val = model.stream_call(self, n, st)
            st.moved = st.moved + moved
            st.trace.append(f"L{n[1]}: {name} moves {moved!r}")
            return [(st, val)]
        # otherwise evaluate args in order
        states = [st]
        for a in args:
            if H.kind(H.peel(a)) == "closure":
                if self.has_events(H.peel(a)[4]):
                    raise Unknown(f"closure with events passed to {name} at line {n[1]}")
                continue
            nxt = []
            for s0 in states:
                nxt.extend(x for x, _ in self.ev(a, s0))
            states = nxt
        # buffer size effects
        out = []
        for s0 in states:
            if n[0] == "mcall":
                pt = place_text(n[4])
                if pt:
                    if name in ("resize_with", "resize") and n[5]:
                        s0.size[pt] = self.poly(n[5][0], s0)
                    elif name in ("clear",):
                        s0.size[pt] = Poly()
                    elif name in ("push",) and pt in s0.size:
                        # size becomes opaque after data-dependent pushes
                        s0.size.pop(pt, None)
                    elif name in ("extend_from_slice", "extend", "truncate", "pop", "append", "insert", "remove") and pt in s0.size:
                        s0.size.pop(pt, None)
            v = None
            if n[0] == "mcall" and name == "len":
                v = self.poly(n, s0)
            out.append((s0, v))
        return out

    def iter_chain(self, n):
        """recognise n_times(k).map(closure)[.collect()] ; returns (k_node, closure) or None"""
        x = n
        if x[0] == "mcall" and x[3] == "collect":
            x = H.peel(x[4])
        if H.kind(x) == "mcall" and x[3] == "map" and x[5] and H.kind(H.peel(x[5][0])) == "closure":
            src = H.peel(x[4])
            if H.kind(src) == "call" and (H.callee(src) or "").endswith("n_times") and len(src[3]) == 1:
                return src[3][0], H.peel(x[5][0])
        return None


def check_fn(model, hirfn, short_name):
    """Run the interpreter over one function. Returns list of path records:
       {outcome, moved, acct, balanced, trace}"""
    it = Interp(model, short_name)
    st = State()
    res = it.ev(hirfn["body"], st)
    body = H.peel(hirfn["body"])
    tail = body[3] if H.kind(body) == "block" else body
    for s, v in res:
        it.paths.append((s, it.outcome(tail) if tail is not None else "unit"))
    recs = []
    for s, oc in it.paths:
        recs.append({"outcome": oc, "moved": repr(s.moved), "acct": repr(s.acct), "balanced": s.moved == s.acct,
                     "trace": s.trace, "flags": sorted(s.flags)})
    return recs
