"""C03 — element and item headers follow the PS3.5 wire layout.

Decides, from the resolved HIR/MIR of the six codecs (3 encoders, 3 decoders + adaptive decoder):
the VR -> {16-bit, 32-bit length form} tables (all 34 VRs x 5 sites) against refs/vr.tsv, the byte
layout of every header form (offsets, widths, buffer sizes, reported byte counts), endianness purity of
each codec, the range guard on the 16-bit length cast, and the VR two-letter code bijection.
"""
import re

from . import facts, hirq as H, mirq as M, common as C, guards as G

LEVEL_TEXT = ("Exhaustive over the finite tables: every VR variant x every header site, every layout slot of every "
              "header form, every ByteOrder call of each codec. Tags and lengths are opaque to the layout, so nothing "
              "is sampled. Decides the layout/table structure, not a byte comparison of executed output.")

ENC = "dicom_encoding::encode"
DEC = "dicom_encoding::decode"

ENCODERS = {
    "explicit_le": (f"{ENC}::explicit_le::ExplicitVRLittleEndianEncoder", "LittleEndian", True),
    "explicit_be": (f"{ENC}::explicit_be::ExplicitVRBigEndianEncoder", "BigEndian", True),
    "implicit_le": (f"{ENC}::implicit_le::ImplicitVRLittleEndianEncoder", "LittleEndian", False),
}
DECODERS = {
    "explicit_le": (f"{DEC}::explicit_le::ExplicitVRLittleEndianDecoder", "LittleEndian"),
    "explicit_be": (f"{DEC}::explicit_be::ExplicitVRBigEndianDecoder", "BigEndian"),
    "implicit_le": (f"{DEC}::implicit_le::ImplicitVRLittleEndianDecoder<D>", "LittleEndian"),
    "adaptive_le": (f"{DEC}::adaptive_le::AdaptiveVRLittleEndianDecoder<D>", "LittleEndian"),
}

# PS3.5 7.1.2 / 7.5: layout slots (offset, width, what)
LAYOUT = {
    "short": ({(0, 2, "group"), (2, 2, "element"), (4, 1, "vr0"), (5, 1, "vr1"), (6, 2, "len")}, 8),
    "long": ({(0, 2, "group"), (2, 2, "element"), (4, 1, "vr0"), (5, 1, "vr1"), (8, 4, "len")}, 12),
    "implicit": ({(0, 2, "group"), (2, 2, "element"), (4, 4, "len")}, 8),
}
ITEM_TAGS = {"encode_item_header": 0xE000, "encode_item_delimiter": 0xE00D, "encode_sequence_delimiter": 0xE0DD}


def value_kind(n):
    """classify the value written into a header slot"""
    if n is None:
        return "?"
    cs = [c for c, _ in H.calls(n) if c]
    if any(c.endswith("Tag::group") for c in cs):
        return "group"
    if any(c.endswith("Tag::element") for c in cs):
        return "element"
    v = H.int_lit(n)
    if v is not None:
        return f"const:0x{v:04X}"
    return "len"


def arm_layout(b):
    """set of (offset, width, what) written into the header buffer by an encoder arm/body + buffer size + Ok literal"""
    slots = set()
    endians = set()
    for endian, fname, (base, off, ln), val, node in C.byteorder_calls(b):
        if not fname.startswith("write_"):
            continue
        slots.add((off, C.width_of(fname), value_kind(val)))
        endians.add(endian)
    for x in H.walk(b):
        if H.kind(x) == "assign":
            base, off, ln = C.slice_extent(x[2])
            if off is not None and ln == 1:
                src = H.peel(x[3])
                if H.kind(src) == "index":
                    i = H.int_lit(src[3])
                    slots.add((off, 1, f"vr{i}"))
                else:
                    slots.add((off, 1, "?"))
    sizes = [C.array_len(x[3]) for x in H.walk(b) if H.kind(x) == "repeat"]
    oks = [v for k, v in C.ok_literals(b) if k == "ok"]
    return slots, sizes, oks, endians


def vr_match(chk, fx, rule, path, where):
    h = fx.hirfn(path)
    ms = H.matches_over(h["body"], lambda t: t == C.VR_ENUM)
    if len(ms) != 1:
        raise facts.MissingAnchor(f"{where}: expected exactly one match over VR, found {len(ms)}")
    return h, ms[0]


def endianness_purity(chk, fx):
    # ---------------- rule 3: endianness purity (MIR, resolved generic argument)
    chk.rule("endianness-purity", "every ByteOrder call inside a codec's impl resolves to the codec's endianness; "
             "BasicEncode::endianness returns the matching constant; the `basic` field is the matching basic codec")
    n_calls = 0
    for group, table in (("enc", ENCODERS), ("dec", DECODERS)):
        for key, spec in table.items():
            ty, endian = spec[0], spec[1]
            fs = fx.find_fns("dicom_encoding", lambda p, ty=ty: p.startswith(f"<{ty} as "))
            if len(fs) < 3:
                raise facts.MissingAnchor(f"impl bodies for {ty}: {len(fs)}")
            for f in fs:
                for bb, t in M.calls(f):
                    c = M.callee(t) or ""
                    if "byteorder::ByteOrder>::" in c:
                        n_calls += 1
                        chk.expect(f"<byteorder::{endian} as" in c, "endianness-purity", f["path"], c.split("::")[-1] + f"@{t['l']}",
                                   endian, c, loc=f"{f['loc']['f']}:{t['l']}")
                    # integer <-> byte-array conversions of std carry a byte order too: only the codec's own is allowed
                    mconv = re.search(r"core::num::<impl \w+>::(to|from)_(le|be|ne)_bytes$", c)
                    if mconv:
                        n_calls += 1
                        want_conv = "le" if endian == "LittleEndian" else "be"
                        chk.expect(mconv.group(2) == want_conv, "endianness-purity", f["path"], c.split("::")[-1] + f"@{t['l']}", f"{mconv.group(1)}_{want_conv}_bytes", c,
                                   loc=f"{f['loc']['f']}:{t['l']}")
            # the basic codec field
            adt = fx.adt(ty.replace("<D>", ""))
            basic = [fl for v in adt["variants"] for fl in v["fields"] if fl["name"] == "basic"]
            exp_basic = ("LittleEndianBasic" if endian == "LittleEndian" else "BigEndianBasic") + ("Encoder" if group == "enc" else "Decoder")
            chk.expect(len(basic) == 1 and basic[0]["ty"].endswith(exp_basic), "endianness-purity", ty, "basic-field", exp_basic,
                       [b["ty"] for b in basic])
    # also helper fns in adaptive_le
    for p in (f"{DEC}::adaptive_le::decode_explicit_length", f"{DEC}::adaptive_le::decode_implicit_length", f"{DEC}::adaptive_le::decode_explicit_header"):
        f = fx.fn(p)
        for bb, t in M.calls(f):
            c = M.callee(t) or ""
            if "byteorder::ByteOrder>::" in c:
                n_calls += 1
                chk.expect("<byteorder::LittleEndian as" in c, "endianness-purity", p, c.split("::")[-1] + f"@{t['l']}", "LittleEndian", c)
    chk.floor("endianness-purity", "ByteOrder call sites in codec impls", n_calls, 60)
    for key, (ty, endian, _) in ENCODERS.items():
        h = fx.hirfn(f"<{ty} as {ENC}::BasicEncode>::endianness")
        p = H.path_of(h["body"])
        chk.expect(p is not None and p.endswith("Endianness::" + endian.replace("Endian", "")), "endianness-purity", ty, "endianness()",
                   endian, p, loc=C.fn_loc(h))
    # basic codecs themselves (byteordered::ByteOrdered with a static endianness)
    for nm, endian in (("encode::basic::LittleEndianBasicEncoder", "LittleEndian"), ("encode::basic::BigEndianBasicEncoder", "BigEndian"),
                       ("decode::basic::LittleEndianBasicDecoder", "LittleEndian"), ("decode::basic::BigEndianBasicDecoder", "BigEndian")):
        fs = fx.find_fns("dicom_encoding", lambda p, nm=nm: p.startswith(f"<dicom_encoding::{nm} as dicom_encoding::"))
        cnt = 0
        for f in fs:
            for bb, t in M.calls(f):
                d = M.callee_decl(t) or ""
                if d.startswith("byteordered::wrap::ByteOrdered") or "byteorder::" in d:
                    ga = d + " " + " ".join(t["fn"].get("ga", [])) + " " + (M.callee(t) or "")
                    cnt += 1
                    other = "BigEndian" if endian == "LittleEndian" else "LittleEndian"
                    chk.expect(endian in ga and other not in ga, "endianness-purity", f["path"], d.split("::")[-1] + f"@{t['l']}", endian, ga)
        chk.floor("endianness-purity", f"{nm} byte-order calls", cnt, 16)


def vr_code(chk, fx, variants):
    chk.rule("vr-code", "VR::to_string and <VR as FromStr>::from_str are inverse bijections between the 34 variants and 34 distinct "
             "two-upper-case-letter literals equal to the variant names; every other string is an error; from_binary goes through "
             "from_str only; to_bytes takes bytes [0],[1] of to_string")
    h = fx.hirfn(f"{C.VR_ENUM}::to_string")
    ms = H.matches_over(h["body"], lambda t: t == C.VR_ENUM)
    if len(ms) != 1:
        raise facts.MissingAnchor("VR::to_string: match over VR")
    table, arms = H.enum_table(ms[0], variants, C.VR_ENUM)
    to_s = {}
    for v in variants:
        idxs = table[v]
        lit = H.lit(arms[idxs[0]][2]) if idxs else None
        to_s[v] = lit[1] if lit and lit[0] == "str" else None
        chk.expect(to_s[v] == v, "vr-code", "VR::to_string", v, v, to_s[v], loc=f"{h['loc']['f']}:{arms[idxs[0]][3] if idxs else 0}")
    chk.expect(len(set(to_s.values())) == 34, "vr-code", "VR::to_string", "distinct-codes", 34, len(set(to_s.values())))
    h = fx.hirfn(f"<{C.VR_ENUM} as core::str::traits::FromStr>::from_str")
    ms = [m for m in H.walk(h["body"]) if H.kind(m) == "match" and m[3].lstrip("&").strip() == "str"]
    if len(ms) != 1:
        raise facts.MissingAnchor("VR::from_str: match over &str")
    from_s = {}
    wild_err = False
    for p, g, b, ln in H.match_arms(ms[0]):
        for alt in H.pat_alts(p):
            hd = H.pat_head(alt)
            if hd[0] == "lit":
                bb = H.peel(b)
                ok = H.kind(bb) == "call" and (H.callee(bb) or "").endswith("result::Result::Ok")
                vp = H.path_of(bb[3][0]) if ok and bb[3] else None
                from_s[hd[1]] = (vp or "?").split("::")[-1] if ok else "not-Ok"
                if g is not None:
                    from_s[hd[1]] += "+guard"
            elif hd[0] == "wild":
                bb = H.peel(b)
                wild_err = H.kind(bb) == "call" and (H.callee(bb) or "").endswith("result::Result::Err")
    chk.expect(wild_err, "vr-code", "VR::from_str", "wildcard-arm", "_ => Err(..)", wild_err)
    # "recognised iff defined": the table is applied to the input text itself, not to a normalised (case-folded, trimmed) copy
    scr = H.peel(ms[0][2])
    pnames = [b for prm in (h.get("params") or []) for b in H.pat_bindings(prm)]
    chk.expect(H.kind(scr) == "path" and scr[3] == "local" and H.path_of(scr) in pnames, "vr-code", "VR::from_str", "matches-the-input-itself",
               f"match <parameter {pnames}> {{ .. }}", H.show(ms[0][2], 6), loc=C.fn_loc(h))
    for v in variants:
        chk.expect(from_s.get(v) == v, "vr-code", "VR::from_str", v, v, from_s.get(v))
    extra = sorted(set(from_s) - set(variants))
    chk.expect(not extra, "vr-code", "VR::from_str", "no-undefined-codes", "only the 34 defined codes", extra)
    chk.sample({"rule": "vr-code", "from_str": from_s})
    # from_binary
    h = fx.hirfn(f"{C.VR_ENUM}::from_binary")
    cs = [c for c, _ in H.calls(h["body"]) if c]
    # closure inside calls from_str
    chk.expect(any(c.endswith("FromStr::from_str") for c in cs) and any(c.endswith("str::converts::from_utf8") for c in cs)
               and not H.matches_over(h["body"], lambda t: True), "vr-code", "VR::from_binary", "via-from_str",
               "from_utf8(..).ok().and_then(from_str(..).ok()), no table of its own", cs, loc=C.fn_loc(h))
    h = fx.hirfn(f"{C.VR_ENUM}::to_bytes")
    idx = sorted(H.int_lit(x[3]) for x in H.walk(h["body"]) if H.kind(x) == "index" and H.int_lit(x[3]) is not None)
    cs = [c for c, _ in H.calls(h["body"]) if c]
    chk.expect(idx == [0, 1] and any(c.endswith("VR::to_string") for c in cs), "vr-code", "VR::to_bytes", "bytes[0],[1] of to_string",
               [0, 1], {"indices": idx, "calls": cs}, loc=C.fn_loc(h))



def run(chk, tier):
    fx = facts.load("W")
    ref = C.vr_ref()
    variants = fx.variants(C.VR_ENUM)
    chk.analysed["config"] = "W (cargo check --workspace)"
    chk.analysed["facts"] = fx.meta
    chk.assume("rustc's name resolution/type check (HIR, MIR) is the ground truth for what the source means")
    chk.assume("refs/vr.tsv transcribes PS3.5 Table 6.2-1/7.1-1/7.1-2 correctly")
    chk.assume("byteorder::ByteOrder::{read,write}_uN behave as documented (third-party crate, trusted)")

    # ---------------- rule 0: the enum itself agrees with the reference (fails closed on new variants)
    chk.rule("vr-enum", "the VR enum has exactly the 34 codes of PS3.5 Table 6.2-1 (a new variant must get a reference row)")
    chk.expect(sorted(variants) == sorted(ref), "vr-enum", C.VR_ENUM, "variants", sorted(ref), sorted(variants))

    # ---------------- rule 1: VR -> header form tables at five sites
    chk.rule("vr-header-form", "each of the five VR->length-form dispatch sites is a total function over the 34 VRs equal to "
             "PS3.5 7.1.2 (refs/vr.tsv); arms are classified by what they do (buffer size, width of the length access, "
             "reported byte count), not by position or text")
    sites = []
    for key in ("explicit_le", "explicit_be"):
        ty = ENCODERS[key][0]
        sites.append(("enc:" + key, f"<{ty} as {ENC}::Encode>::encode_element_header", "enc"))
    for key in ("explicit_le", "explicit_be"):
        ty = DECODERS[key][0]
        sites.append(("dec:" + key, f"<{ty} as {DEC}::Decode>::decode_header", "dec"))
    sites.append(("dec:adaptive", f"{DEC}::adaptive_le::decode_explicit_length", "dec"))
    forms_by_site = {}
    for name, path, kind in sites:
        h, m = vr_match(chk, fx, "vr-header-form", path, name)
        table, arms = H.enum_table(m, variants, C.VR_ENUM)
        arm_form = {}
        for idx, (p, g, b, ln) in enumerate(arms):
            if kind == "enc":
                slots, sizes, oks, _ = arm_layout(b)
                lens = {(o, w) for (o, w, what) in slots if what == "len"}
                if sizes == [8] and lens == {(6, 2)} and oks == [8]:
                    arm_form[idx] = "short"
                elif sizes == [12] and lens == {(8, 4)} and oks == [12]:
                    arm_form[idx] = "long"
                else:
                    arm_form[idx] = f"unrecognised(size={sizes},len={sorted(lens)},ok={oks})"
            else:
                reads = [(f, e) for (_, f, e, _, _) in C.byteorder_calls(b) if f.startswith("read_")]
                widths = sorted({C.width_of(f) for f, _ in reads})
                lits = sorted({v for k, v in C.ok_literals(b)})
                if widths == [2] and lits == [8]:
                    arm_form[idx] = "short"
                elif widths == [4] and lits == [12]:
                    arm_form[idx] = "long"
                else:
                    arm_form[idx] = f"unrecognised(read widths={widths},counts={lits})"
            if g is not None:
                arm_form[idx] += "+guard"
        forms = {}
        for v in variants:
            idxs = table[v]
            got = arm_form[idxs[0]] if len(idxs) >= 1 else "no-arm"
            forms[v] = got
            chk.expect(got == ref[v]["header"], "vr-header-form", name, v, ref[v]["header"], got,
                       loc=f"{h['loc']['f']}:{arms[idxs[0]][3] if idxs else h['loc']['l']}")
        forms_by_site[name] = forms
    chk.sample({"rule": "vr-header-form", "site": "enc:explicit_le", "table": forms_by_site["enc:explicit_le"]})
    first = forms_by_site[sites[0][0]]
    for name, forms in forms_by_site.items():
        chk.expect(forms == first, "vr-header-form", name, "sibling-agreement", "same table as " + sites[0][0],
                   "equal" if forms == first else {v: forms[v] for v in forms if forms[v] != first[v]})

    # ---------------- rule 2: layout constants
    chk.rule("header-layout", "every header form writes exactly the PS3.5 slots (offset,width,content), into a buffer of the "
             "form's size, and reports that size; decoders consume exactly the bytes they report")
    for key, (ty, endian, explicit) in ENCODERS.items():
        path = f"<{ty} as {ENC}::Encode>::encode_element_header"
        h = fx.hirfn(path)
        if explicit:
            _, m = vr_match(chk, fx, "header-layout", path, key)
            for idx, (p, g, b, ln) in enumerate(H.match_arms(m)):
                slots, sizes, oks, _ = arm_layout(b)
                form = "short" if sizes == [8] else "long"
                exp_slots, exp_size = LAYOUT[form]
                chk.expect(slots == exp_slots and sizes == [exp_size] and oks == [exp_size], "header-layout",
                           f"enc:{key}", f"element-header/{form}",
                           {"slots": sorted(exp_slots), "size": exp_size, "ok": exp_size},
                           {"slots": sorted(slots, key=str), "size": sizes, "ok": oks}, loc=f"{h['loc']['f']}:{ln}")
        else:
            slots, sizes, oks, _ = arm_layout(h["body"])
            exp_slots, exp_size = LAYOUT["implicit"]
            chk.expect(slots == exp_slots and sizes == [exp_size] and oks == [exp_size], "header-layout",
                       f"enc:{key}", "element-header/implicit",
                       {"slots": sorted(exp_slots), "size": exp_size, "ok": exp_size},
                       {"slots": sorted(slots, key=str), "size": sizes, "ok": oks}, loc=C.fn_loc(h))
        for fn, elem in ITEM_TAGS.items():
            hh = fx.hirfn(f"<{ty} as {ENC}::Encode>::{fn}")
            slots, sizes, oks, _ = arm_layout(hh["body"])
            exp = {(0, 2, "const:0xFFFE"), (2, 2, f"const:0x{elem:04X}")}
            if fn == "encode_item_header":
                exp.add((4, 4, "len"))
            chk.expect(slots == exp and sizes == [8], "header-layout", f"enc:{key}", fn,
                       {"slots": sorted(exp), "size": 8}, {"slots": sorted(slots, key=str), "size": sizes}, loc=C.fn_loc(hh))
        # write_all of the whole buffer, exactly once per header
        for fn in ["encode_element_header"] + list(ITEM_TAGS):
            hh = fx.hirfn(f"<{ty} as {ENC}::Encode>::{fn}")
            was = [x for c, x in H.calls(hh["body"]) if c and c.endswith("io::Write::write_all")]
            exts = [C.slice_extent(H.call_args(x)[1]) for x in was]
            n_expected = 2 if (fn == "encode_element_header" and explicit) else 1
            good = len(was) == n_expected and all(e[1] == 0 and e[2] in (8, 12) for e in exts)
            chk.expect(good, "header-layout", f"enc:{key}", f"{fn}/write_all-whole-buffer", f"{n_expected} write_all(&buf)",
                       [str(e) for e in exts], loc=C.fn_loc(hh))

    # decoders: bytes consumed == bytes reported
    chk.rule("header-bytes-read", "in each explicit decoder arm: 4 (tag) + 2 (VR) + bytes read in the arm == reported byte count; "
             "the length is taken from a read of the form's width at buffer offset 0")
    for key in ("explicit_le", "explicit_be"):
        ty, endian = DECODERS[key]
        path = f"<{ty} as {DEC}::Decode>::decode_header"
        h, m = vr_match(chk, fx, "header-bytes-read", path, key)
        body = h["body"]
        # reads before the match (outside of it, excluding the group==FFFE early return)
        for idx, (p, g, b, ln) in enumerate(H.match_arms(m)):
            consumed = sum(e[2] or 0 for e, _ in C.read_exact_calls(b))
            lits = sorted({v for k, v in C.ok_literals(b)})
            chk.expect(len(lits) == 1 and 4 + 2 + consumed == lits[0], "header-bytes-read", f"dec:{key}", f"arm{idx}",
                       "6 + arm reads == bytes_read", {"arm_reads": consumed, "bytes_read": lits}, loc=f"{h['loc']['f']}:{ln}")
        # delimiter early return: 4 + 4 = 8
        ifs = [x for x in H.walk(body) if H.kind(x) == "if" and "65534" in H.show(x[2], 6)]
        chk.expect(len(ifs) == 1, "header-bytes-read", f"dec:{key}", "delimiter-branch-present", "if group == 0xFFFE", len(ifs))
        for x in ifs:
            consumed = sum(e[2] or 0 for e, _ in C.read_exact_calls(x[3]))
            lits = sorted({v for k, v in C.ok_literals(x[3])})
            reads = sorted({C.width_of(f) for (_, f, e, _, _) in C.byteorder_calls(x[3]) if f.startswith("read_")})
            chk.expect(consumed == 4 and lits == [8] and reads == [4], "header-bytes-read", f"dec:{key}", "delimiter-branch",
                       "reads 4 length bytes as u32, reports 8", {"read": consumed, "reported": lits, "widths": reads})
    # adaptive decode_explicit_length: same accounting
    h, m = vr_match(chk, fx, "header-bytes-read", f"{DEC}::adaptive_le::decode_explicit_length", "adaptive")
    for idx, (p, g, b, ln) in enumerate(H.match_arms(m)):
        consumed = sum(e[2] or 0 for e, _ in C.read_exact_calls(b))
        lits = sorted({v for k, v in C.ok_literals(b)})
        chk.expect(len(lits) == 1 and 6 + consumed == lits[0], "header-bytes-read", "dec:adaptive", f"arm{idx}",
                   "6 + arm reads == bytes_read", {"arm_reads": consumed, "bytes_read": lits}, loc=f"{h['loc']['f']}:{ln}")
    # implicit decoder: 4 + 4 -> 8
    ty = DECODERS["implicit_le"][0]
    h = fx.hirfn(f"<{ty} as {DEC}::Decode>::decode_header")
    consumed = sum(e[2] or 0 for e, _ in C.read_exact_calls(h["body"]))
    lits = sorted({v for k, v in C.ok_literals(h["body"])})
    reads = sorted({C.width_of(f) for (_, f, e, _, _) in C.byteorder_calls(h["body"]) if f.startswith("read_")})
    chk.expect(consumed == 4 and lits == [8] and reads == [4], "header-bytes-read", "dec:implicit_le", "element-header",
               "reads 4 length bytes (u32) after the tag, reports 8", {"read": consumed, "reported": lits, "widths": reads}, loc=C.fn_loc(h))
    # item headers: 8-byte buffer, u16@0,u16@2,u32@4 (explicit decoders + adaptive); implicit: tag via basic + 4
    for key in ("explicit_le", "explicit_be", "adaptive_le"):
        ty = DECODERS[key][0]
        hh = fx.hirfn(f"<{ty} as {DEC}::Decode>::decode_item_header")
        rd = sorted((e[1], C.width_of(f)) for (_, f, e, _, _) in C.byteorder_calls(hh["body"]) if f.startswith("read_"))
        consumed = sum(e[2] or 0 for e, _ in C.read_exact_calls(hh["body"]))
        chk.expect(rd == [(0, 2), (2, 2), (4, 4)] and consumed == 8, "header-bytes-read", f"dec:{key}", "item-header",
                   "8 bytes: u16@0 u16@2 u32@4", {"reads": rd, "consumed": consumed}, loc=C.fn_loc(hh))
        ctor = [c for c, _ in H.calls(hh["body"]) if c and c.endswith("SequenceItemHeader::new")]
        chk.expect(len(ctor) == 1, "header-bytes-read", f"dec:{key}", "item-header-ctor", "SequenceItemHeader::new", ctor)

    endianness_purity(chk, fx)

    # ---------------- rule 4: the u16 length cast is range-guarded with an error exit
    chk.rule("u16-length-guard", "in both explicit encoders every IntToInt cast u32->u16 of the length is dominated by a comparison "
             "of the same value against u16::MAX whose out-of-range branch returns Err (WriteHeaderTooLong), MIR dominators")
    for key in ("explicit_le", "explicit_be"):
        ty = ENCODERS[key][0]
        f = fx.fn(f"<{ty} as {ENC}::Encode>::encode_element_header")
        casts = [(bb, j, s) for bb, j, s in M.assigns(f)
                 if s["r"]["rv"] == "cast" and s["r"]["kind"] == "IntToInt" and s["r"]["to"] == "u16" and s["r"]["from"] == "u32"]
        chk.expect(len(casts) >= 1, "u16-length-guard", f"enc:{key}", "cast-present", ">=1 u32->u16 cast", len(casts))
        dom = M.dominators(f)
        rc = M.ret_classes(f)
        for k, (bb, j, s) in enumerate(casts):
            src = M.origin(f, s["r"]["o"])
            ok, why = G.upper_bound_guard(f, bb, src, 65535, dom, rc)
            chk.expect(ok, "u16-length-guard", f"enc:{key}", f"cast#{k}", "dominated by a comparison bounding the length by u16::MAX whose "
                       "out-of-range edge returns Err", why, loc=f"{f['loc']['f']}:{s['l']}")
    # no narrowing casts of the 32-bit length anywhere else in the encoders' header paths
    for key, (ty, _, _) in ENCODERS.items():
        for fn in ["encode_element_header"] + list(ITEM_TAGS):
            f = fx.fn(f"<{ty} as {ENC}::Encode>::{fn}")
            narrow = [(s["r"]["from"], s["r"]["to"], s["l"]) for bb, j, s in M.assigns(f)
                      if s["r"]["rv"] == "cast" and s["r"]["kind"] == "IntToInt" and (s["r"]["from"], s["r"]["to"]) in
                      (("u32", "u8"), ("u64", "u32"), ("usize", "u32"), ("usize", "u16"), ("u64", "u16"))]
            chk.expect(not narrow, "u16-length-guard", f"enc:{key}", f"{fn}/no-other-narrowing", "none", narrow)

    # ---------------- rule 5: VR code bijection
    vr_code(chk, fx, variants)

    # ---------------- rule 6: unknown VR code decodes as UN
    chk.rule("unknown-vr-un", "explicit decoders map an unrecognised VR code to VR::UN (from_binary(..).unwrap_or(VR::UN))")
    for name, path in (("dec:explicit_le", f"<{DECODERS['explicit_le'][0]} as {DEC}::Decode>::decode_header"),
                       ("dec:explicit_be", f"<{DECODERS['explicit_be'][0]} as {DEC}::Decode>::decode_header"),
                       ("dec:adaptive", f"{DEC}::adaptive_le::decode_explicit_header")):
        h = fx.hirfn(path)
        found = False
        for x in H.walk(h["body"]):
            if H.kind(x) == "mcall" and x[3] == "unwrap_or" and (H.callee(x[4]) or "").endswith("VR::from_binary"):
                found = H.path_of(x[5][0]) == C.VR_ENUM + "::UN"
        chk.expect(found, "unknown-vr-un", name, "from_binary.unwrap_or(UN)", "VR::UN", found, loc=C.fn_loc(h))

    chk.undecided.append("byte-level equality of executed output with an independent encoder (needs execution)")
