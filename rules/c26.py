"""C26 — P-DATA fragmentation: framing constants and sibling agreement of the sync and async writers.

1. header-setup (TAB): setup_pdata_header writes PDU length = data_len + 6 at bytes 2..6, PDV length = data_len + 2 at
   bytes 6..10 (big endian, via to_be_bytes), the message control header at byte 11 = 0x02 iff last; data_len is the buffer
   length minus the 12 header bytes; the header-size constants are 6 + 6 = 12.
2. writer-siblings (SIB): PDataWriter and AsyncPDataWriter build the same 12-byte prefix, the same capacity, the same
   `total_len = max_pdu_length + PDU_HEADER_SIZE` split rule; both mark only the final PDU as last (setup(.., true) only in
   finish_impl, setup(.., false) on dispatch) and cut the buffer back to the 12 header bytes after a dispatch.
3. async-state (PAIR): in AsyncPDataWriter::poll_write every `Poll::Pending` exit first stores WriteState::Writing(..), every
   completion in the Writing arm restores WriteState::Ready, and finish_impl refuses to run while a write is in flight.
"""
from . import facts, hirq as H, common as C
from .budget import poly_of

LEVEL_TEXT = ("Exhaustive over the header slots, the constants and every exit of the async writer's poll_write. Decides the framing "
              "structure and the agreement of the two sibling writers; behaviour under arbitrary chunkings and transport schedules is "
              "not decided by static analysis (stated in DESIGN.md).")

PD = "dicom_ul::association::pdata"


def strip_this(s):
    return s.replace("this.", "self.").replace("slice", "buf")


def run(chk, tier):
    fx = facts.load("W")
    chk.analysed["facts"] = fx.meta
    chk.assume("u32::to_be_bytes yields the big-endian bytes most significant first; Vec::truncate/extend behave as documented")

    # ---------- rule 1
    chk.rule("header-setup", "setup_pdata_header: bytes 2..6 = (data_len + 6) big endian, bytes 6..10 = (data_len + 2), byte 11 = 2 iff last; data_len = len - 12")
    h = fx.hirfn(f"{PD}::setup_pdata_header")
    env = {}
    arrays = {}
    for x in H.walk(h["body"]):
        if H.kind(x) == "slet" and x[3] is not None and x[2][0] == "pbind":
            nm = H.pat_bindings(x[2])[0]
            init = H.peel(x[3])
            if H.kind(init) == "mcall" and init[3] == "to_be_bytes":
                arrays[nm] = poly_of(init[4], env)
            else:
                env[nm] = poly_of(x[3], env)
    hdr = fx.const(f"{PD}::PDU_PDV_HEADER_SIZE")["val"]
    c1 = fx.const("dicom_ul::pdu::PDU_HEADER_SIZE")["val"]
    c2 = fx.const("dicom_ul::pdu::PDV_HEADER_SIZE")["val"]
    chk.expect((hdr, c1, c2) == ("12_usize", "6_u32", "6_u32"), "header-setup", "constants", "PDU_HEADER_SIZE+PDV_HEADER_SIZE", ("12_usize", "6_u32", "6_u32"), (hdr, c1, c2))
    dl = repr(env.get("data_len"))
    chk.expect(dl == "-1*PDU_PDV_HEADER_SIZE + len(buffer)" or dl.replace(" ", "") in ("len(buffer)+-1*PDU_PDV_HEADER_SIZE",) or ("PDU_PDV_HEADER_SIZE" in dl and "buffer" in dl and "-1" in dl),
               "header-setup", "setup_pdata_header", "data_len", "buffer.len() - PDU_PDV_HEADER_SIZE", dl, loc=C.fn_loc(h))
    slots = {}
    for x in H.walk(h["body"]):
        if H.kind(x) == "assign":
            base, off, ln = C.slice_extent(x[2])
            if base == "buffer" and off is not None:
                src = H.peel(x[3])
                if H.kind(src) == "index":
                    slots[off] = (H.path_of(src[2]), H.int_lit(src[3]))
                elif H.kind(src) == "if":
                    slots[off] = ("if:" + H.show(src[2], 3), H.int_lit(src[3]), H.int_lit(src[4]))
    want_pdu = env.get("data_len")
    ok_pdu = all(slots.get(2 + i, (None,))[0] is not None and arrays.get(slots[2 + i][0]) is not None and slots[2 + i][1] == i for i in range(4))
    ok_pdv = all(slots.get(6 + i, (None,))[0] is not None and arrays.get(slots[6 + i][0]) is not None and slots[6 + i][1] == i for i in range(4))
    if ok_pdu and want_pdu is not None:
        a = arrays[slots[2][0]] - want_pdu
        ok_pdu = a.is_const() and a.const_value() == 6
    if ok_pdv and want_pdu is not None:
        a = arrays[slots[6][0]] - want_pdu
        ok_pdv = a.is_const() and a.const_value() == 2
    chk.expect(ok_pdu, "header-setup", "setup_pdata_header", "bytes[2..6]", "(data_len + 6).to_be_bytes()[0..4] in order", {k: slots.get(k) for k in (2, 3, 4, 5)}, loc=C.fn_loc(h))
    chk.expect(ok_pdv, "header-setup", "setup_pdata_header", "bytes[6..10]", "(data_len + 2).to_be_bytes()[0..4] in order", {k: slots.get(k) for k in (6, 7, 8, 9)}, loc=C.fn_loc(h))
    chk.expect(slots.get(11) == ("if:is_last", 2, 0), "header-setup", "setup_pdata_header", "byte[11]", "if is_last { 0x02 } else { 0x00 }", slots.get(11), loc=C.fn_loc(h))
    chk.expect(set(slots) == {2, 3, 4, 5, 6, 7, 8, 9, 11}, "header-setup", "setup_pdata_header", "slots-written", [2, 3, 4, 5, 6, 7, 8, 9, 11], sorted(slots))

    # ---------- rule 2
    chk.rule("writer-siblings", "sync and async P-DATA writers agree on prefix bytes, capacity, split rule, last-flag placement and post-dispatch truncation")
    SW = f"{PD}::PDataWriter"
    AW = f"{PD}::non_blocking::AsyncPDataWriter"
    hs_new = fx.method("dicom_ul", SW, "new")
    ha_new = fx.method("dicom_ul", AW, "new")

    def prefix(hh):
        arrs = [x for x in H.walk(hh["body"]) if H.kind(x) == "array" and len(x[2]) == 12]
        return [H.int_lit(e) if H.int_lit(e) is not None else H.show(e, 2) for e in arrs[0][2]] if len(arrs) == 1 else None

    def capacity(hh):
        cs = [x for c, x in H.calls(hh["body"]) if c and c.endswith("with_capacity")]
        return H.show(cs[0][3][0], 8).replace("crate::pdu::", "").replace("dicom_ul::pdu::", "") if len(cs) == 1 else None

    want_prefix = [4, 0, 255, 255, 255, 255, 255, 255, 255, 255, "presentation_context_id", 255]
    chk.expect(prefix(hs_new) == want_prefix, "writer-siblings", "PDataWriter::new", "prefix", want_prefix, prefix(hs_new), loc=C.fn_loc(hs_new))
    chk.expect(prefix(ha_new) == prefix(hs_new), "writer-siblings", "AsyncPDataWriter::new", "prefix", prefix(hs_new), prefix(ha_new), loc=C.fn_loc(ha_new))
    chk.expect(capacity(ha_new) == capacity(hs_new) and capacity(hs_new) is not None, "writer-siblings", "new", "capacity", capacity(hs_new), capacity(ha_new))
    hs_w = fx.method("dicom_ul", f"<{SW} as std::io::Write>", "write")
    ha_w = fx.method("dicom_ul", f"<{AW} as tokio::io::async_write::AsyncWrite>", "poll_write")

    def split_rule(hh):
        tl = [H.show(x[3], 8) for x in H.walk(hh["body"]) if H.kind(x) == "slet" and H.pat_bindings(x[2]) == ["total_len"]]
        conds = [strip_this(H.show(x[2], 8)) for x in H.walk(hh["body"]) if H.kind(x) == "if" and "total_len" in H.show(x[2], 8) and "Le" in H.show(x[2], 8)]
        sl = [strip_this(H.show(x, 8)) for x in H.walk(hh["body"]) if H.kind(x) == "index" and "total_len" in H.show(x[3], 8)]
        return {"total_len": tl, "fits": conds, "slice": sl}

    rs, ra = split_rule(hs_w), split_rule(ha_w)
    chk.expect(rs == ra and len(rs["total_len"]) == 1 and len(rs["fits"]) == 1 and len(rs["slice"]) == 1, "writer-siblings", "write~poll_write", "split-rule",
               rs, ra, loc=C.fn_loc(ha_w))
    chk.expect("max_pdu_length" in rs["total_len"][0] and "PDU_HEADER_SIZE" in rs["total_len"][0] if rs["total_len"] else False, "writer-siblings", "write", "total_len",
               "max_pdu_length + PDU_HEADER_SIZE", rs["total_len"])

    def setup_flags(hh):
        out = []
        for c, x in H.calls(hh["body"]):
            if c == f"{PD}::setup_pdata_header":
                l = H.lit(x[3][1])
                out.append(l[1] if l else "?")
        return out

    hs_d = fx.method("dicom_ul", SW, "dispatch_pdu")
    hs_f = fx.method("dicom_ul", SW, "finish_impl")
    ha_f = fx.method("dicom_ul", AW, "finish_impl")
    chk.expect(setup_flags(hs_d) == ["false"] and setup_flags(hs_w) == [], "writer-siblings", "PDataWriter::dispatch_pdu", "not-last", ["false"], setup_flags(hs_d), loc=C.fn_loc(hs_d))
    chk.expect(setup_flags(ha_w) == ["false"], "writer-siblings", "AsyncPDataWriter::poll_write", "not-last", ["false"], setup_flags(ha_w), loc=C.fn_loc(ha_w))
    chk.expect(setup_flags(hs_f) == ["true"] and setup_flags(ha_f) == ["true"], "writer-siblings", "finish_impl", "last-only-on-finish", (["true"], ["true"]), (setup_flags(hs_f), setup_flags(ha_f)))
    for nm, hh in (("PDataWriter", hs_f), ("AsyncPDataWriter", ha_f)):
        guarded = [x for x in H.walk(hh["body"]) if H.kind(x) == "if" and "is_empty" in H.show(x[2], 5) and "Not" in H.show(x[2], 5) and setup_flags({"body": x[3]})]
        names = [y[3] for x in guarded for y in H.walk(x[3]) if H.kind(y) == "mcall"]
        chk.expect(len(guarded) == 1 and "write_all" in names and "clear" in names, "writer-siblings", f"{nm}::finish_impl", "send-then-clear",
                   "if !buffer.is_empty() { setup(true); write_all; clear }", names, loc=C.fn_loc(hh))
    tr_s = [H.show(x[5][0], 3) for x in H.walk(hs_d["body"]) if H.kind(x) == "mcall" and x[3] == "truncate"]
    tr_a = [H.show(x[5][0], 3) for x in H.walk(ha_w["body"]) if H.kind(x) == "mcall" and x[3] == "truncate"]
    # the async module carries its own copy of the constant: both must be 12
    hdr_a = fx.const(f"{PD}::non_blocking::PDU_PDV_HEADER_SIZE")["val"]
    chk.expect(hdr_a == hdr, "writer-siblings", "constants", "PDU_PDV_HEADER_SIZE(sync)==PDU_PDV_HEADER_SIZE(async)", hdr, hdr_a)
    tr_s = [t.split("::")[-1] for t in tr_s]
    tr_a = [t.split("::")[-1] for t in tr_a]
    chk.expect(tr_s == ["PDU_PDV_HEADER_SIZE"] and tr_a == ["PDU_PDV_HEADER_SIZE"] * 2, "writer-siblings", "dispatch", "truncate-to-header",
               "truncate(PDU_PDV_HEADER_SIZE) after every completed dispatch (1 sync site, 2 async sites)", {"sync": tr_s, "async": tr_a})
    wa = [H.show(H.call_args(x)[1], 4) for c, x in H.calls(hs_d["body"]) if c and c.endswith("io::Write::write_all")]
    chk.expect(wa == ["&self.buffer"], "writer-siblings", "PDataWriter::dispatch_pdu", "whole-buffer-written", ["&self.buffer"], wa)

    # ---------- rule 3
    chk.rule("async-state", "AsyncPDataWriter::poll_write: each Poll::Pending exit stores WriteState::Writing first; completion in the Writing arm restores Ready; "
             "finish_impl returns an error while state is Writing")
    WS = f"{PD}::non_blocking::WriteState"
    n_pending = 0
    for n, anc in H.walk_anc(ha_w["body"]):
        if H.kind(n) == "ret" and n[2] is not None and (H.path_of(n[2]) or "").endswith("Poll::Pending"):
            n_pending += 1
            blk = [a for a in anc if H.is_node(a) and H.kind(a) == "block"][-1]
            asg = [x for x in blk[2] if H.kind(x) in ("semi",) and H.kind(H.peel(x[2])) == "assign" and H.show(H.peel(x[2])[2], 3).endswith(".state")
                   and "WriteState::Writing" in H.show(H.peel(x[2])[3], 3) and x[1] <= n[1]]
            chk.expect(len(asg) == 1, "async-state", "poll_write", f"pending-exit#{n_pending}", "state = WriteState::Writing(..) before `return Poll::Pending`", len(asg),
                       loc=f"{ha_w['loc']['f']}:{n[1]}")
    chk.expect(n_pending == 2, "async-state", "poll_write", "pending-exits", 2, n_pending)
    ms = H.matches_over(ha_w["body"], lambda t: t == WS)
    if len(ms) != 1:
        raise facts.MissingAnchor("poll_write: match over WriteState")
    tab, arms = H.enum_table(ms[0], fx.variants(WS), WS)
    warm = arms[tab["Writing"][0]][2]
    done = 0
    for n, anc in H.walk_anc(warm):
        if H.kind(n) == "ret" and n[2] is not None and "Poll::Ready(core::result::Result::Ok(consumed))" in H.show(n[2], 5):
            done += 1
            blk = [a for a in anc if H.is_node(a) and H.kind(a) == "block"][-1]
            asg = [x for x in blk[2] if H.kind(x) == "semi" and H.kind(H.peel(x[2])) == "assign" and H.show(H.peel(x[2])[2], 3).endswith(".state")
                   and (H.path_of(H.peel(x[2])[3]) or "").endswith("WriteState::Ready")]
            chk.expect(len(asg) == 1, "async-state", "poll_write", f"writing-completion#{done}", "state = WriteState::Ready before returning Ok(consumed)", len(asg))
    chk.expect(done == 1, "async-state", "poll_write", "writing-completions", 1, done)
    # the cursor into self.buffer across partial writes: Ready arm writes buffer[written..], Writing(pos, _) arm writes buffer[pos + written..];
    # `written += n` after each partial write; done when the cursor reaches buffer.len(); a Pending exit stores the cursor reached so far
    rarm = arms[tab["Ready"][0]][2]

    def cursor_facts(arm):
        slices = sorted(H.show(y[3], 5).replace("core::ops::range::", "") for y in H.walk(arm) if H.kind(y) == "index" and "RangeFrom" in H.show(y[3], 3) and "buffer" in H.show(y[2], 4))
        adv = sorted(f"{H.show(y[3], 2)} {y[2]} {H.show(y[4], 2)}" for y in H.walk(arm) if H.kind(y) == "assignop")
        done_t = sorted(H.show(y[2], 6) for y in H.walk(arm) if H.kind(y) == "if" and "buffer.len()" in H.show(y[2], 6) and any(H.kind(z) == "ret" for z in H.walk(y[3])))
        stored = sorted(H.show(H.peel(y[3]), 5) for y in H.walk(arm) if H.kind(y) == "assign" and "WriteState::Writing" in H.show(y[3], 4))
        return {"slices": slices, "advance": adv, "done": done_t, "stored": [s.split("WriteState::")[-1] for s in stored]}
    got_r, got_w = cursor_facts(rarm), cursor_facts(warm)
    want_r = {"slices": ["RangeFrom{start: written}"], "advance": ["written AddAssign n"], "done": ["(written Eq this.buffer.len())"], "stored": ["Writing(written, consumed)"]}
    want_w = {"slices": ["RangeFrom{start: (pos Add written)}"], "advance": ["written AddAssign n"], "done": ["((written Add pos) Eq this.buffer.len())"], "stored": ["Writing((pos Add written), consumed)"]}
    chk.expect(got_r == want_r, "async-state", "poll_write", "cursor/Ready", want_r, got_r, loc=C.fn_loc(ha_w))
    chk.expect(got_w == want_w or got_w == dict(want_w, done=["((pos Add written) Eq this.buffer.len())"]), "async-state", "poll_write", "cursor/Writing", want_w, got_w, loc=C.fn_loc(ha_w))
    guards = [x for x in H.walk(ha_f["body"]) if H.kind(x) == "if" and "Writing(" in H.show(x[2], 6) and ".state" in H.show(x[2], 6) and any(H.kind(y) == "ret" and "Err" in H.show(y, 4) for y in H.walk(x[3]))]
    first_stmt_line = min(x[1] for x in guards) if guards else None
    chk.expect(len(guards) == 1 and all(first_stmt_line <= y[1] for c, y in H.calls(ha_f["body"]) if c == f"{PD}::setup_pdata_header"), "async-state", "finish_impl",
               "refuses-in-flight", "returns Err when state is Writing, before anything is sent", len(guards), loc=C.fn_loc(ha_f))
    chk.note("Observed while reading (not decidable by these rules): when a write fills the buffer exactly, the next write dispatches and returns Ok(0), "
             "which std::io::Write::write_all reports as WriteZero (DESIGN.md F14)")
    # reassembly runs read_pdu on whatever prefix the transport has delivered so far: every cut must come back as "incomplete"
    from . import shared
    shared.parser_availability(chk, fx, "reassembly-availability")
    shared.guard_tightness(chk, fx, "fragment-guards-exact")
    shared.send_pdata_plumbing(chk, fx, "writer-max-from-peer")
    chk.undecided.append("fragmentation/reassembly under arbitrary chunk sizes and transport schedules (needs execution or a model checker)")
