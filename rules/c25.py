"""C25 — PDUs are encoded and decoded losslessly with exact framing (structural clauses).

1. pdu-tables (SIB+TAB): PDU type bytes, item and user sub-item type bytes written by the writer, read by the reader
   and listed in refs/pdu.tsv (PS3.8 9.3) agree; reject / abort / presentation-context reason code tables of writer
   and reader are inverse of each other and equal to the reference; P-DATA header bits.
2. chunk-length (CAST): the two chunk writers convert the chunk length with a checked conversion that fails; no
   narrowing `as` cast of a length remains in the writer module.
3. pdu-budget (GUARD): every Buf getter in the reader module is dominated by a proof that enough bytes remain
   (lower-bound dataflow over the cursor, see rules/budget.py): no read past the declared PDU / item length, no panic.
4. prefix-incomplete: the three availability tests of read_pdu return Ok(None); the strict-mode length check and the
   max-length range check precede the body.
"""
import re

from . import facts, hirq as H, mirq as M, common as C, budget, guards as G

LEVEL_TEXT = ("Exhaustive over the PDU/item/sub-item type tables and reason-code tables (writer, reader, reference) and over every "
              "cursor read of the reader module (68 getter sites, each with a dominating availability proof). Decides table agreement "
              "and read-safety structure; byte-level round trips are not executed.")

PDU = "dicom_ul::pdu"
P = f"{PDU}::Pdu"


def first_write_u8(n):
    """first (by source line) `write_u8(<literal or *name>)` in a subtree: returns ('lit', v) | ('var', name) | None"""
    best = None
    for x in H.walk(n):
        if H.kind(x) == "mcall" and x[3] == "write_u8" and x[5]:
            a = H.peel(x[5][0])
            v = H.int_lit(a)
            item = ("lit", v) if v is not None else (("var", H.show(a, 2)) if H.kind(a) in ("path", "un") else None)
            if item and (best is None or x[1] < best[0]):
                best = (x[1], item)
    return best[1] if best else None


def constructed(n, enum_path):
    """variants of enum_path constructed in subtree"""
    out = []
    for x in H.walk(n):
        p = None
        if H.kind(x) == "struct":
            p = x[2]
        elif H.kind(x) == "call":
            p = H.callee(x)
        elif H.kind(x) == "path" and x[3].startswith("ctor"):
            p = x[2]
        if p and p.startswith(enum_path + "::"):
            v = p[len(enum_path) + 2:]
            if v not in out:
                out.append(v)
    return out


def lit_arms(m):
    """{literal: body} for a match with integer literal patterns (or-patterns flattened); '_' for the wildcard"""
    out = {}
    for p, g, b, ln in H.match_arms(m):
        for alt in H.pat_alts(p):
            hd = H.pat_head(alt)
            if hd[0] == "lit":
                out[int(hd[1])] = b
            elif hd[0] == "wild":
                out["_"] = b
    return out


def run(chk, tier):
    fx = facts.load("W")
    chk.analysed["facts"] = fx.meta
    ref = C.read_tsv("pdu.tsv")
    chk.assume("refs/pdu.tsv transcribes PS3.8 section 9.3 (PDU structure) and Annex E (message control header)")
    chk.assume("bytes::Buf getters panic iff fewer bytes remain than they take (documented); Bytes::copy_to_bytes(n) yields exactly n bytes")
    d = fx.crate("dicom_ul")
    hw = fx.hirfn(f"{PDU}::writer::write_pdu")
    hr = fx.hirfn(f"{PDU}::reader::read_pdu")
    hv = fx.hirfn(f"{PDU}::reader::read_pdu_variable")

    # ---------- rule 1a: PDU types
    chk.rule("pdu-tables", "type bytes / item types / reason codes: writer table == reader table == PS3.8 reference")
    mw = [m for m in H.matches_over(hw["body"], lambda t: t == P)]
    if len(mw) != 1:
        raise facts.MissingAnchor("write_pdu: match over Pdu")
    pvars = fx.variants(P)
    tab, arms = H.enum_table(mw[0], pvars, P)
    w_type = {v: (first_write_u8(arms[tab[v][0]][2]) if tab[v] else None) for v in pvars}
    mr = [m for m in H.walk(hr["body"]) if H.kind(m) == "match" and m[3] == "u8" and len(m[4]) >= 7]
    if len(mr) != 1:
        raise facts.MissingAnchor("read_pdu: match over pdu_type")
    r_arms = lit_arms(mr[0])
    r_type = {code: constructed(b, P) for code, b in r_arms.items()}
    for kind, code, std, var in ref:
        if kind != "pdu":
            continue
        c = int(code, 16)
        chk.expect(w_type.get(var) == ("lit", c), "pdu-tables", "write_pdu", f"{var}", f"0x{c:02X}", w_type.get(var), loc=C.fn_loc(hw))
        chk.expect(r_type.get(c) == [var], "pdu-tables", "read_pdu", f"0x{c:02X}", [var], r_type.get(c), loc=C.fn_loc(hr))
    known = {int(r[1], 16) for r in ref if r[0] == "pdu"}
    extra = sorted(k for k in r_type if k != "_" and k not in known)
    chk.expect(not extra, "pdu-tables", "read_pdu", "no-undefined-pdu-types", "only 01-07 have arms", extra)
    chk.expect(r_type.get("_") == ["Unknown"] and w_type.get("Unknown", ("", ""))[0] == "var", "pdu-tables", "read/write", "Unknown",
               "other types kept as Pdu::Unknown with their type byte", {"read": r_type.get("_"), "write": w_type.get("Unknown")})
    chk.sample({"rule": "pdu-tables", "writer_types": {k: v for k, v in w_type.items()}, "reader_types": {str(k): v for k, v in r_type.items()}})

    # ---------- rule 1b: item types (writer helper fns) vs reader
    PVI = f"{PDU}::PduVariableItem"
    UVI = f"{PDU}::UserVariableItem"
    mi = [m for m in H.walk(hv["body"]) if H.kind(m) == "match" and m[3] == "u8"]
    if len(mi) < 2:
        raise facts.MissingAnchor("read_pdu_variable: matches over item_type")
    top = max(mi, key=lambda m: len(H.show(m, 40)))
    top = [m for m in mi if m[1] == min(x[1] for x in mi)][0]
    r_items = {code: constructed(b, PVI) for code, b in lit_arms(top).items()}
    # the user sub-item match: the one whose arms construct UserVariableItem
    subs = [m for m in mi if any(constructed(b, UVI) for b in lit_arms(m).values())]
    r_user = {}
    for m in subs:
        for code, b in lit_arms(m).items():
            vs = constructed(b, UVI)
            if vs:
                r_user[code] = vs
    w_helpers = {"ApplicationContext": "write_pdu_variable_application_context_name", "PresentationContextProposed": "write_pdu_variable_presentation_context_proposed",
                 "PresentationContextResult": "write_pdu_variable_presentation_context_result", "UserVariables": "write_pdu_variable_user_variables"}
    for kind, code, std, var in ref:
        c = int(code, 16) if kind in ("item", "user", "subitem") else None
        if kind == "item":
            h = fx.hirfn(f"{PDU}::writer::{w_helpers[var]}")
            chk.expect(first_write_u8(h["body"]) == ("lit", c), "pdu-tables", w_helpers[var], "item-type", f"0x{c:02X}", first_write_u8(h["body"]), loc=C.fn_loc(h))
            got = r_items.get(c)
            chk.expect(got is not None and got[-1:] == [var] or got == [var], "pdu-tables", "read_pdu_variable", f"0x{c:02X}", [var], got, loc=C.fn_loc(hv))
    hu = fx.hirfn(f"{PDU}::writer::write_pdu_variable_user_variables")
    mu = H.matches_over(hu["body"], lambda t: t == UVI)
    if len(mu) != 1:
        raise facts.MissingAnchor("write_pdu_variable_user_variables: match over UserVariableItem")
    uvars = fx.variants(UVI)
    tabu, armsu = H.enum_table(mu[0], uvars, UVI)
    w_user = {v: (first_write_u8(armsu[tabu[v][0]][2]) if tabu[v] else None) for v in uvars}
    for kind, code, std, var in ref:
        if kind != "user":
            continue
        c = int(code, 16)
        chk.expect(w_user.get(var) == ("lit", c), "pdu-tables", "write_user_variables", var, f"0x{c:02X}", w_user.get(var), loc=C.fn_loc(hu))
        chk.expect(r_user.get(c) == [var], "pdu-tables", "read_pdu_variable", f"user:0x{c:02X}", [var], r_user.get(c), loc=C.fn_loc(hv))
    # every variant the writer knows is known to the reference (a new sub-item needs a reference row)
    for v, t in w_user.items():
        if v == "Unknown":
            continue
        refs_for = [r for r in ref if r[0] == "user" and r[3] == v]
        chk.expect(len(refs_for) == 1, "pdu-tables", "UserVariableItem", f"{v}-has-reference-row", "one row in refs/pdu.tsv", len(refs_for))
    # abstract / transfer syntax sub-items 30 / 40 inside presentation contexts
    for fn, lits in (("write_pdu_variable_presentation_context_proposed", {0x20, 0x30, 0x40}), ("write_pdu_variable_presentation_context_result", {0x21, 0x40})):
        h = fx.hirfn(f"{PDU}::writer::{fn}")
        got = {H.int_lit(x[5][0]) for x in H.walk(h["body"]) if H.kind(x) == "mcall" and x[3] == "write_u8" and x[5] and H.int_lit(x[5][0]) not in (None, 0)}
        got = {g for g in got if g >= 0x10}
        chk.expect(got == lits, "pdu-tables", fn, "sub-item-types", sorted(hex(x) for x in lits), sorted(hex(x) for x in got), loc=C.fn_loc(h))
    inner = [m for m in mi if m not in subs and m is not top]
    inner_codes = sorted({c for m in inner for c in lit_arms(m) if c != "_"})
    chk.expect(set(inner_codes) >= {0x30, 0x40}, "pdu-tables", "read_pdu_variable", "sub-item-types", ["0x30", "0x40"], [hex(c) for c in inner_codes])

    # ---------- rule 1c: reason code tables
    def reader_pairs(fn_path):
        h = fx.hirfn(fn_path)
        ms = [m for m in H.walk(h["body"]) if H.kind(m) == "match"]
        out = {}
        for p, g, b, ln in H.match_arms(ms[0]):
            if g is not None:
                continue
            alt = H.pat_alts(p)[0]
            key = None
            if alt[0] == "ptuple":
                parts = []
                for q in alt[1]:
                    hd = H.pat_head(q)
                    parts.append(hd[1] if hd[0] == "lit" else "*")
                key = ",".join(parts)
            else:
                hd = H.pat_head(alt)
                key = hd[1] if hd[0] == "lit" else None
            if key is None or key.replace("*", "").replace(",", "") == "":
                continue
            chain = []
            for x in H.walk(b):
                pth = None
                if H.kind(x) == "call":
                    pth = H.callee(x)
                elif H.kind(x) == "path" and x[3].startswith("ctor"):
                    pth = x[2]
                if pth and pth.startswith(PDU + "::") and pth.count("::") >= 3 and chain[-1:] != [pth.split("::")[-1]]:
                    chain.append(pth.split("::")[-1])
            if chain and "Reserved" not in chain:
                out[key] = "/".join(chain)
        return out, h

    tables = {
        "rj_result": reader_pairs(f"{PDU}::AssociationRJResult::from"),
        "rj_source": reader_pairs(f"{PDU}::AssociationRJSource::from"),
        "abort": reader_pairs(f"{PDU}::AbortRQSource::from"),
        "pc_reason": reader_pairs(f"{PDU}::PresentationContextResultReason::from"),
    }
    for kind, code, std, var in ref:
        if kind in tables:
            got = tables[kind][0].get(code)
            chk.expect(got == var, "pdu-tables", f"reader:{kind}", code, var, got, loc=C.fn_loc(tables[kind][1]))
    # the whole (source, reason) code space of A-ASSOCIATE-RJ, evaluated arm by arm (literals, ranges, bindings with guards):
    # named codes -> their variant, reserved codes -> Reserved(code), everything else -> None
    def eval_guard(g, env):
        g = H.peel(g)
        k = H.kind(g)
        if k == "bin":
            op = g[2]
            if op in ("Or", "And"):
                a, b = eval_guard(g[3], env), eval_guard(g[4], env)
                return (a or b) if op == "Or" else (a and b)
            a, b = eval_guard(g[3], env), eval_guard(g[4], env)
            return {"Eq": a == b, "Ne": a != b, "Lt": a < b, "Le": a <= b, "Gt": a > b, "Ge": a >= b}[op]
        if k == "path":
            return env[H.path_of(g)]
        if k == "lit":
            return int(g[2][1])
        if k == "un" and g[2] == "Not":
            return not eval_guard(g[3], env)
        raise facts.MissingAnchor("AssociationRJSource::from: guard shape " + H.show(g, 4))

    def pat_int(p, val, env):
        k = p[0]
        if k == "pwild":
            return True
        if k == "plit":
            return int(p[1][1]) == val
        if k == "pbind":
            env[p[1]] = val
            return True if p[3] is None else pat_int(p[3], val, env)
        if k == "prange":
            lo = int(p[1][1][1]) if p[1] else 0
            hi = int(p[2][1][1]) if p[2] else 255
            return lo <= val <= hi if p[3] == "Included" else lo <= val < hi
        if k == "por":
            return any(pat_int(q, val, env) for q in p[1])
        raise facts.MissingAnchor("AssociationRJSource::from: pattern kind " + k)

    hsrc = fx.hirfn(f"{PDU}::AssociationRJSource::from")
    msrc = [m for m in H.walk(hsrc["body"]) if H.kind(m) == "match"][0]
    want_named = {tuple(int(x) for x in code.split(",")): var for kind, code, std, var in ref if kind == "rj_source"}
    want_res = {(int(code), int(r)) for kind, code, std, var in ref if kind == "rj_reserved" for r in std.split(",")}
    bad_codes = []
    n_codes = 0
    for s in range(0, 5):
        for r in range(0, 256):
            n_codes += 1
            got = None
            for p, g, b, ln in H.match_arms(msrc):
                env = {}
                alt = H.pat_alts(p)[0]
                if alt[0] == "ptuple":
                    ok = pat_int(alt[1][0], s, env) and pat_int(alt[1][1], r, env)
                else:
                    ok = alt[0] == "pwild"
                if ok and g is not None:
                    ok = bool(eval_guard(g, env))
                if ok:
                    chain = []
                    for x in H.walk(b):
                        pth = H.callee(x) if H.kind(x) == "call" else (x[2] if H.kind(x) == "path" and str(x[3]).startswith("ctor") else None)
                        if pth and pth.startswith(PDU + "::") and pth.count("::") >= 3 and chain[-1:] != [pth.split("::")[-1]]:
                            chain.append(pth.split("::")[-1])
                    got = "/".join(chain) if chain and not any(H.kind(x) == "ret" for x in H.walk(b)) else None
                    break
            exp = want_named.get((s, r)) or (None)
            if (s, r) in want_res:
                src_name = {1: "ServiceUser", 3: "ServiceProviderPresentation"}[s]
                exp = f"{src_name}/Reserved"
            if got != exp:
                bad_codes.append(((s, r), exp, got))
    chk.expect(not bad_codes, "pdu-tables", "reader:rj_source", "whole-code-space", "named -> variant, reserved -> Reserved(code), else None for all 5 x 256 (source, reason) pairs", bad_codes[:6], loc=C.fn_loc(hsrc))
    chk.analysed["rj_code_space"] = n_codes

    # writer side: literal tables per enum
    def writer_codes(enum_path):
        out = {}
        for h in d["hir"]:
            if not h["path"].startswith(f"{PDU}::writer::"):
                continue
            for m in H.matches_over(h["body"], lambda t: t == enum_path):
                for p, g, b, ln in H.match_arms(m):
                    for alt in H.pat_alts(p):
                        hd = H.pat_head(alt)
                        if hd[0] != "variant":
                            continue
                        v = hd[1].split("::")[-1]
                        bb = H.peel(b)
                        if H.int_lit(bb) is not None:
                            out[v] = H.int_lit(bb)
                        elif H.kind(bb) == "array":
                            out[v] = tuple(H.int_lit(e) for e in bb[2])
                        elif H.kind(bb) == "repeat":
                            out[v] = (H.int_lit(bb[2]),) * (C.array_len(bb[3]) or 0)
                        else:
                            fw = first_write_u8(b)
                            if fw and fw[0] == "lit":
                                out[v] = ("source", fw[1])
        return out

    w_res = writer_codes(f"{PDU}::AssociationRJResult")
    w_src = writer_codes(f"{PDU}::AssociationRJSource")
    w_user_r = writer_codes(f"{PDU}::AssociationRJServiceUserReason")
    w_asce = writer_codes(f"{PDU}::AssociationRJServiceProviderASCEReason")
    w_pres = writer_codes(f"{PDU}::AssociationRJServiceProviderPresentationReason")
    w_abort = writer_codes(f"{PDU}::AbortRQSource")
    w_abort_r = writer_codes(f"{PDU}::AbortRQServiceProviderReason")
    w_pc = writer_codes(f"{PDU}::PresentationContextResultReason")
    chk.sample({"rule": "pdu-tables", "writer_codes": {"rj_result": w_res, "rj_source": {k: str(v) for k, v in w_src.items()}, "abort": {k: str(v) for k, v in w_abort_r.items()}, "pc_reason": w_pc}})
    sub = {"ServiceUser": w_user_r, "ServiceProviderASCE": w_asce, "ServiceProviderPresentation": w_pres}
    for kind, code, std, var in ref:
        if kind == "rj_result":
            chk.expect(w_res.get(var) == int(code), "pdu-tables", "writer:rj_result", var, int(code), w_res.get(var))
        elif kind == "pc_reason":
            chk.expect(w_pc.get(var) == int(code), "pdu-tables", "writer:pc_reason", var, int(code), w_pc.get(var))
        elif kind == "rj_source":
            s, r = code.split(",")
            src, reason = var.split("/")
            got = (w_src.get(src), sub[src].get(reason))
            chk.expect(got == (("source", int(s)), int(r)), "pdu-tables", "writer:rj_source", var, f"({s},{r})", got)
        elif kind == "abort":
            s, r = code.split(",")
            if "/" in var:
                src, reason = var.split("/")
                got = w_abort_r.get(reason)
                chk.expect(got == (int(s), int(r)), "pdu-tables", "writer:abort", var, f"[{s},{r}]", got)
            else:
                got = w_abort.get(var)
                chk.expect(got is not None and got[0] == int(s), "pdu-tables", "writer:abort", var, f"[{s},_]", got)
    # P-DATA header bits
    pd_w = arms[tab["PData"][0]][2]
    bits_w = sorted({H.int_lit(x[4]) for x in H.walk(pd_w) if H.kind(x) == "assignop" and x[2] in ("BitOr", "BitOrAssign") and H.int_lit(x[4]) is not None})
    pd_r = r_arms.get(4)
    bits_r = sorted({H.int_lit(H.peel(x)[4]) for x in H.walk(pd_r) if H.kind(H.peel(x)) == "bin" and H.peel(x)[2] == "BitAnd" and H.int_lit(H.peel(x)[4]) is not None}) if pd_r is not None else []
    chk.expect(bits_w == [1, 2] and bits_r == [1, 2], "pdu-tables", "P-DATA", "message-control-header-bits", "0x01 command, 0x02 last (both sides)", {"writer": bits_w, "reader": bits_r})
    # ... and each reader test is "bit set": (header & m) > 0 / != 0 / == m, with the set branch meaning Command / last; the writer sets
    # bit 1 under `Command` and bit 2 under `is_last`
    tests = []
    for x in H.walk(pd_r) if pd_r is not None else []:
        if H.kind(x) == "bin" and x[2] in ("Gt", "Ge", "Lt", "Le", "Eq", "Ne"):
            l = H.peel(x[3])
            if H.kind(l) == "bin" and l[2] == "BitAnd" and H.int_lit(l[4]) in (1, 2):
                m_ = H.int_lit(l[4])
                rhs = H.int_lit(x[4])
                tests.append((m_, x[2], rhs, (x[2], rhs) in (("Gt", 0), ("Ne", 0), ("Eq", m_), ("Ge", m_))))
    chk.expect(sorted(t[0] for t in tests) == [1, 2] and all(t[3] for t in tests), "pdu-tables", "P-DATA", "reader-tests-bit-set", "(header & 1) > 0 -> Command; (header & 2) > 0 -> last",
               [t[:3] for t in tests])
    cmd_if = [x for x in H.walk(pd_r) if H.kind(x) == "if" and "BitAnd 1" in H.show(x[2], 5)] if pd_r is not None else []
    chk.expect(len(cmd_if) == 1 and H.show(cmd_if[0][3], 4).endswith("PDataValueType::Command}") or (len(cmd_if) == 1 and "Command" in H.show(cmd_if[0][3], 4) and "Data" in H.show(cmd_if[0][4], 4)),
               "pdu-tables", "P-DATA", "bit-1-set-means-command", "if (header & 1) set { Command } else { Data }", [H.show(x, 5)[:120] for x in cmd_if])

    # ---------- rule 1d: framing — the length-prefixed chunk encloses the whole content of its item
    chk.rule("item-framing", "in every block of the writer module, no byte is written after a write_chunk_uN call at the same level: an item is "
             "type byte, reserved byte, then one length-prefixed chunk that contains all of its content (so every length field covers what it describes)")
    WRITE_NAMES = {"write_u8", "write_u16", "write_u32", "write_u64", "write_all", "push", "extend", "extend_from_slice", "write"}

    def stmt_event(e):
        """outermost write event of a statement expression: 'C' chunk call, 'W' direct write, None otherwise (nested blocks are separate)"""
        e = H.peel(e)
        while True:
            if H.kind(e) == "match" and e[5].startswith("TryDesugar"):
                op = H.peel(e[2])
                e = H.peel(op[3][0]) if H.kind(op) == "call" and op[3] else op
                continue
            if H.kind(e) == "mcall" and e[3] in ("context", "with_context", "map_err"):
                e = H.peel(e[4])
                continue
            break
        if H.kind(e) == "call" and (H.callee(e) or "").split("::")[-1] in ("write_chunk_u16", "write_chunk_u32"):
            return "C"
        if H.kind(e) == "mcall" and e[3] in WRITE_NAMES:
            if e[3] == "write_u8" and e[5] and H.int_lit(e[5][0]) == 0:
                return "R"   # reserved byte
            if e[3] == "write_u8":
                return "T"   # a single byte: item type (or a one-byte field)
            return "W"
        return None

    n_blocks = 0
    for h in d["hir"]:
        if not h["path"].startswith(f"{PDU}::writer::") or h["path"].split("::")[-1] in ("write_chunk_u16", "write_chunk_u32", "chunk_too_long"):
            continue
        for blk in H.walk(h["body"]):
            if H.kind(blk) != "block":
                continue
            evs = []
            for s in blk[2]:
                ev = stmt_event(s[2] if H.kind(s) in ("semi", "sexpr") else (s[3] if H.kind(s) == "slet" and s[3] is not None else s))
                if ev:
                    evs.append((ev, s[1]))
            if blk[3] is not None:
                ev = stmt_event(blk[3])
                if ev:
                    evs.append((ev, blk[3][1]))
            if not any(e == "C" for e, _ in evs):
                continue
            n_blocks += 1
            # item-level chunks: `type byte, reserved byte, chunk`; nested length-prefixed *fields* (a chunk not introduced by T,R) may be followed by more fields
            kinds = [e for e, _ in evs]
            item_c = [i for i in range(2, len(evs)) if kinds[i] == "C" and kinds[i - 1] == "R" and kinds[i - 2] == "T"]
            if not item_c:
                continue
            first_c = item_c[0]
            rest = kinds[first_c + 1:]
            # after an item chunk only further complete items (T R C) may follow
            ok_tail = len(rest) % 3 == 0 and all(rest[j:j + 3] == ["T", "R", "C"] for j in range(0, len(rest), 3))
            after = [] if ok_tail else [(e, ln) for e, ln in evs[first_c + 1:]]
            chk.expect(not after, "item-framing", h["path"].split("::")[-1], f"block@chunk#{n_blocks}", "no direct write after the chunk at the same level",
                       f"writes at lines {[ln for _, ln in after]} follow the chunk" if after else "ok", loc=f"{h['loc']['f']}:{evs[first_c][1]}")
    chk.floor("item-framing", "blocks containing a length-prefixed chunk", n_blocks, 15)

    # ---------- rule 2
    chk.rule("chunk-length", "write_chunk_u16/u32 use a checked conversion of data.len() whose failure is returned; no narrowing integer cast of a length in the writer module")
    for fn, ty in (("write_chunk_u16", "u16"), ("write_chunk_u32", "u32")):
        fs = [f for f in d["fns"] if fx.strip_generics(f["path"]) == f"{PDU}::writer::{fn}"]
        if len(fs) != 1:
            raise facts.MissingAnchor(f"{fn}: MIR body")
        f = fs[0]
        casts = [(s["r"]["from"], s["r"]["to"]) for bb, j, s in G.narrowing_casts(f, to_types=("u8", "u16", "u32"))]
        tf = [t for bb, t in M.calls(f) if (M.callee_decl(t) or "").endswith("TryFrom::try_from") and ty in " ".join(t["fn"].get("ga", []))]
        chk.expect(not casts and len(tf) == 1, "chunk-length", fn, "checked-conversion", f"{ty}::try_from(data.len()), no `as` cast", {"casts": casts, "try_from": len(tf)}, loc=C.fn_loc(f))
    n_w = 0
    for f in d["fns"]:
        if not f["path"].startswith(f"{PDU}::writer::"):
            continue
        n_w += 1
        for bb, j, s in G.narrowing_casts(f, to_types=("u8", "u16", "u32"), from_types=("usize", "u64")):
            src = M.origin(f, s["r"]["o"])
            lenlike = src[0] == "call" and str(src[1]).endswith("::len")
            chk.expect(not lenlike, "chunk-length", f["path"].split("writer::")[-1][:60], f"cast-of-len@{s['l']}", "no `len() as uN`", f"{s['r']['from']} as {s['r']['to']} of {src[1] if len(src) > 1 else src}",
                       loc=f"{f['loc']['f']}:{s['l']}")
    chk.floor("chunk-length", "writer bodies inspected", n_w, 20)

    # ---------- rule 3
    chk.rule("pdu-budget", "every Buf getter / advance / copy_to_bytes in pdu::reader is preceded on every path by a proof that the cursor holds enough bytes")
    n_sites = 0
    for h in d["hir"]:
        if not h["path"].startswith(f"{PDU}::reader::"):
            continue
        short = h["path"].split("::")[-1]
        b = budget.analyse(h, short)
        ordn = {}
        for s in b.sites:
            n_sites += 1
            k = (s.cursor, s.op)
            ordn[k] = ordn.get(k, 0) + 1
            chk.expect(s.ok, "pdu-budget", short, f"{s.cursor}.{s.op}#{ordn[k]}", f"remaining() >= {s.need} proven", f"proven lower bound {s.bound}",
                       loc=f"{h['loc']['f']}:{s.line}")
    chk.floor("pdu-budget", "cursor read sites in pdu::reader", n_sites, 60)
    chk.analysed["budget_sites"] = n_sites
    from . import shared
    shared.guard_tightness(chk, fx, "guards-exact")
    # no other panicking externals in the reader (MIR inventory)
    for f in d["fns"]:
        if not f["path"].startswith(f"{PDU}::reader::"):
            continue
        hits = []
        for i, blk in enumerate(f["blocks"]):
            if blk.get("cleanup"):
                continue
            t = blk["t"]
            if t["t"] == "call":
                k = C.panic_callee(M.callee(t), M.callee_decl(t))
                if k and k != "buf":
                    hits.append(f"{k}@{t['l']}")
            elif t["t"] == "assert" and not t["msg"].startswith(("Overflow", "Resumed")):
                hits.append(f"assert:{t['msg']}@{t['l']}")
        short = f["path"].split("reader::")[-1][:50]
        if short == "read_pdu":
            # constant index into the Bytes returned by copy_to_bytes(N) with N > index (type byte `bytes[0]`): discharged from the HIR
            idx = []
            for x in H.walk(hr["body"]):
                if H.kind(x) == "index" and H.int_lit(x[3]) is not None and H.path_of(x[2]) is not None:
                    nm = H.path_of(x[2])
                    mk = [y for y in H.walk(hr["body"]) if H.kind(y) == "slet" and H.pat_bindings(y[2]) == [nm] and y[1] <= x[1]
                          and H.kind(H.peel(y[3])) == "mcall" and H.peel(y[3])[3] == "copy_to_bytes" and H.int_lit(H.peel(y[3])[5][0]) is not None]
                    if mk and H.int_lit(H.peel(mk[-1][3])[5][0]) > H.int_lit(x[3]):
                        idx.append(x[1])
            hits = [x for x in hits if not (x.startswith(("assert:BoundsCheck@", "index@")) and int(x.split("@")[1]) in idx)]
        chk.expect(not hits, "pdu-budget", short, "other-panic-sites", "none besides the guarded Buf getters", hits, loc=C.fn_loc(f))

    # ---------- rule 4
    chk.rule("prefix-incomplete", "read_pdu: max-length range check first; `remaining() < 2`, `< 4`, `< pdu_length` each return Ok(None); strict length check precedes the body")
    body = H.peel(hr["body"])
    stmts = body[2] if H.kind(body) == "block" else []
    seq = []
    for s in stmts:
        e = s[2] if H.kind(s) in ("semi", "sexpr") else (s[3] if H.kind(s) == "slet" else s)
        e0 = H.peel(e)
        txt = H.show(e0, 7)
        if H.kind(e0) == "if" and "remaining()" in txt and H.kind(e0[2]) is not None:
            returns_none = any(H.kind(x) == "ret" and "Ok(core::option::Option::None)" in H.show(x, 5).replace("core::result::Result::", "") for x in H.walk(e0[3]))
            m = re.search(r"remaining\(\) Lt \(?([\w ]+)\)?", txt)
            seq.append(("avail", m.group(1).strip() if m else "?", returns_none, s[1]))
        elif H.kind(e0) == "if" and "InvalidMaxPdu" in txt:
            seq.append(("max-range", None, None, s[1]))
        elif H.kind(e0) == "if" and "PduTooLarge" in txt:
            # the comparison must be exactly `pdu_length <= max_pdu_length` (both plain locals: the length field excludes the 6-byte header already)
            exact = any(H.kind(x) == "bin" and x[2] == "Le" and H.kind(H.peel(x[3])) == "path" and H.path_of(H.peel(x[3])) == "pdu_length"
                        and H.kind(H.peel(x[4])) == "path" and H.path_of(H.peel(x[4])) == "max_pdu_length" for x in H.walk(e0[2]))
            seq.append(("strict", "strict" in txt and exact, None, s[1]))
        elif "match" in txt and H.kind(e0) == "match" and e0[3] == "u8":
            seq.append(("body", None, None, s[1]))
    tail = H.peel(body[3]) if H.kind(body) == "block" and body[3] is not None else None
    if tail is not None and H.kind(tail) == "match" and tail[3] == "u8":
        seq.append(("body", None, None, tail[1]))
    kinds = [x[0] for x in seq]
    chk.expect(kinds[:1] == ["max-range"], "prefix-incomplete", "read_pdu", "max-length-range-check-first", "ensure!((MIN..=MAX).contains(&max_pdu_length)) first", kinds[:2])
    av = [x for x in seq if x[0] == "avail"]
    chk.expect(len(av) == 3 and all(x[2] for x in av) and av[0][1] == "2" and av[1][1] == "4" and "pdu_length" in av[2][1], "prefix-incomplete", "read_pdu", "three-availability-tests",
               "remaining() < 2 / < 4 / < pdu_length, each `return Ok(None)`", [(x[1], x[2]) for x in av], loc=C.fn_loc(hr))
    st = [x for x in seq if x[0] == "strict"]
    bd = [x for x in seq if x[0] == "body"]
    chk.expect(len(st) == 1 and st[0][1] and bd and st[0][3] < bd[0][3] and st[0][3] < av[-1][3] if av else False, "prefix-incomplete", "read_pdu", "strict-check-before-body",
               "ensure!(!strict || pdu_length <= max_pdu_length) before the length-availability test and the body", [(x[0], x[3]) for x in seq])
    chk.undecided.append("value round trip of executed encode/decode; every-prefix behaviour on concrete bytes; text decoding of AE titles (trusted codec)")
