"""C14 — tags, keywords and attribute selectors have a lossless text syntax (structural clauses).

1. tag-forms (TAB): Tag::from_str dispatches on the byte length {11, 9, 8} to the three documented forms, any other length is
   an error; each form checks its delimiters before slicing; parse_tag_part accepts exactly 4 ASCII hex digits.
2. str-boundary (GUARD): every `str` slice / split in Tag::from_str, parse_tag_part and DataDictionary::parse_selector is
   preceded by a proof that the cut is on a character boundary (is_char_boundary(k), or starts_with/find/ends_with of an
   ASCII delimiter), so arbitrary text is rejected with an error and never panics.
3. print-parse (SIB): the templates printed by Display for Tag / AttributeSelectorStep / AttributeSelector (compared with
   compiler-lowered reference templates) use exactly the delimiters `(` `,` `)` `[` `]` `.` that the parsers consume;
   keyword lookup goes tag.parse() -> by_name(..).tag().
"""
import json
import re

from . import facts, hirq as H, common as C

LEVEL_TEXT = ("All slicing sites of the three parsers are enumerated and each is matched with a dominating boundary proof; the dispatch "
              "table over text lengths is total; printer templates are compared with compiled reference templates. Decides the parse "
              "structure and panic-freedom of the slicing, not the round trip over all selectors.")

TAG = "dicom_core::header::Tag"


def fmt_signature(body):
    s = json.dumps(body)
    return (re.findall(r'\["bstr", "(?:[^"\\]|\\.)*", "([0-9a-f]+)"\]', s), re.findall(r"Argument::<'_>::(new_\w+)", s))


def ensure_facts(body):
    """facts proven by `ensure!(cond, ..)` / `if !cond { return Err }` statements, with their line:
       ('boundary', base, k) | ('starts_with', base, ch) | ('eq', base, text)"""
    out = []
    for x in H.walk(body):
        if H.kind(x) != "if":
            continue
        c = H.peel(x[2])
        if not (H.kind(c) == "un" and c[2] == "Not"):
            continue
        if not any(H.kind(y) == "ret" for y in H.walk(x[3])):
            continue
        inner = H.peel(c[3])
        if H.kind(inner) == "mcall" and inner[3] == "is_char_boundary":
            out.append(("boundary", H.path_of(inner[4]), H.int_lit(inner[5][0]), x[1]))
        elif H.kind(inner) == "mcall" and inner[3] == "starts_with":
            l = H.lit(inner[5][0])
            if l and l[0] == "char" and len(l[1].encode()) == 1:
                out.append(("starts_with", H.path_of(inner[4]), l[1], x[1]))
        elif H.kind(inner) == "bin" and inner[2] == "Eq":
            l = H.lit(inner[4])
            if l and l[0] == "str":
                out.append(("eq", H.path_of(inner[3]), l[1], x[1]))
    return out


def str_sites(body):
    """str slicing / splitting sites: (kind, base, detail, line)"""
    out = []
    for x in H.walk(body):
        if H.kind(x) == "index" and x[4].lstrip("&").strip() == "str":
            idx = H.peel(x[3])
            base = H.path_of(x[2])
            if H.kind(idx) == "struct":
                nm = idx[2].split("::")[-1]
                fields = {f[0]: f[1] for f in idx[4]}
                out.append(("slice:" + nm, base, {k: H.show(v, 5) for k, v in fields.items()}, x[1]))
            else:
                out.append(("slice:?", base, H.show(idx, 4), x[1]))
        if H.kind(x) == "mcall" and x[3] in ("split_at", "split_at_mut") and (H.callee(x) or "").startswith("core::str::"):
            out.append(("split_at", H.path_of(x[4]), H.int_lit(x[5][0]), x[1]))
    return out


def str_boundary(fx):
    """boundary proofs for every str slice / split_at of the three text parsers; list of dict(fn, path, inst, line, ok, want, why, loc)"""
    h = fx.hirfn(f"<{TAG} as core::str::traits::FromStr>::from_str")
    hp = fx.hirfn("dicom_core::header::parse_tag_part")
    hs = fx.hirfn("dicom_core::dictionary::data_element::DataDictionary::parse_selector")
    out = []
    for name, hh in (("Tag::from_str", h), ("parse_tag_part", hp)):
        fs = ensure_facts(hh["body"])
        for i, (kind, base, detail, line) in enumerate(str_sites(hh["body"])):
            ok = False
            why = "no dominating proof"
            if kind == "split_at":
                ok = any(f[0] == "boundary" and f[1] == base and f[2] == detail and f[3] <= line for f in fs)
                why = f"is_char_boundary({detail}) on `{base}`" if ok else f"no is_char_boundary({detail}) on `{base}` before the split"
            elif kind == "slice:RangeFrom" and detail.get("start") == "1":
                ok = any(f[0] == "starts_with" and f[1] == base and f[3] <= line for f in fs)
                why = "starts_with(<ASCII char>) on the same string" if ok else "no starts_with(<ASCII char>) check before `&s[1..]`"
            out.append({"fn": name, "path": hh["path"], "inst": f"{kind}#{i}", "line": line, "ok": ok, "want": "boundary proof before the cut", "why": why, "loc": f"{hh['loc']['f']}:{line}"})
    sites = str_sites(hs["body"])
    for i, (kind, base, detail, line) in enumerate(sites):
        # the two cuts are at `split_i` (= part.find('[')) and at part.len()-1 under `part.ends_with(']')`
        txt = json.dumps(detail)
        uses_find = "split_i" in txt
        uses_end = "part.len() Sub 1" in txt or "end" not in detail

        def char_call(n, name, ch):
            return any(H.kind(y) == "mcall" and y[3] == name and H.path_of(y[4]) == "part" and y[5] and H.lit(y[5][0]) == ("char", ch) for y in H.walk(n))
        find_ok = any(H.kind(x) == "slet" and H.pat_bindings(x[2]) == ["split_i"] and x[3] is not None and char_call(x[3], "find", "[") and x[1] <= line for x in H.walk(hs["body"]))
        guard_ok = any(H.kind(x) == "if" and char_call(x[2], "ends_with", "]") and any(y[1] == line for y in H.walk(x[3]) if H.kind(y) == "index") for x in H.walk(hs["body"]))
        ok = base == "part" and uses_find and find_ok and guard_ok
        out.append({"fn": "parse_selector", "path": hs["path"], "inst": f"{kind}#{i}", "line": line, "ok": ok, "want": "cuts only at find('[') and, under ends_with(']'), at len-1 (ASCII delimiters)",
                    "why": {"detail": detail, "find": find_ok, "guard": guard_ok}, "loc": f"{hs['loc']['f']}:{line}"})
    return out


def run(chk, tier):
    fx = facts.load("W")
    chk.analysed["facts"] = fx.meta
    chk.assume("str::starts_with(c)/find(c)/ends_with(c) of a one-byte ASCII char locate char boundaries; is_char_boundary is exact")

    # ---------- rule 1
    chk.rule("tag-forms", "Tag::from_str: len 11 -> (gggg,eeee), 9 -> gggg,eeee, 8 -> ggggeeee, else Length error; delimiters checked; parse_tag_part = 4 ASCII hex digits")
    h = fx.hirfn(f"<{TAG} as core::str::traits::FromStr>::from_str")
    ms = [m for m in H.walk(h["body"]) if H.kind(m) == "match" and m[3] == "usize" and "len()" in H.show(m[2], 3)]
    if len(ms) != 1:
        raise facts.MissingAnchor("Tag::from_str: match over s.len()")
    arms = {}
    for p, g, b, ln in H.match_arms(ms[0]):
        for alt in H.pat_alts(p):
            hd = H.pat_head(alt)
            arms[int(hd[1]) if hd[0] == "lit" else "_"] = b
    chk.expect(sorted(k for k in arms if k != "_") == [8, 9, 11], "tag-forms", "Tag::from_str", "lengths", [8, 9, 11], sorted(str(k) for k in arms), loc=C.fn_loc(h))
    w = arms.get("_")
    chk.expect(w is not None and "ParseTagError::Length" in H.show(w, 5) and "Err" in H.show(w, 5), "tag-forms", "Tag::from_str", "other-lengths", "Err(ParseTagError::Length)", H.show(w, 5) if w is not None else None)
    want = {11: (["(", ","], [")"], 2), 9: ([","], [], 2), 8: ([], [], 2)}
    for k, (starts, eqs, nparts) in want.items():
        b = arms.get(k)
        if b is None:
            continue
        fs = ensure_facts(b)
        got_starts = [f[2] for f in fs if f[0] == "starts_with"]
        got_eq = [f[2] for f in fs if f[0] == "eq"]
        parts = [x for c, x in H.calls(b) if c == "dicom_core::header::parse_tag_part"]
        ctor = [x for x in H.walk(b) if H.kind(x) == "call" and (H.callee(x) or "") == TAG and [H.path_of(a) for a in x[3]] == ["num_g", "num_e"]]
        chk.expect(got_starts == starts and got_eq == eqs and len(parts) == nparts and len(ctor) == 1, "tag-forms", "Tag::from_str", f"form-{k}",
                   {"starts_with": starts, "equals": eqs, "hex parts": nparts, "result": "Tag(num_g, num_e)"}, {"starts_with": got_starts, "equals": got_eq, "hex parts": len(parts), "ctor": len(ctor)},
                   loc=C.fn_loc(h))
    hp = fx.hirfn("dicom_core::header::parse_tag_part")
    fs = ensure_facts(hp["body"])
    hexchk = [x for x in H.walk(hp["body"]) if H.kind(x) == "if" and "is_ascii_hexdigit" in H.show(x[2], 8) and ".all(" in H.show(x[2], 8) and any(H.kind(y) == "ret" for y in H.walk(x[3]))]
    radix = [x for c, x in H.calls(hp["body"]) if c and c.endswith("from_str_radix")]
    ok = len(hexchk) == 1 and len(radix) == 1 and H.int_lit(radix[0][3][1]) == 16 and hexchk[0][1] < radix[0][1]
    chk.expect(ok, "tag-forms", "parse_tag_part", "four-hex-digits", "all chars ascii hex digits (checked) before u16::from_str_radix(num, 16)", {"hex-check": len(hexchk), "radix": len(radix)}, loc=C.fn_loc(hp))
    sp = [s for s in str_sites(hp["body"]) if s[0] == "split_at"]
    chk.expect(len(sp) == 1 and sp[0][2] == 4, "tag-forms", "parse_tag_part", "split-at-4", "split_at(4)", sp)

    # ---------- rule 2
    chk.rule("str-boundary", "each str slice/split is preceded (same function, earlier line) by a boundary proof for that cut")
    hs = fx.hirfn("dicom_core::dictionary::data_element::DataDictionary::parse_selector")
    res = str_boundary(fx)
    for r in res:
        chk.expect(r["ok"], "str-boundary", r["fn"], r["inst"], r["want"], r["why"], loc=r["loc"])
    chk.floor("str-boundary", "str slicing sites", len(res), 6)

    # ---------- rule 3
    chk.rule("print-parse", "printer templates: Tag `({:04X},{:04X})`, step `{tag}[{item}]`, selector steps joined by '.'; parsers consume the same delimiters; keyword via by_name")
    refs = facts.fixture("fmtref")
    hd = fx.hirfn(f"<{TAG} as core::fmt::Display>::fmt")
    chk.expect(fmt_signature(hd["body"]) == fmt_signature(refs["fmtref::tag_paren"]["body"]), "print-parse", "Display for Tag", "template", "({:04X},{:04X})",
               fmt_signature(hd["body"]), loc=C.fn_loc(hd))
    order = [x[3] for x in H.walk(hd["body"]) if H.kind(x) == "field" and H.path_of(x[2]) == "self"]
    chk.expect(order[:2] == ["0", "1"], "print-parse", "Display for Tag", "group-then-element", ["0", "1"], order[:2])
    hst = fx.hirfn("<dicom_core::ops::AttributeSelectorStep as core::fmt::Display>::fmt")
    chk.expect(fmt_signature(hst["body"]) == fmt_signature(refs["fmtref::selector_nested"]["body"]), "print-parse", "Display for AttributeSelectorStep", "template", "{tag}[{item}]",
               fmt_signature(hst["body"]), loc=C.fn_loc(hst))
    hsel = fx.hirfn("<dicom_core::ops::AttributeSelector as core::fmt::Display>::fmt")
    chars = [x[2][1] for x in H.walk(hsel["body"]) if H.kind(x) == "lit" and x[2][0] == "char"]
    chk.expect(chars == ["."], "print-parse", "Display for AttributeSelector", "separator", ["."], chars, loc=C.fn_loc(hsel))
    # the dot goes before every step but the first *by position*: its condition is a flag / index test that never looks at the step's value
    # (two equal steps, as in ContentSequence[0].ContentSequence[0], must still be separated), and every step is printed
    dot_ifs = [x for x in H.walk(hsel["body"]) if H.kind(x) == "if" and any(H.kind(y) == "mcall" and y[3] in ("write_char", "write_str") for b in (x[3], x[4]) if b is not None for y in H.walk(b))]
    loopvars = set()
    for y in H.walk(hsel["body"]):
        if H.kind(y) == "match" and len(y) > 5 and y[5] == "ForLoopDesugar":
            for p, g, b, ln in H.match_arms(y):
                loopvars |= set(H.pat_bindings(p))
    for y in H.walk(hsel["body"]):
        if H.kind(y) == "loop":
            for z in H.walk(y):
                if H.kind(z) == "match":
                    for p, g, b, ln in H.match_arms(z):
                        if "Some" in H.show_pat(p):
                            loopvars |= set(H.pat_bindings(p))
    uses_value = [H.show(x[2], 5) for x in dot_ifs if any(H.kind(y) == "path" and y[2] in loopvars and H.kind(y) == "path" and not re.fullmatch(r"i|idx|index|n", y[2]) for y in H.walk(x[2]))]
    chk.expect(len(dot_ifs) == 1 and not uses_value, "print-parse", "Display for AttributeSelector", "separator-by-position", "one `if <flag or index test>` around the dot, not a comparison of the step",
               {"conditions": [H.show(x[2], 5) for x in dot_ifs], "loop variables": sorted(loopvars)}, loc=C.fn_loc(hsel))
    steps_fmt = [x for c, x in H.calls(hsel["body"]) if c and c.endswith("fmt::Display::fmt")]
    uncond = [x for x in steps_fmt if not any(x in list(H.walk(i)) for i in dot_ifs)]
    chk.expect(len(uncond) == 1, "print-parse", "Display for AttributeSelector", "every-step-printed", "Display::fmt(step, f) once per step, outside the separator test", len(uncond), loc=C.fn_loc(hsel))
    pchars = sorted({x[2][1] for x in H.walk(hs["body"]) if H.kind(x) == "lit" and x[2][0] == "char"})
    chk.expect(pchars == [".", "[", "]"], "print-parse", "parse_selector", "delimiters-consumed", [".", "[", "]"], pchars, loc=C.fn_loc(hs))
    hpt = fx.hirfn("dicom_core::dictionary::data_element::DataDictionary::parse_tag")
    t = H.show(hpt["body"], 9)
    ok = "tag.parse().ok().or_else(" in t and "self.by_name(tag).map(" in t and ".tag()" in t
    chk.expect(ok, "print-parse", "DataDictionary::parse_tag", "keyword-resolution", "tag.parse().ok().or_else(|| self.by_name(tag).map(|e| e.tag()))", t[:160], loc=C.fn_loc(hpt))
    # the two slices of an intermediate step `KEY[n]`: the key is everything before '[', the index everything between '[' and the final ']'
    sl = [x for x in H.walk(hs["body"]) if H.kind(x) == "index" and "Range" in H.show(x[3], 3)]
    got = sorted(re.sub(r"core::ops::range::", "", H.show(x[3], 6)) for x in sl)
    want_sl = sorted(["Range{start: 0, end: split_i}", "Range{start: (split_i Add 1), end: (part.len() Sub 1)}"])
    chk.expect(got == want_sl, "print-parse", "parse_selector", "step-slices", want_sl, got, loc=C.fn_loc(hs))
    from . import shared
    shared.keyword_lookup(chk, fx, "keyword-lookup")
    chk.undecided.append("round trip over all tags/selectors; rejection of every other string (the hex-digit and delimiter checks are structural necessary conditions)")
