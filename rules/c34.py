"""C34 — I/O failures are always reported (error discipline; fault enumeration itself is not static).

1. result-not-dropped: in the library crates that touch I/O, no `Result` is discarded (`let _ = ..`, `.ok();`) except in
   `Drop` impls and the audited rows of audit/c34_discarded_results.tsv (one reason each); MIR cross-check: no call whose
   `Result` destination is never read.
2. flush-before-drop: every function that wraps the caller's writer in a buffering or adapting writer (BufWriter::new,
   adapt_writer) flushes it and propagates the flush error on its success paths, or hands the writer by value to a
   function that does (write_dataset_impl, whose non-error arms are checked).
3. pdata-finish: every `send_pdata(..)` writer in workspace code is finished explicitly with the result propagated
   (dropping it sends the last PDU in Drop, where errors are ignored); no unwrap on the write result.
4. panic-on-io: no `unwrap`/`expect` directly on the result of an I/O call in those library crates' write/send paths.
"""
import os
import re

from . import facts, hirq as H, mirq as M, common as C

LEVEL_TEXT = ("Every discarded Result, every buffering/adapting writer and every P-DATA writer of the analysed crates is enumerated and "
              "checked against the error-propagation discipline. Decides the structural discipline that makes failures visible; which call "
              "fails at which byte offset is a fault-enumeration question that static analysis does not answer.")

LIB_CRATES = [("dicom_encoding", None), ("dicom_parser", None), ("dicom_object", None), ("dicom_ul", None), ("dicom_json", None), ("dicom_dump", "lib"),
              ("dicom_transfer_syntax_registry", None)]
TOOL_CRATES = [("dicom_storescu", "bin"), ("dicom_storescp", "bin"), ("dicom_findscu", "bin"), ("dicom_movescu", "bin"), ("dicom_echoscu", "bin"), ("dicom_scpproxy", "bin")]
VERIF = os.path.dirname(os.path.dirname(os.path.abspath(__file__)))


def load_audit():
    rows = []
    with open(os.path.join(VERIF, "audit", "c34_discarded_results.tsv")) as fh:
        for line in fh:
            if line.startswith("#") or not line.strip():
                continue
            a = line.rstrip("\n").split("\t")
            rows.append((a[0], a[1], a[2]))
    return rows


def discarded_sites(h):
    out = []
    for x in H.walk(h["body"]):
        if H.kind(x) == "slet" and x[2][0] == "pwild" and x[3] is not None and (x[5] or "").startswith("core::result::Result<"):
            names = [y[3] if H.kind(y) == "mcall" else (H.callee(y) or "?").split("::")[-1] for y in H.walk(x[3]) if H.kind(y) in ("call", "mcall")]
            names = [n for n in names if n not in ("into_future", "new_unchecked", "get_context", "poll", "from_residual", "branch")]
            out.append(("let _ =", names[0] if names else H.show(x[3], 3), x[1]))
        if H.kind(x) == "semi":
            e = H.peel(x[2])
            if H.kind(e) == "mcall" and e[3] == "ok" and (e[6] or "").lstrip("&").startswith("core::result::Result<"):
                inner = H.peel(e[4])
                nm = inner[3] if H.kind(inner) == "mcall" else (H.callee(inner) or "?").split("::")[-1]
                out.append((".ok();", nm, x[1]))
    return out


def run(chk, tier):
    fx = facts.load("W")
    chk.analysed["facts"] = fx.meta
    chk.assume("io::Write::flush of BufWriter / flate2 writers reports pending write errors; Drop impls cannot report errors (Rust semantics)")

    # ---------- rule 1
    chk.rule("result-not-dropped", "library crates: no discarded Result outside Drop impls and the audited rows")
    audit = load_audit()
    used = set()
    n_fns = 0
    for cn, kind in LIB_CRATES:
        d = fx.crate(cn, kind)
        for h in d["hir"]:
            n_fns += 1
            for how, callee, line in discarded_sites(h):
                row = [r for r in audit if re.search(r"(^|::|<)" + re.escape(r[0]) + "$", h["path"]) and r[1] == callee]
                short = h["path"].split("::")[-2] + "::" + h["path"].split("::")[-1]
                if row:
                    used.add(row[0])
                    chk.ok("result-not-dropped", short, f"audited:{callee}", row[0][2])
                else:
                    chk.bad("result-not-dropped", short, f"{how} {callee}", "the Result is propagated or handled", f"discarded at line {line}", loc=f"{h['loc']['f']}:{line}")
    stale = [r for r in audit if r not in used]
    chk.expect(not stale, "result-not-dropped", "audit", "no-stale-rows", "every audited row still matches a site", [r[:2] for r in stale])
    chk.analysed["hir_bodies_scanned"] = n_fns
    # MIR cross-check (sync code): a call whose Result destination is never read
    def reads(f):
        rd = set()

        def op(o):
            if isinstance(o, dict):
                p = o.get("c") or o.get("m")
                if p:
                    rd.add(p["l"])
                    for q in p.get("p") or []:
                        if isinstance(q, dict) and "i" in q:
                            rd.add(q["i"])
        for b in f["blocks"]:
            for s in b["s"]:
                r = s["r"]
                for k in ("o", "a", "b"):
                    if k in r:
                        op(r[k])
                if isinstance(r.get("p"), dict):
                    rd.add(r["p"]["l"])
                for o in r.get("ops", []):
                    op(o)
                if s["d"].get("p"):
                    rd.add(s["d"]["l"])
            t = b["t"]
            if t["t"] == "call":
                for a in t["a"]:
                    op(a)
                if "ptr" in t["fn"]:
                    op(t["fn"]["ptr"])
                if t["d"].get("p"):
                    rd.add(t["d"]["l"])
            elif t["t"] in ("switch", "assert"):
                op(t["o"])
                for o in t.get("ops", []):
                    op(o)
        return rd

    n_mir = 0
    for cn, kind in LIB_CRATES:
        d = fx.crate(cn, kind)
        for f in d["fns"]:
            n_mir += 1
            rd = None
            for bb, t in M.calls(f):
                dl = t["d"]["l"]
                if t["d"].get("p") or dl == 0:
                    continue
                if f["locals"][dl].startswith("core::result::Result<"):
                    rd = rd if rd is not None else reads(f)
                    if dl not in rd:
                        callee = (M.callee(t) or "?").split("::")[-1]
                        row = [r for r in audit if f["path"].split("::{closure")[0].endswith(r[0]) and r[1] == callee]
                        short = f["path"].split("::")[-2] + "::" + f["path"].split("::")[-1]
                        chk.expect(bool(row), "result-not-dropped", short, f"mir:unread-result:{callee}", "audited or absent", f"Result of {callee} never read (line {t['l']})",
                                   loc=f"{f['loc']['f']}:{t['l']}")
    chk.floor("result-not-dropped", "MIR bodies scanned", n_mir, 3000)

    # ---------- rule 2
    chk.rule("flush-before-drop", "functions creating BufWriter::new / adapt_writer over the caller's writer flush it (error propagated) or pass it to a verified flusher")
    d = fx.crate("dicom_object")
    # the verified flusher
    hw = fx.method("dicom_object", "dicom_object::FileDicomObject", "write_dataset_impl")
    ms = [m for m in H.walk(hw["body"]) if H.kind(m) == "match" and "Codec<" in m[3]]
    if len(ms) != 1:
        raise facts.MissingAnchor("write_dataset_impl: match over the codec")
    n_arms = 0
    for p, g, b, ln in H.match_arms(ms[0]):
        writes = [x for x in H.walk(b) if H.kind(x) == "mcall" and x[3] == "write_sequence"]
        if not writes:
            continue
        n_arms += 1
        fl = [x for x in H.walk(b) if H.kind(x) == "mcall" and x[3] == "flush" and H.path_of(x[4]) == "dset_writer" and x[1] > writes[0][1]]
        prop = any(H.kind(y) == "match" and y[5].startswith("TryDesugar") and fl and fl[0] in list(H.walk(y[2])) for y in H.walk(b))
        chk.expect(len(fl) == 1 and prop, "flush-before-drop", "write_dataset_impl", f"arm:{H.show_pat(p)[:40]}", "dset_writer.flush()..? after write_sequence", len(fl), loc=f"{hw['loc']['f']}:{ln}")
    chk.expect(n_arms == 2, "flush-before-drop", "write_dataset_impl", "writing-arms", 2, n_arms)
    creators = 0
    for h in d["hir"]:
        mk = [x for c, x in H.calls(h["body"]) if c and (c.endswith("BufWriter::<W>::new") or c.endswith("DataRWAdapter::adapt_writer"))]
        if not mk:
            continue
        creators += 1
        short = h["path"].split("::")[-1]
        for k, site in enumerate(mk):
            kind_ = "BufWriter" if "BufWriter" in (H.callee(site) or "") else "adapter"
            # name of the variable holding the wrapper
            holder = None
            for x in H.walk(h["body"]):
                if H.kind(x) == "slet" and x[3] is not None and site in list(H.walk(x[3])) and x[2][0] == "pbind":
                    holder = H.pat_bindings(x[2])[0]
            # in the branch (arm / block) that contains the site:
            scope = h["body"]
            for n, anc in H.walk_anc(h["body"]):
                if n is site:
                    blocks = [a for a in anc if H.is_node(a) and H.kind(a) == "block"]
                    # innermost if/match-arm block
                    for a in reversed(anc):
                        if H.is_node(a) and H.kind(a) == "if":
                            scope = a[3] if site in list(H.walk(a[3])) else (a[4] if a[4] is not None else scope)
                            break
                        if isinstance(a, tuple) and a and a[0] == "arm" and not a[1][5].startswith("TryDesugar"):
                            scope = H.match_arms(a[1])[a[2]][2]
                            break
                    break
            fl = [x for x in H.walk(scope) if H.kind(x) == "mcall" and x[3] == "flush"]
            prop = [x for x in fl if any(H.kind(y) == "match" and y[5].startswith("TryDesugar") and x in list(H.walk(y[2])) for y in H.walk(scope))
                    or x in list(H.walk(H.peel(scope)[3] if H.kind(H.peel(scope)) == "block" and H.peel(scope)[3] is not None else scope))]
            handed = [x for x in H.walk(scope) if H.kind(x) == "mcall" and x[3] == "write_dataset_impl" and holder and H.path_of(x[5][0]) == holder]
            ok = bool(prop) or bool(handed)
            chk.expect(ok, "flush-before-drop", short, f"{kind_}#{k}", "flush()? on the success path, or writer handed to write_dataset_impl",
                       {"flush_calls": len(fl), "propagated": len(prop), "handed_over": len(handed)}, loc=f"{h['loc']['f']}:{site[1]}")
    chk.floor("flush-before-drop", "functions creating buffering/adapting writers", creators, 5)
    hm = fx.method("dicom_object", "dicom_object::meta::FileMetaTable", "write")
    tail = H.peel(H.peel(hm["body"])[3])
    chk.expect("dset.flush()" in H.show(tail, 5), "flush-before-drop", "FileMetaTable::write", "flush-is-the-result", "dset.flush().context(..) as the tail expression", H.show(tail, 5))

    # ---------- rule 3
    chk.rule("pdata-finish", "each send_pdata(..) writer is finished explicitly and the results of write_all/finish are propagated (no unwrap)")
    n_pd = 0
    for cn, kind in TOOL_CRATES + [("dicom_ul", None)]:
        try:
            dd = fx.crate(cn, kind)
        except facts.MissingAnchor:
            continue
        for h in dd["hir"]:
            for x in H.walk(h["body"]):
                if H.kind(x) == "slet" and x[3] is not None and H.kind(H.peel(x[3])) == "mcall" and H.peel(x[3])[3] == "send_pdata" and x[2][0] == "pbind":
                    n_pd += 1
                    nm = H.pat_bindings(x[2])[0]
                    uses = [y for y in H.walk(h["body"]) if H.kind(y) == "mcall" and H.path_of(y[4]) == nm and y[1] >= x[1]]
                    fin = [y for y in uses if y[3] == "finish"]
                    unwraps = [z for z in H.walk(h["body"]) if H.kind(z) == "mcall" and z[3] in ("unwrap", "expect") and any(u in list(H.walk(z[4])) for u in uses)]
                    short = h["path"].split("::")[-2] + "::" + h["path"].split("::")[-1]
                    chk.expect(len(fin) == 1 and not unwraps, "pdata-finish", short, f"{nm}@send_pdata", "finish() called, no unwrap on the writer's results",
                               {"finish": len(fin), "unwraps": len(unwraps)}, loc=f"{h['loc']['f']}:{x[1]}")
    chk.floor("pdata-finish", "send_pdata writer bindings", n_pd, 2)
    # ---------- rule 4: no bare Write::write (short writes must be retried: write_all, or a loop comparing the count)
    chk.rule("no-bare-write", "library code never calls io::Write::write directly (a short write would be taken for a full one); it uses write_all / write! — "
             "except inside an `impl Write` whose own `write` forwards the partial-write contract")
    n_scanned = 0
    for cn, kind in LIB_CRATES + [("dicom_core", None), ("dicom_pixeldata", None)]:
        dd = fx.crate(cn, kind)
        for h in dd["hir"]:
            n_scanned += 1
            is_write_impl = re.search(r" as std::io::Write>::write$", h["path"]) is not None or h["path"].endswith("::poll_write")
            for c, x in H.calls(h["body"]):
                if c == "std::io::Write::write":
                    short = h["path"].split("::")[-2] + "::" + h["path"].split("::")[-1]
                    chk.expect(is_write_impl, "no-bare-write", short, f"write@{H.show(x[4], 2) if H.kind(x) == 'mcall' else '?'}", "write_all / write! (or an impl Write forwarding the count)",
                               f"bare Write::write at line {x[1]}", loc=f"{h['loc']['f']}:{x[1]}")
    chk.floor("no-bare-write", "HIR bodies scanned", n_scanned, 3000)
    # ---------- rule 5: the token readers end the stream (None) on an error only when it is the end of the input
    chk.rule("reader-errors-surface", "DataSetReader::next and LazyDataSetReader::advance: an `Err(..)` arm either yields / returns the error, or ends the token stream "
             "only under a guard that compares the kind of the I/O error bound by that arm's pattern with ErrorKind::UnexpectedEof")
    dp = fx.crate("dicom_parser")
    n_arms = 0
    for h in dp["hir"]:
        if "{closure" in h["path"] or not (re.search(r"dataset::read::DataSetReader<.*Iterator>::next$", h["path"]) or re.search(r"lazy_read::LazyDataSetReader::<\w+>::advance$", h["path"])):
            continue
        short = "LazyDataSetReader::advance" if "lazy_read" in h["path"] else "DataSetReader::next"
        ordn = 0
        for m in H.walk(h["body"]):
            if H.kind(m) != "match" or (len(m) > 5 and m[5] in ("TryDesugar", "AwaitDesugar", "ForLoopDesugar")):
                continue
            for p, g, b, ln in H.match_arms(m):
                sp = H.show_pat(p)
                if not (sp.startswith("Err(") or sp.startswith("core::result::Result::Err(")):
                    continue
                ordn += 1
                n_arms += 1
                txt = H.show(b, 9)
                yields_err = "Result::Err(" in txt
                binds = H.pat_bindings(p)
                gtxt = H.show(g, 9) if g is not None else ""
                eof_guard = any(re.search(rf"\({re.escape(v)}\.kind\(\) Eq (core|std)::io::(error::)?ErrorKind::UnexpectedEof\)", gtxt) for v in binds)
                chk.expect(yields_err or eof_guard, "reader-errors-surface", short, f"Err arm #{ordn} ({sp[:60]})", "yields the error, or guarded by <bound io error>.kind() == UnexpectedEof",
                           {"guard": gtxt[:160], "body": txt[:120]}, loc=f"{h['loc']['f']}:{ln}")
    chk.floor("reader-errors-surface", "Err arms of the two token readers", n_arms, 14)
    from . import shared
    shared.pdata_reader_error_kinds(chk, fx, "pdata-errors-are-not-eof")
    chk.undecided.append("which operation fails at which point (fault enumeration); errors swallowed inside third-party crates; flate2 writes its final block on drop "
                         "(DataRWAdapter returns Box<dyn Write> and offers no finish): design limitation recorded in DESIGN.md")
