"""C13 — attribute operations follow their documented semantics (structural clauses).

1. constructive: AttributeAction::is_constructive is total over the enum and equals the documented families
   (Set*, SetIfMissing*, Push*).
2. apply-leaf: every action variant has its own arm in InMemDicomObject::apply_leaf (the wildcard arm only serves
   future variants of the non-exhaustive enum).
3. remove-reinsert (PAIR, MIR): in every apply_push_*_impl, each path from `entries.remove(&tag)` to *any* return
   re-inserts an element (put / entries.insert): a failed push must not delete the attribute.
4. len-invalidate (PAIR, MIR incl. closure captures): every method that mutates `self.entries` resets `self.len`
   on every path from the mutation to a non-error exit (directly, through a captured `&mut self.len` in an
   inspect/map closure, or through a callee that always does).
5. constructive-gate (MIR dominance): in `apply`, every creation (`put`, `push`) is control-dependent on
   `action.is_constructive()` being true, so non-constructive actions on missing paths have no side effects.
"""
import re

from . import facts, hirq as H, mirq as M, common as C

LEVEL_TEXT = ("Exhaustive over the action enum for two tables and over every path of the listed methods (MIR). Decides the "
              "pairing/ordering structure that the documented semantics need; equivalence with a reference model over "
              "operation histories is not decided.")

AA = "dicom_core::ops::AttributeAction"
IM = "dicom_object::mem::InMemDicomObject"
CONSTRUCTIVE = {"Set", "SetStr", "SetIfMissing", "SetStrIfMissing", "PushStr", "PushI32", "PushU32", "PushI16", "PushU16", "PushF32", "PushF64"}
MUTATING_MAP_METHODS = ("::insert", "::remove", "::retain", "::get_mut", "::entry", "::extend", "::clear", "::append", "::values_mut", "::iter_mut",
                        "::pop_first", "::pop_last", "::split_off", "::remove_entry", "::extend::<")
HANDOUT_HELPERS = {"get_mut": "private; returns &mut element, callers reset the length (update paths audited below)",
                   "entry_at_mut": "private; navigation helper for update_value_at, which resets the root length; nested item lengths are a documented "
                                   "limitation of ExplicitLengthSqItemStrategy::NoChange"}


def self_methods(fx):
    d = fx.crate("dicom_object")
    out = []
    for f in d["fns"]:
        sp = fx.strip_generics(f["path"])
        if (sp.startswith(IM + "::") or sp.startswith(f"<{IM} as ")) and "{closure" not in sp:
            out.append(f)
    return out


def field_ref_events(f, base_local, field, mutable_only=True):
    """blocks where `&mut (*base).field` (or deeper) is taken, or (*base).field is assigned"""
    out = []
    for i, b in enumerate(f["blocks"]):
        if b.get("cleanup"):
            continue
        for s in b["s"]:
            r = s["r"]
            if r["rv"] == "ref" and (r.get("mut") or not mutable_only) and r["p"]["l"] == base_local:
                fl = [q["f"] for q in (r["p"].get("p") or []) if isinstance(q, dict) and "f" in q]
                if fl[:1] == [field]:
                    out.append((i, "ref", s["l"]))
            d = s["d"]
            if d["l"] == base_local:
                fl = [q["f"] for q in (d.get("p") or []) if isinstance(q, dict) and "f" in q]
                if fl[:1] == [field]:
                    out.append((i, "assign", s["l"]))
    return out


def none_side_blocks(f, call_bb):
    """For a call returning Option (remove / get_mut / inspect chains): the successor blocks taken when the result is None
    (nothing was found, so nothing was mutated).  Recognises `match`/`if let` on the discriminant and is_some()/is_none()."""
    t = f["blocks"][call_bb]["t"]
    if t["bb"] is None:
        return []
    out = []

    def from_call(op_or_place_local):
        o = M.origin(f, {"c": {"l": op_or_place_local, "s": f"_{op_or_place_local}"}})
        return o[0] in ("call", "callproj") and o[2] == call_bb

    for b in sorted(M.reachable(f, t["bb"])):
        blk = f["blocks"][b]
        tt = blk["t"]
        if tt["t"] == "switch":
            sl = M.op_local(tt["o"])
            if sl is None:
                continue
            defs = M.defs_of(f, sl)
            if len(defs) != 1:
                continue
            kind, dbb, j, x = defs[0]
            if kind == "stmt" and x["r"]["rv"] == "discr" and x["r"].get("adt", "").endswith("option::Option") and from_call(x["r"]["p"]["l"]):
                zero = [v[1] for v in tt["vals"] if v[0] == "0"]
                # `None` has discriminant 0: either an explicit target or the otherwise edge when only `1` is listed
                out.extend(zero if zero else ([tt["else"]] if [v[0] for v in tt["vals"]] == ["1"] else []))
            elif kind == "call":
                c = M.callee(x) or ""
                if c.endswith("Option::<T>::is_some") and x["a"] and from_call(M.op_place(x["a"][0])["l"]):
                    out.extend(v[1] for v in tt["vals"] if v[0] == "0")
                elif c.endswith("Option::<T>::is_none") and x["a"] and from_call(M.op_place(x["a"][0])["l"]):
                    out.append(tt["else"])
    return out


def push_plumbing(chk, fx, rule="push-plumbing"):
    """apply_push_<ty>_impl hands the pushed value, unconverted, to PrimitiveValue::extend_<ty> (existing element) and to
    PrimitiveValue::from (new element): no cast, no detour through the extend function of another type"""
    chk.rule(rule, "apply_push_<ty>_impl: existing value -> v.extend_<ty>([<the parameter>]); missing attribute -> PrimitiveValue::from(<the parameter>); no `as` cast of the pushed value")
    obj = "dicom_object::mem::InMemDicomObject"
    for ty in ("str", "i32", "u32", "i16", "u16", "f32", "f64"):
        h = fx.method("dicom_object", obj, f"apply_push_{ty}_impl")
        prm = [b for p in (h.get("params") or [])[2:] for b in H.pat_bindings(p)]
        if len(prm) != 1:
            raise facts.MissingAnchor(f"apply_push_{ty}_impl: value parameter")
        pv = prm[0]
        ext = [x for x in H.walk(h["body"]) if H.kind(x) == "mcall" and x[3].startswith("extend_")]
        got = [(x[3], H.show(x[5][0], 5) if x[5] else None) for x in ext]
        chk.expect(got == [(f"extend_{ty}", f"[{pv}]")], rule, f"apply_push_{ty}_impl", "extend-call", [(f"extend_{ty}", f"[{pv}]")], got, loc=C.fn_loc(h))
        casts = [H.show(x, 4) for x in H.walk(h["body"]) if H.kind(x) == "cast" and any(H.path_of(y) == pv for y in H.walk(x[2]) if H.kind(y) == "path")]
        chk.expect(not casts, rule, f"apply_push_{ty}_impl", "no-cast-of-the-pushed-value", "none", casts, loc=C.fn_loc(h))
        news = [H.show(a, 5) for x in H.walk(h["body"]) if H.kind(x) == "call" and re.search(r"(PrimitiveValue as core::convert::From<.*>>::from|core::convert::From::from|core::convert::Into::into)$", H.callee(x) or "")
                for a in H.call_args(x)[:1]]
        uses = [x for x in H.walk(h["body"]) if H.kind(x) == "path" and x[3] == "local" and H.path_of(x) == pv]
        chk.expect(len(uses) >= 2 and (pv in news or any(pv in n for n in news)), rule, f"apply_push_{ty}_impl", "new-element-value", f"PrimitiveValue::from({pv})", news, loc=C.fn_loc(h))


def Budget_diverges(n):
    from .budget import Budget
    return Budget.diverges(n)


def presence_gates(body, is_write, slot_re):
    """[(write node, 'present'|'missing'|'any'|'conflict')]: under which presence of the target does each write site of `body` run?
    Conditions come from enclosing `if` branches and from earlier `if c { return .. }` statements of the enclosing blocks; a condition
    counts when it is `<slot>.is_some()` / `.is_none()` (possibly negated) or `if let Some(..) = <slot>..`."""
    from .budget import Budget
    out = []

    def classify(c, sense):
        c = H.peel(c)
        if H.kind(c) == "un" and c[2] == "Not":
            return classify(c[3], not sense)
        if H.kind(c) == "mcall" and c[3] in ("is_some", "is_none") and re.search(slot_re, H.show(c[4], 6)):
            pres = (c[3] == "is_some") == sense
            return "present" if pres else "missing"
        if H.kind(c) == "let" and re.search(slot_re, H.show(c[3] if H.is_node(c[3]) else c[-1], 6)):
            pat = H.show_pat(c[2]) if isinstance(c[2], list) else ""
            if "Some" in pat.split("(")[0]:
                return "present" if sense else "missing"
            if pat.endswith("None"):
                return "missing" if sense else "present"
        return None

    def rec(n, conds):
        k = H.kind(n)
        if k is None:
            if isinstance(n, list):
                for x in n:
                    rec(x, conds)
            return
        if is_write(n):
            got = {c for c in conds if c}
            out.append((n, "any" if not got else (got.pop() if len(got) == 1 else "conflict")))
        if k == "if":
            rec(n[2], conds)
            rec(n[3], conds + [classify(n[2], True)])
            if n[4] is not None:
                rec(n[4], conds + [classify(n[2], False)])
            return
        if k == "block":
            cs = list(conds)
            for s in n[2]:
                rec(s, cs)
                e = s[2] if H.kind(s) in ("semi", "sexpr") else s
                e = H.peel(e) if H.is_node(e) else e
                if H.kind(e) == "if" and e[4] is None and Budget.diverges(e[3]):
                    cs = cs + [classify(e[2], False)]
            if n[3] is not None:
                rec(n[3], cs)
            return
        if k == "closure":
            return
        for c in H.children(n):
            rec(c, conds)

    rec(body, [])
    return out


PRESENCE_WANT = {"Set": "any", "SetStr": "any", "SetIfMissing": "missing", "SetStrIfMissing": "missing", "Replace": "present", "ReplaceStr": "present"}


def presence_semantics(chk, fx):
    """Set* writes always, Set*IfMissing only when the attribute is absent, Replace* only when it is present -- in the in-memory object
    (apply_leaf) and in the file meta table (apply_optional_string; required attributes are always present)."""
    chk.rule("presence-semantics", "per action, the write runs under the documented presence of the target: Set/SetStr always, SetIfMissing/SetStrIfMissing only if absent, "
             "Replace/ReplaceStr only if present -- InMemDicomObject::apply_leaf, FileMetaTable::apply_optional_string, ::apply_required_string; "
             "FileMetaTable::apply dispatches each group-0002 tag to the field of the same name")
    AA = "dicom_core::ops::AttributeAction"
    targets = [
        ("InMemDicomObject::apply_leaf", fx.method("dicom_object", IM, "apply_leaf"),
         lambda n: H.kind(n) == "mcall" and n[3] == "apply_change_value_impl", r"self\.get\(tag\)|self\.entries\.get", PRESENCE_WANT),
        ("FileMetaTable::apply_optional_string", fx.method("dicom_object", "dicom_object::meta::FileMetaTable", "apply_optional_string"),
         lambda n: H.kind(n) == "assign" and "target_attribute" in H.show(n[2], 3) and "Some(" in H.show(n[3], 4), r"target_attribute", PRESENCE_WANT),
        ("FileMetaTable::apply_required_string", fx.method("dicom_object", "dicom_object::meta::FileMetaTable", "apply_required_string"),
         lambda n: H.kind(n) == "assign" and "target_attribute" in H.show(n[2], 3), r"target_attribute",
         {"Set": "any", "SetStr": "any", "Replace": "any", "ReplaceStr": "any", "SetIfMissing": "never", "SetStrIfMissing": "never"}),
    ]
    n_inst = 0
    for label, h, is_write, slot_re, want in targets:
        ms = H.matches_over(h["body"], lambda t: t == AA)
        if len(ms) != 1:
            raise facts.MissingAnchor(f"{label}: match over AttributeAction")
        got = {}
        for p, g, b, ln in H.match_arms(ms[0]):
            for alt in H.pat_alts(p):
                hd = H.pat_head(alt)
                if hd[0] != "variant":
                    continue
                v = hd[1].split("::")[-1]
                if v not in want:
                    continue
                gates = {gt for _, gt in presence_gates(b, is_write, slot_re)}
                got[v] = (("never" if not gates else gates.pop() if len(gates) == 1 else "conflict"), ln)
        for v, w in want.items():
            n_inst += 1
            g, ln = got.get(v, ("no arm", 0))
            chk.expect(g == w, "presence-semantics", label, v, f"writes: {w}", f"writes: {g}", loc=f"{h['loc']['f']}:{ln}")
    # dispatch of FileMetaTable::apply: tags::<KEYWORD> -> self.<keyword in snake case> (TRANSFER_SYNTAX_UID -> transfer_syntax)
    ha = fx.method("dicom_object", "dicom_object::meta::FileMetaTable", "apply")
    ms = [m for m in H.walk(ha["body"]) if H.kind(m) == "match" and "Tag" in (m[3] or "") and len(H.match_arms(m)) >= 9]
    if len(ms) != 1:
        raise facts.MissingAnchor("FileMetaTable::apply: match over the tag")
    for p, g, b, ln in H.match_arms(ms[0]):
        sp = H.show_pat(p)
        m = re.fullmatch(r"(?:.*::)?([A-Z][A-Z_]+)", sp)
        if not m:
            continue
        fields = re.findall(r"self\.(\w+)", H.show(b, 6))
        want_f = "transfer_syntax" if m.group(1) == "TRANSFER_SYNTAX_UID" else m.group(1).lower()
        n_inst += 1
        chk.expect(fields == [want_f], "presence-semantics", "FileMetaTable::apply", m.group(1), f"self.{want_f}", fields, loc=f"{ha['loc']['f']}:{ln}")
    chk.floor("presence-semantics", "instances", n_inst, 27)


def run(chk, tier):
    fx = facts.load("W")
    chk.analysed["facts"] = fx.meta
    variants = fx.variants(AA)

    # ---------- rule 1
    chk.rule("constructive", "is_constructive(v) is true exactly for Set, SetStr, SetIfMissing, SetStrIfMissing and the seven Push* actions")
    h = fx.method("dicom_core", AA, "is_constructive")
    ms = H.matches_over(h["body"], lambda t: t == AA)
    if len(ms) != 1:
        raise facts.MissingAnchor("is_constructive: match over AttributeAction")
    tab, arms = H.enum_table(ms[0], variants, AA)
    # the predicate may be written positively (`matches!(self, A | B)`) or negatively (`!matches!(self, X | Y)`): evaluate it per variant
    negations = 0
    for x, anc in H.walk_anc(h["body"]):
        if x is ms[0]:
            negations = sum(1 for a in anc if H.is_node(a) and H.kind(a) == "un" and a[2] == "Not")
    for v in variants:
        l = H.lit(arms[tab[v][0]][2]) if tab[v] else None
        got = (l is not None and l[1] == "true") != (negations % 2 == 1) if l is not None else None
        chk.expect(got == (v in CONSTRUCTIVE), "constructive", "is_constructive", v, v in CONSTRUCTIVE, got, loc=C.fn_loc(h))
    chk.expect(CONSTRUCTIVE <= set(variants), "constructive", AA, "documented-families-exist", sorted(CONSTRUCTIVE), sorted(variants))

    # ---------- rule 2
    chk.rule("apply-leaf", "every AttributeAction variant is handled by its own arm of apply_leaf")
    h = fx.method("dicom_object", IM, "apply_leaf")
    ms = H.matches_over(h["body"], lambda t: t == AA)
    if len(ms) != 1:
        raise facts.MissingAnchor("apply_leaf: match over AttributeAction")
    arms = H.match_arms(ms[0])
    named = {}
    for idx, (p, g, b, ln) in enumerate(arms):
        for alt in H.pat_alts(p):
            hd = H.pat_head(alt)
            if hd[0] == "variant" and hd[1].startswith(AA + "::"):
                named[hd[1][len(AA) + 2:]] = (idx, b)
    for v in variants:
        ok = v in named
        detail = "own arm" if ok else "falls to the wildcard (Unsupported)"
        chk.expect(ok, "apply-leaf", "apply_leaf", v, "own arm", detail, loc=C.fn_loc(h))
    push_map = {"PushStr": "apply_push_str_impl", "PushI32": "apply_push_i32_impl", "PushU32": "apply_push_u32_impl", "PushI16": "apply_push_i16_impl",
                "PushU16": "apply_push_u16_impl", "PushF32": "apply_push_f32_impl", "PushF64": "apply_push_f64_impl"}
    for v, fn in push_map.items():
        if v in named:
            cs = [x[3] for x in H.walk(named[v][1]) if H.kind(x) == "mcall"]
            chk.expect(cs == [fn], "apply-leaf", "apply_leaf", f"{v}->impl", fn, cs)

    # ---------- rule 3 (MIR)
    chk.rule("remove-reinsert", "apply_push_*_impl: every path from entries.remove(&tag) to any return passes through put / entries.insert")
    for fn in push_map.values():
        f = fx.method("dicom_object", IM, fn, table="mir")
        rem = [bb for bb, t in M.calls(f) if (M.callee(t) or "").endswith("BTreeMap::<K, V, A>::remove") or "btree::map::BTreeMap" in (M.callee(t) or "") and (M.callee(t) or "").endswith("::remove")]
        ins = [bb for bb, t in M.calls(f) if (M.callee(t) or "").endswith("::put") and "InMemDicomObject" in (M.callee(t) or "")
               or ("btree::map::BTreeMap" in (M.callee(t) or "") and (M.callee(t) or "").endswith("::insert"))]
        chk.expect(len(rem) == 1, "remove-reinsert", fn, "remove-site", "one entries.remove", len(rem), loc=C.fn_loc(f))
        w = M.escapes(f, rem, M.return_blocks(f), ins)
        chk.expect(w is None, "remove-reinsert", fn, "reinserted-on-every-path", "put/insert before every return",
                   f"path without re-insertion: bb{' -> bb'.join(map(str, w))}" if w else "ok", loc=C.fn_loc(f))

    # ---------- rule 4 (MIR)
    chk.rule("len-invalidate", "methods mutating self.entries reset self.len on every path from the mutation to a non-error exit "
             "(direct assignment, a `&mut self.len` captured by an inspect/map closure, or a callee that always resets)")
    methods = self_methods(fx)
    # summary: methods that reset self.len on every path to a non-error exit
    always = set()
    by_name = {}
    for f in methods:
        by_name.setdefault(f["path"], f)

    def reset_blocks(f):
        out = {i for i, k, l in field_ref_events(f, 1, "len")}
        for bb, t in M.calls(f):
            c = M.callee(t) or ""
            if c in always and t["a"] and M.origin(f, t["a"][0])[:2] == ("arg", 1):
                out.add(bb)
        return out

    changed = True
    while changed:
        changed = False
        for f in methods:
            if f["path"] in always or f["argc"] < 1 or not f["locals"][1].startswith("&mut "):
                continue
            rb = reset_blocks(f)
            if not rb:
                continue
            goals = M.ok_exit_blocks(f)
            if 0 in rb or M.escapes(f, [0], goals, rb) is None and 0 not in goals:
                always.add(f["path"])
                changed = True
    chk.analysed["always_resetting_methods"] = sorted(p.split("::")[-1] for p in always)
    n_mut = 0
    for f in methods:
        short = f["path"].split("::")[-1]
        if f["argc"] < 1 or not f["locals"][1].startswith("&mut "):
            continue
        evs = []
        for bb, t in M.calls(f):
            c = M.callee(t) or ""
            if "btree::map::BTreeMap" in c and any(c.endswith(m) or m in c[-24:] for m in MUTATING_MAP_METHODS) and t["a"]:
                o = M.origin(f, t["a"][0])
                if o[0] == "arg" and o[1] == 1 and ".entries" in str(o[2]):
                    evs.append((bb, c.split("::")[-1], t["l"]))
        if not evs:
            continue
        n_mut += 1
        if short in HANDOUT_HELPERS:
            chk.ok("len-invalidate", short, "audited-handout", HANDOUT_HELPERS[short])
            continue
        rb = reset_blocks(f)
        goals = M.ok_exit_blocks(f)
        for k, (bb, what, line) in enumerate(evs):
            # an event is fine when a reset dominates it or follows it on every path to a non-error exit
            # when the map operation returns Option, the None side means "nothing found, nothing mutated"
            exempt = set(none_side_blocks(f, bb)) if what in ("remove", "get_mut", "remove_entry", "pop_first", "pop_last") else set()
            w = None if bb in rb else M.escapes(f, [bb], goals, rb | exempt)
            pre = bb not in M.reachable(f, 0, avoid=rb) if rb else False
            chk.expect(w is None or pre, "len-invalidate", short, f"{what}#{k}", "self.len reset before or after the mutation on every path to a non-error exit",
                       "ok" if (w is None or pre) else f"path without reset: bb{' -> bb'.join(map(str, w))}", loc=f"{f['loc']['f']}:{line}")
    chk.floor("len-invalidate", "methods mutating self.entries", n_mut, 15)

    # ---------- rule 5 (MIR dominance)
    chk.rule("constructive-gate", "in InMemDicomObject::apply every put/push is dominated by the true edge of `action.is_constructive()`")
    f = fx.method("dicom_object", IM, "apply", table="mir")
    dom = M.dominators(f)
    gates = []
    for bb, t in M.calls(f):
        if (M.callee(t) or "").endswith("AttributeAction::is_constructive") and t["bb"] is not None:
            gates.append((bb, t))
    chk.expect(len(gates) >= 2, "constructive-gate", "apply", "gates", ">= 2 is_constructive tests", len(gates), loc=C.fn_loc(f))

    def true_edge_blocks(gate_bb, t):
        """blocks reachable only when the bool returned by the gate call is true: follow to the switch on its destination"""
        res = t["d"]["l"]
        nxt = t["bb"]
        # find the switch that tests `res` (possibly through a short-circuit `&&`)
        for b in sorted(M.reachable(f, nxt)):
            tt = f["blocks"][b]["t"]
            if tt["t"] == "switch" and M.op_local(tt["o"]) == res:
                falses = [v[1] for v in tt["vals"] if v[0] == "0"]
                return tt["else"], (falses[0] if falses else None)
        return None, None

    creations = [(bb, (M.callee(t) or "").split("::")[-1], t["l"]) for bb, t in M.calls(f)
                 if ((M.callee(t) or "").endswith("InMemDicomObject::<D>::put") or (M.callee(t) or "").endswith("::push")) and not f["blocks"][bb].get("cleanup")]
    chk.expect(len(creations) >= 2, "constructive-gate", "apply", "creation-sites", ">= 2 (put of the sequence, push of the item)", creations)
    for k, (bb, what, line) in enumerate(creations):
        ok = False
        for gbb, gt in gates:
            tb, fb = true_edge_blocks(gbb, gt)
            if tb is not None and (tb == bb or tb in dom[bb]):
                ok = True
        chk.expect(ok, "constructive-gate", "apply", f"{what}#{k}", "dominated by is_constructive() == true", "dominated" if ok else "reachable without the gate",
                   loc=f"{f['loc']['f']}:{line}")
    # a new item is appended only as the *next* item (index == current count): any other index must fail without touching the sequence
    ha = fx.method("dicom_object", IM, "apply")
    pushes = []
    for n, anc in H.walk_anc(ha["body"]):
        if H.kind(n) == "mcall" and n[3] == "push" and H.path_of(n[4]) == "items":
            conds = [a[2] for a in anc if H.is_node(a) and H.kind(a) == "if" and n in list(H.walk(a[3]))]
            pushes.append((n, conds))
    chk.expect(len(pushes) == 1, "constructive-gate", "apply", "item-append-site", "one `items.push(..)`", len(pushes), loc=C.fn_loc(ha))
    for n, conds in pushes:
        txt = " && ".join(H.show(c, 7) for c in conds)
        eq = any(H.kind(y) == "bin" and y[2] == "Eq" and "items.len()" in H.show(y, 5) and "item" in H.show(y[4], 4) + H.show(y[3], 4) for c in conds for y in H.walk(c))
        loose = any(H.kind(y) == "bin" and y[2] in ("Le", "Lt", "Ge", "Gt", "Ne") and "items.len()" in H.show(y, 5) for c in conds for y in H.walk(c))
        # both tests must hold: they are conjuncts (`&&` / nested ifs), never alternatives, and `is_constructive()` is not negated
        has_or = any(H.kind(y) == "bin" and y[2] == "Or" for c in conds for y in H.walk(c))
        negated = any(H.kind(y) == "un" and y[2] == "Not" and "is_constructive()" in H.show(y[3], 5) for c in conds for y in H.walk(c))
        chk.expect(eq and not loose and not has_or and not negated and "is_constructive()" in txt, "constructive-gate", "apply", "append-only-next-item",
                   "push guarded by `items.len() == item && action.is_constructive()`", txt[:200], loc=f"{ha['loc']['f']}:{n[1]}")
    # a missing sequence is created only for tags that can be sequences: the refusal needs the VR to be neither SQ nor UN
    vr_ifs = [x for x in H.walk(ha["body"]) if H.kind(x) == "if" and "VR::SQ" in H.show(x[2], 6) and "VR::UN" in H.show(x[2], 6)]
    chk.expect(len(vr_ifs) == 1 and re.fullmatch(r"\(\(vr Ne \S*VR::SQ\) And \(vr Ne \S*VR::UN\)\)", H.show(vr_ifs[0][2], 6)) is not None and Budget_diverges(vr_ifs[0][3]),
               "constructive-gate", "apply", "created-sequence-vr", "if vr != SQ && vr != UN { return Err(NotASequence) }", [H.show(x[2], 6) for x in vr_ifs], loc=C.fn_loc(ha))
    # Set / Replace put the given value under the element's VR; only an *empty* value for an *SQ* element becomes an empty sequence -- in
    # both branches (existing element, new element) of apply_change_value_impl alike
    hcv = fx.method("dicom_object", IM, "apply_change_value_impl")
    sq_ifs = [x for x in H.walk(hcv["body"]) if H.kind(x) == "if" and "VR::SQ" in H.show(x[2], 6)]
    conds = [H.show(x[2], 6) for x in sq_ifs]
    okc = len(sq_ifs) == 2 and all(re.fullmatch(r"\(\(vr Eq \S*VR::SQ\) And new_value\.is_empty\(\)\)", c) for c in conds)
    oke = len(sq_ifs) == 2 and all("DataSetSequence" in H.show(x[3], 6) and "new_value" in H.show(x[4], 6) and "DataSetSequence" not in H.show(x[4], 6) for x in sq_ifs)
    chk.expect(okc and oke, "presence-semantics", "apply_change_value_impl", "value-kept-unless-empty-SQ", "both branches: if vr == SQ && new_value.is_empty() { empty sequence } else { Value::from(new_value) }",
               conds, loc=C.fn_loc(hcv))
    chk.note("nested navigation in apply/entry_at_mut does not reset the recorded length of intermediate items: documented limitation of "
             "ExplicitLengthSqItemStrategy::NoChange (parser/src/dataset/write.rs), not claimed")
    # Push* actions delegate to PrimitiveValue::extend_*: "push appends" needs every arm there to keep the existing values first
    from . import c11
    c11.extend_appends(chk, fx, "push-appends")
    push_plumbing(chk, fx)
    presence_semantics(chk, fx)
    chk.undecided.append("equivalence with a reference model over arbitrary operation sequences; write/read-back of the resulting objects")
