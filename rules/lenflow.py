"""GUARD: lexical lower-bound analysis of sequence lengths over the resolved HIR (C05).

For every indexing / slicing / split_at site on a slice, array, Vec, SmallVec or byte string in a function body it decides whether the
access is in range on every path, from the facts the code itself establishes:

  * `[T; N]` has length N (from the type);
  * conditions refine a lower bound of `x.len()`:  `x.len() < c` (else-branch / after a diverging then-branch), `>=`, `>`, `==`, `!=`,
    `x.is_empty()`, conjunctions on the true edge, disjunctions on the false edge, negation; `match x.len() { c => .., n if n >= c => .. }`;
    match-arm guards; `ensure!(cond)` is `if !cond { return Err }`;
  * slices carry their length: `&x[a..b]` has b-a, `&x[a..]` has len(x)-a, `split_at(k)` gives (k, len-k); rebinding shadows;
  * integers carry a constant interval and relational upper bounds `v <= len(x) + k`: `x.len()`, `x.iter().position(..)` (< len),
    `opt.unwrap_or(e)` (join), `min(a, b)` (meet), `+`/`-` by constants (a subtraction is kept only when it cannot wrap), `& c`, `% c`;
  * variables assigned inside a loop lose their facts at loop entry.

The analysis is intraprocedural and flow-sensitive along the lexical structure (if / match / block / let / closure bodies). Anything it
does not understand yields "unknown", i.e. the site is *not* discharged (fail-safe); such sites go to the audit table of the rule.
"""
import re

from . import hirq as H

PURE_LEN_PRESERVING = {"as_bytes", "as_ref", "as_slice", "as_mut", "as_mut_slice", "as_str", "borrow", "deref", "clone", "to_vec", "to_owned", "into_vec", "iter", "as_mut_bytes"}
NON_MUTATING = {"len", "is_empty", "iter", "get", "first", "last", "as_ref", "as_slice", "as_bytes", "contains", "starts_with", "ends_with", "split", "to_vec", "clone",
                "windows", "chunks", "position", "find", "trim", "trim_end_matches", "trim_matches", "parse", "to_string", "as_str", "eq", "ne", "cmp", "deref", "borrow",
                "is_char_boundary", "chars", "bytes", "to_owned", "split_at", "concat", "join", "iter_mut", "as_mut", "as_mut_slice", "copy_from_slice", "fill", "read_exact",
                "decode_us_into", "decode_ul_into", "decode_uv_into", "decode_ss_into", "decode_sl_into", "decode_sv_into", "decode_fl_into", "decode_fd_into", "swap", "reverse", "sort"}
INF = None


class Val:
    __slots__ = ("lo", "hi", "rel", "len_of")

    def __init__(self, lo=0, hi=None, rel=None, len_of=None):
        self.lo, self.hi, self.rel, self.len_of = lo, hi, dict(rel or {}), len_of

    @staticmethod
    def const(c):
        return Val(c, c)

    def copy(self):
        return Val(self.lo, self.hi, self.rel, self.len_of)

    def __repr__(self):
        return f"[{self.lo},{self.hi}]{self.rel or ''}"


def join(a, b):
    """value is a or b"""
    if a is None or b is None:
        return None
    hi = None if a.hi is None or b.hi is None else max(a.hi, b.hi)
    rel = {k: max(a.rel[k], b.rel[k]) for k in a.rel if k in b.rel}
    return Val(min(a.lo, b.lo), hi, rel)


def meet(a, b):
    """value is min(a, b)"""
    if a is None and b is None:
        return None
    if a is None:
        return Val(0, b.hi, b.rel)
    if b is None:
        return Val(0, a.hi, a.rel)
    his = [x for x in (a.hi, b.hi) if x is not None]
    rel = dict(a.rel)
    for k, v in b.rel.items():
        rel[k] = min(rel[k], v) if k in rel else v
    return Val(min(a.lo, b.lo), min(his) if his else None, rel)


class Env:
    def __init__(self):
        self.vars = {}      # name -> id
        self.minlen = {}    # id/text-key -> int
        self.ints = {}      # id -> Val
        self.n = 0

    def clone(self):
        e = Env()
        e.vars, e.minlen, e.ints, e.n = dict(self.vars), dict(self.minlen), {k: v.copy() for k, v in self.ints.items()}, self.n
        return e

    def bind(self, name):
        self.n += 1
        i = f"{name}#{self.n}"
        self.vars[name] = i
        return i


def merge(a, b):
    """join of two environments after a branch (facts true in both)"""
    e = Env()
    e.n = max(a.n, b.n)
    e.vars = {k: v for k, v in a.vars.items() if b.vars.get(k) == v}
    e.minlen = {k: min(v, b.minlen[k]) for k, v in a.minlen.items() if k in b.minlen}
    for k, v in a.ints.items():
        if k in b.ints:
            j = join(v, b.ints[k])
            if j is not None:
                e.ints[k] = j
    return e


class Analysis:
    def __init__(self, hirfn):
        self.fn = hirfn
        self.sites = []     # dict(line, kind, ok, why, text)
        self._arr = re.compile(r"\[[^\[\];]+;\s*(\d+)\]")

    # ---------------------------------------------------------------- places
    def key(self, e, env):
        """identity of a sequence place: local binding id, or a text key for field paths (self.buffer)"""
        e = self.strip(e)
        if H.kind(e) == "path" and e[3] == "local":
            nm = e[2].split("::")[-1]
            return env.vars.get(nm, nm + "#0")
        if H.kind(e) == "field":
            b = self.key(e[2], env)
            return None if b is None else f"{b}.{e[3]}"
        if H.kind(e) == "mcall" and e[3] in PURE_LEN_PRESERVING and not e[5]:
            return self.key(e[4], env)
        return None

    def strip(self, e):
        while True:
            e = H.peel(e)
            if H.kind(e) == "ref":
                e = e[3]
            elif H.kind(e) == "un" and e[2] == "Deref":
                e = e[3]
            elif H.kind(e) == "cast" and "&" in str(e[4]):
                e = e[2]
            elif H.kind(e) == "match" and len(e) > 5 and str(e[5]).startswith("TryDesugar") and H.kind(H.peel(e[2])) == "call" and H.call_args(H.peel(e[2])):
                # `expr?` evaluates to the payload of expr
                e = H.call_args(H.peel(e[2]))[0]
            else:
                return e

    def ty_len(self, ty):
        if not isinstance(ty, str):
            return None
        t = ty.strip()
        while t.startswith("&"):
            t = t[1:].strip()
            if t.startswith("mut "):
                t = t[4:]
            if t.startswith("'"):
                t = t.split(" ", 1)[1] if " " in t else t
        m = re.fullmatch(r"\[.+;\s*(\d+)\]", t)
        return int(m.group(1)) if m else None

    def seq_len(self, e, env):
        """lower bound of the length of sequence expression e (0 if unknown)"""
        e0 = e
        e = self.strip(e)
        k = H.kind(e)
        best = 0
        if k == "path":
            n = self.ty_len(e[4] if len(e) > 4 else None)
            if n is not None:
                best = n
        if k == "array":
            best = len(e[2])
        if k == "repeat":
            n = self.ty_len(e[3] if len(e) > 3 else None)
            if n is not None:
                best = n
        if k == "lit" and e[2][0] in ("bstr", "str"):
            best = len(e[2][1].encode()) if e[2][0] == "str" else (len(e[2][2]) // 2 if len(e[2]) > 2 else 0)
        if k == "index":
            base, idx = e[2], H.peel(e[3])
            bl = max(self.seq_len(base, env), self.ty_len(e[4]) or 0)
            if H.kind(idx) == "struct":
                nm = idx[2].split("::")[-1]
                f = {x[0]: x[1] for x in idx[4]}
                if nm == "Range":
                    a, b = self.iv(f["start"], env), self.iv(f["end"], env)
                    if a is not None and b is not None and a.hi is not None:
                        best = max(best, b.lo - a.hi)
                elif nm == "RangeFrom":
                    a = self.iv(f["start"], env)
                    if a is not None and a.hi is not None:
                        best = max(best, bl - a.hi)
                elif nm == "RangeTo":
                    b = self.iv(f["end"], env)
                    if b is not None:
                        best = max(best, b.lo)
            elif H.kind(idx) == "path" and idx[2].endswith("RangeFull"):
                best = max(best, bl)
        if k == "mcall" and e[3] in PURE_LEN_PRESERVING and not e[5]:
            best = max(best, self.seq_len(e[4], env))
        if k == "mcall" and e[3] in ("get", "get_mut") and len(e[5]) == 1:
            # x.get(a..b)? / Some(..): when it yields a slice at all, the slice has exactly b-a elements
            idx = H.peel(e[5][0])
            if H.kind(idx) == "struct" and idx[2].endswith("range::Range"):
                f = {x[0]: x[1] for x in idx[4]}
                a, b = self.iv(f["start"], env), self.iv(f["end"], env)
                if a is not None and b is not None and a.hi is not None:
                    best = max(best, b.lo - a.hi)
        if k == "mcall" and e[3] in ("copy_to_bytes", "split_to") and len(e[5]) == 1:
            v = self.iv(e[5][0], env)
            if v is not None:
                best = max(best, v.lo)
        kk = self.key(e0, env)
        if kk is not None:
            best = max(best, env.minlen.get(kk, 0))
        return max(best, 0)

    # ---------------------------------------------------------------- integers
    def iv(self, e, env):
        e = H.peel(e)
        k = H.kind(e)
        if k == "lit" and e[2][0] == "int":
            try:
                return Val.const(int(e[2][1]))
            except ValueError:
                return None
        if k == "path" and e[3] == "local":
            nm = e[2].split("::")[-1]
            i = env.vars.get(nm)
            if i in env.ints:
                return env.ints[i].copy()
            return Val(0) if self.unsigned(e[4] if len(e) > 4 else "") else None
        if k == "path":
            v = H.int_lit(e)  # a named integer constant stands for its value
            return Val.const(v) if v is not None else None
        if k == "un" and e[2] == "Deref":
            return self.iv(e[3], env)
        if k == "ref":
            return self.iv(e[3], env)
        if k == "cast":
            v = self.iv(e[2], env)
            if v is None:
                return Val(0) if self.unsigned(str(e[4])) else None
            if self.unsigned(str(e[3])) and self.unsigned(str(e[4])) and self.width(str(e[4])) >= self.width(str(e[3])):
                return v
            return Val(0, v.hi if v.hi is not None and v.hi < 2 ** self.width(str(e[4])) else None) if self.unsigned(str(e[4])) else None
        if k == "mcall":
            name = e[3]
            if name == "len" and not e[5]:
                kk = self.key(e[4], env)
                lo = self.seq_len(e[4], env)
                return Val(lo, None, {kk: 0} if kk else {}, kk)
            if name in ("position", "rposition") and e[5]:
                src = e[4]
                if H.kind(H.peel(src)) == "mcall" and H.peel(src)[3] in ("iter", "bytes", "iter_mut"):
                    kk = self.key(H.peel(src)[4], env)
                    return Val(0, None, {kk: -1} if kk else {})
                return Val(0)
            if name == "unwrap_or" and len(e[5]) == 1:
                return join(self.iv(e[4], env), self.iv(e[5][0], env))
            if name == "min" and len(e[5]) == 1:
                return meet(self.iv(e[4], env), self.iv(e[5][0], env))
            if name == "max" and len(e[5]) == 1:
                return join(self.iv(e[4], env), self.iv(e[5][0], env))
            if name in ("saturating_sub",) and len(e[5]) == 1:
                a = self.iv(e[4], env)
                return Val(0, a.hi if a else None, a.rel if a else {})
            return Val(0) if self.unsigned(str(e[7]) if len(e) > 7 else "") else None
        if k == "call":
            c = H.callee(e) or ""
            args = H.call_args(e)
            if re.search(r"(::min|cmp::min)$", c) and len(args) == 2:
                return meet(self.iv(args[0], env), self.iv(args[1], env))
            if re.search(r"(::max|cmp::max)$", c) and len(args) == 2:
                return join(self.iv(args[0], env), self.iv(args[1], env))
            if c.endswith("::from") and len(args) == 1:
                return self.iv(args[0], env)
            return Val(0) if self.unsigned(str(e[4]) if len(e) > 4 else "") else None
        if k == "bin":
            op = e[2]
            a, b = self.iv(e[3], env), self.iv(e[4], env)
            if op == "Add" and a is not None and b is not None:
                hi = None if a.hi is None or b.hi is None else a.hi + b.hi
                rel = {}
                if b.hi is not None:
                    rel.update({k2: v + b.hi for k2, v in a.rel.items()})
                if a.hi is not None:
                    for k2, v in b.rel.items():
                        rel[k2] = min(rel.get(k2, v + a.hi), v + a.hi)
                return Val(a.lo + b.lo, hi, rel)
            if op == "Sub" and a is not None and b is not None:
                if b.hi is not None and a.lo >= b.hi:       # cannot wrap
                    hi = None if a.hi is None else a.hi - b.lo
                    return Val(a.lo - b.hi, hi, {k2: v - b.lo for k2, v in a.rel.items()})
                return Val(0)
            if op == "BitAnd" and b is not None and b.hi is not None:
                return Val(0, b.hi)
            if op == "BitAnd" and a is not None and a.hi is not None:
                return Val(0, a.hi)
            if op == "Rem" and b is not None and b.lo == b.hi and b.lo > 0:
                return Val(0, b.lo - 1)
            if op in ("Shr", "Div") and a is not None and b is not None and b.lo == b.hi and b.lo >= (1 if op == "Div" else 0):
                d = (1 << b.lo) if op == "Shr" else b.lo
                return Val(a.lo // d, None if a.hi is None else a.hi // d)
            if op == "Mul" and a is not None and b is not None:
                return Val(a.lo * b.lo, None if a.hi is None or b.hi is None else a.hi * b.hi)
            return Val(0)
        if k == "block" and not e[2] and e[3] is not None:
            return self.iv(e[3], env)
        if k == "if" and e[4] is not None:
            return join(self.iv(e[3], self.refine(e[2], env.clone(), True)), self.iv(e[4], self.refine(e[2], env.clone(), False)))
        return None

    @staticmethod
    def unsigned(t):
        t = t.strip()
        return t in ("usize", "u8", "u16", "u32", "u64", "u128")

    @staticmethod
    def width(t):
        return {"u8": 8, "u16": 16, "u32": 32, "u64": 64, "usize": 64, "u128": 128}.get(t.strip(), 0)

    # ---------------------------------------------------------------- conditions
    def refine(self, c, env, truth):
        c = H.peel(c)
        k = H.kind(c)
        if k == "un" and c[2] == "Not":
            return self.refine(c[3], env, not truth)
        if k == "bin" and c[2] == "And":
            if truth:
                return self.refine(c[4], self.refine(c[3], env, True), True)
            return env
        if k == "bin" and c[2] == "Or":
            if not truth:
                return self.refine(c[4], self.refine(c[3], env, False), False)
            a, b = self.refine(c[3], env.clone(), True), self.refine(c[4], env.clone(), True)
            m = merge(a, b)
            env.minlen, env.ints = m.minlen, m.ints
            return env
        if k == "bin" and c[2] in ("Eq", "Ne") and (c[2] == "Eq") == truth:
            # x.last() == Some(..) / x.first() == Some(..): x is not empty
            for side, other in ((c[3], c[4]), (c[4], c[3])):
                sd, ot = H.peel(side), H.peel(other)
                if H.kind(sd) == "mcall" and sd[3] in ("last", "first") and not sd[5] and H.kind(ot) == "call" and (H.callee(ot) or "").endswith("Option::Some"):
                    kk = self.key(sd[4], env)
                    if kk is not None:
                        env.minlen[kk] = max(env.minlen.get(kk, 0), 1)
                    return env
        if k == "mcall" and c[3] == "is_empty" and not c[5]:
            kk = self.key(c[4], env)
            if kk is not None and not truth:
                env.minlen[kk] = max(env.minlen.get(kk, 0), 1)
            return env
        if k == "mcall" and c[3] == "starts_with" and truth and len(c[5]) == 1:
            kk = self.key(c[4], env)
            n = self.seq_len(c[5][0], env)
            l = H.lit(H.peel(c[5][0]))
            if l and l[0] == "char":
                n = 1
            if kk is not None and n:
                env.minlen[kk] = max(env.minlen.get(kk, 0), n)
            return env
        if k == "bin" and c[2] in ("Lt", "Le", "Gt", "Ge", "Eq", "Ne"):
            op = c[2]
            if not truth:
                op = {"Lt": "Ge", "Le": "Gt", "Gt": "Le", "Ge": "Lt", "Eq": "Ne", "Ne": "Eq"}[op]
            self.cmp_fact(c[3], op, c[4], env)
            flip = {"Lt": "Gt", "Le": "Ge", "Gt": "Lt", "Ge": "Le", "Eq": "Eq", "Ne": "Ne"}[op]
            self.cmp_fact(c[4], flip, c[3], env)
            return env
        if k == "let":
            # `if let PAT = e`: bind pattern variables on the true edge
            if truth:
                self.bind_pat(c[2], c[3], env)
            return env
        return env

    def cmp_fact(self, lhs, op, rhs, env):
        """record what `lhs op rhs` says about lhs"""
        r = self.iv(rhs, env)
        if r is None:
            return
        l = H.peel(lhs)
        target_len = None
        target_int = None
        if H.kind(l) == "mcall" and l[3] == "len" and not l[5]:
            target_len = self.key(l[4], env)
        elif H.kind(l) == "path" and l[3] == "local":
            i = env.vars.get(l[2].split("::")[-1])
            if i is not None:
                target_int = i
                if i in env.ints and env.ints[i].len_of:
                    target_len = env.ints[i].len_of
        lo = None
        if op in ("Ge", "Eq"):
            lo = r.lo
        elif op == "Gt":
            lo = r.lo + 1
        if target_len is not None and lo is not None:
            env.minlen[target_len] = max(env.minlen.get(target_len, 0), lo)
        if target_int is not None:
            v = env.ints.get(target_int, Val(0))
            if lo is not None:
                v.lo = max(v.lo, lo)
            if op in ("Le", "Eq") and r.hi is not None:
                v.hi = r.hi if v.hi is None else min(v.hi, r.hi)
            if op == "Lt" and r.hi is not None:
                v.hi = r.hi - 1 if v.hi is None else min(v.hi, r.hi - 1)
            if op in ("Le", "Eq", "Lt"):
                d = -1 if op == "Lt" else 0
                for k2, kv in r.rel.items():
                    v.rel[k2] = min(v.rel.get(k2, kv + d), kv + d)
            env.ints[target_int] = v

    # ---------------------------------------------------------------- patterns
    def bind_pat(self, p, init, env, val=None):
        """bind names of pattern p (fresh ids); carries integer/sequence facts for simple bindings and Some(x)"""
        if not isinstance(p, list) or not p:
            return
        k = p[0]
        if k == "pbind":
            i = env.bind(p[1])
            if val is not None:
                env.ints[i] = val
            if p[3]:
                self.bind_pat(p[3], None, env)
            return i
        if k in ("pts",):
            head = p[1].split("::")[-1]
            subs = p[3]
            if head == "Some" and len(subs) == 1 and init is not None:
                i0 = H.peel(init)
                if H.kind(i0) == "mcall" and i0[3] in ("last", "first", "split_last", "split_first", "last_mut", "first_mut") and not i0[5]:
                    kk = self.key(i0[4], env)
                    if kk is not None:
                        env.minlen[kk] = max(env.minlen.get(kk, 0), 1)
                v = self.iv(init, env)
                self.bind_pat(subs[0], None, env, v)
                return
            for q in subs:
                self.bind_pat(q, None, env)
            return
        if k == "pstruct":
            for f in p[3]:
                self.bind_pat(f[1], None, env)
            return
        if k == "ptuple":
            for q in p[1]:
                self.bind_pat(q, None, env)
            return
        if k == "por":
            # alternatives bind the same names; facts that hold for every alternative (e.g. Some(..) of x.last()) come from the first
            same_head = len({q[1] if q[0] == "pts" else q[0] for q in p[1]}) == 1
            for q in p[1][:1]:
                self.bind_pat(q, init if same_head else None, env)
            return
        if k in ("pref", "pbox", "pderef"):
            self.bind_pat(p[1], init, env, val)
            return
        if k == "pslice":
            return

    # ---------------------------------------------------------------- traversal
    def diverges(self, n):
        n = H.peel(n) if H.kind(n) != "block" else n
        k = H.kind(n)
        if k in ("ret", "break", "continue"):
            return True
        if k == "block":
            for s in n[2]:
                inner = s[2] if H.kind(s) in ("semi", "sexpr") else None
                if inner is not None and self.diverges(inner):
                    return True
            return n[3] is not None and self.diverges(n[3])
        if k == "if":
            return n[4] is not None and self.diverges(n[3]) and self.diverges(n[4])
        if k == "match":
            # `?` desugar: not divergent as a whole
            return bool(n[4]) and all(self.diverges(a[2]) for a in n[4])
        if k == "call":
            c = H.callee(n) or ""
            return c.startswith("core::panicking::") or c.startswith("std::rt::begin_panic") or c.endswith("::unreachable_unchecked")
        if k in ("semi", "sexpr"):
            return self.diverges(n[2])
        return False

    def assigned_in(self, n):
        out = set()
        for x in H.walk(n):
            if H.kind(x) in ("assign",):
                p = H.path_of(self.strip(x[2]))
                if p:
                    out.add(p.split("::")[-1])
            if H.kind(x) == "assignop":
                p = H.path_of(self.strip(x[3]))
                if p:
                    out.add(p.split("::")[-1])
            if H.kind(x) == "mcall" and x[3] not in NON_MUTATING:
                p = H.path_of(self.strip(x[4]))
                if p:
                    out.add(p.split("::")[-1])
            if H.kind(x) == "ref" and x[2] is True:
                p = H.path_of(self.strip(x[3]))
                if p:
                    out.add(p.split("::")[-1])
        return out

    def havoc(self, names, env):
        for nm in names:
            i = env.vars.get(nm)
            if i is not None:
                env.ints.pop(i, None)
                for k in list(env.minlen):
                    if k == i or str(k).startswith(i + "."):
                        env.minlen.pop(k)
            for k in list(env.minlen):
                if str(k).startswith(nm + "#0"):
                    env.minlen.pop(k)

    def site(self, line, kind, ok, why, text):
        self.sites.append({"line": line, "kind": kind, "ok": bool(ok), "why": why, "text": text[:120]})

    def check_index(self, n, env):
        base, idx = n[2], H.peel(n[3])
        bty = n[4] if len(n) > 4 and isinstance(n[4], str) else ""
        tn = bty.replace("&", "").replace("mut ", "").strip()
        seqlike = tn.startswith("[") or tn == "str" or tn.startswith("alloc::vec::Vec") or tn.startswith("smallvec::SmallVec") or tn.startswith("alloc::string::String") \
            or tn.startswith("bytes::") or tn.startswith("alloc::collections::vec_deque")
        if not seqlike:
            self.site(n[1], "index:other", False, f"indexing of {tn}", H.show(n, 5))
            return
        kind = "index:str" if tn in ("str", "alloc::string::String") else "index"
        blen = max(self.seq_len(base, env), self.ty_len(bty) or 0)
        bkey = self.key(base, env)

        def le_len(v, strict=False):
            """v <= len (or v < len when strict)"""
            if v is None:
                return False
            d = 1 if strict else 0
            if v.hi is not None and v.hi + d <= blen:
                return True
            if bkey is not None and bkey in v.rel and v.rel[bkey] + d <= 0:
                return True
            return False
        if H.kind(idx) == "struct" and idx[2].startswith("core::ops::range::"):
            nm = idx[2].split("::")[-1]
            f = {x[0]: x[1] for x in idx[4]}
            if nm == "Range":
                a, b = self.iv(f["start"], env), self.iv(f["end"], env)
                ok_end = le_len(b)
                ok_ord = a is not None and b is not None and ((a.hi is not None and a.hi <= b.lo) or (a.hi == 0))
                if not ok_ord and a is not None and b is not None:
                    # start <= end through a shared relational bound: start <= len(x)+k1 is not enough; accept start == const 0 only
                    ok_ord = a.lo == 0 and a.hi == 0
                self.site(n[1], kind, ok_end and ok_ord, f"len>={blen}; start={a} end={b}", H.show(n, 5))
            elif nm == "RangeFrom":
                a = self.iv(f["start"], env)
                self.site(n[1], kind, le_len(a), f"len>={blen}; start={a}", H.show(n, 5))
            elif nm == "RangeTo":
                b = self.iv(f["end"], env)
                self.site(n[1], kind, le_len(b), f"len>={blen}; end={b}", H.show(n, 5))
            elif nm == "RangeToInclusive":
                b = self.iv(f["end"], env)
                self.site(n[1], kind, le_len(b, True), f"len>={blen}; end={b}", H.show(n, 5))
            elif nm == "RangeFull":
                self.site(n[1], kind, True, "full range", H.show(n, 5))
            else:
                self.site(n[1], kind, False, "unsupported range form " + nm, H.show(n, 5))
            return
        if H.kind(idx) == "path" and idx[2].endswith("RangeFull"):
            self.site(n[1], kind, True, "full range", H.show(n, 5))
            return
        if H.kind(idx) == "call" and (H.callee(idx) or "").endswith("RangeInclusive::<Idx>::new"):
            a, b = [self.iv(x, env) for x in H.call_args(idx)]
            self.site(n[1], kind, le_len(b, True) and a is not None and a.hi is not None and b is not None and a.hi <= b.lo + 1, f"len>={blen}; {a}..={b}", H.show(n, 5))
            return
        v = self.iv(idx, env)
        self.site(n[1], kind, le_len(v, True), f"len>={blen}; index={v}", H.show(n, 5))

    def ev(self, n, env):
        """walk expression n, checking sites, threading env (mutated in place for straight-line code)"""
        if not H.is_node(n):
            if isinstance(n, list):
                for x in n:
                    self.ev(x, env)
            return
        k = H.kind(n)
        if k == "block":
            saved = dict(env.vars)
            for s in n[2]:
                self.stmt(s, env)
            if n[3] is not None:
                self.ev(n[3], env)
            env.vars = saved
            return
        if k == "if":
            self.ev_cond(n[2], env)
            t_env = self.refine(n[2], env.clone(), True)
            self.ev(n[3], t_env)
            f_env = self.refine(n[2], env.clone(), False)
            if n[4] is not None:
                self.ev(n[4], f_env)
            td, fd = self.diverges(n[3]), (n[4] is not None and self.diverges(n[4]))
            if td and not fd:
                new = f_env
            elif fd and not td:
                new = t_env
            elif td and fd:
                new = f_env
            else:
                new = merge(t_env, f_env)
            # keep only bindings of the outer scope
            env.minlen = {kk: v for kk, v in new.minlen.items()}
            env.ints = {i: v for i, v in new.ints.items()}
            return
        if k == "match":
            self.ev(n[2], env)
            scr = H.peel(n[2])
            sv = self.iv(scr, env) if str(n[3]).strip() in ("usize", "u8", "u16", "u32", "u64", "i32", "i64", "isize") else None
            outs = []
            prev = []
            for arm in n[4]:
                p, g, b = arm[0], arm[1], arm[2]
                a_env = env.clone()
                if sv is not None:
                    self.bind_int_pat(p, sv, scr, a_env)
                else:
                    self.bind_pat(p, scr, a_env)
                # an earlier arm with the same pattern and a guard was not taken: its guard is false here
                for pp, pg in prev:
                    if pp == H.show_pat(p):
                        a_env = self.refine(pg, a_env, False)
                if g is not None:
                    prev.append((H.show_pat(p), g))
                if g is not None:
                    self.ev_cond(g, a_env)
                    a_env = self.refine(g, a_env, True)
                self.ev(b, a_env)
                if not self.diverges(b):
                    outs.append(a_env)
            if outs:
                new = outs[0]
                for o in outs[1:]:
                    new = merge(new, o)
                env.minlen = {kk: v for kk, v in new.minlen.items() if kk in env.minlen or True}
                env.ints = {i: v for i, v in new.ints.items()}
            return
        if k == "loop":
            names = self.assigned_in(n)
            self.havoc(names, env)
            body_env = env.clone()
            self.ev(n[2] if len(n) > 2 else None, body_env)
            for x in n[3:]:
                if H.is_node(x):
                    self.ev(x, body_env)
            self.havoc(names, env)
            return
        if k == "closure":
            c_env = env.clone()
            for prm in (n[3] or []):
                if isinstance(prm, list):
                    self.bind_pat(prm, None, c_env)
                elif isinstance(prm, str):
                    c_env.bind(prm)
            self.ev(n[4], c_env)
            return
        if k == "index":
            self.ev(n[2], env)
            self.ev(n[3], env)
            self.check_index(n, env)
            return
        if k == "mcall":
            self.ev(n[4], env)
            for a in n[5]:
                self.ev(a, env)
            name = n[3]
            if name in ("split_at", "split_at_mut", "split_at_checked") and len(n[5]) == 1 and name != "split_at_checked":
                rty = str(n[6]) if len(n) > 6 else ""
                v = self.iv(n[5][0], env)
                blen = self.seq_len(n[4], env)
                bkey = self.key(n[4], env)
                ok = v is not None and ((v.hi is not None and v.hi <= blen) or (bkey in v.rel and v.rel[bkey] <= 0))
                self.site(n[1], "split_at:str" if "str" in rty.replace("&", "").split("<")[0] and "[" not in rty else "split_at", ok, f"len>={blen}; mid={v}", H.show(n, 5))
            if name not in NON_MUTATING:
                p = H.path_of(self.strip(n[4]))
                kk = self.key(n[4], env)
                if kk is not None:
                    for k2 in list(env.minlen):
                        if k2 == kk or str(k2).startswith(str(kk) + "."):
                            if name in ("push", "extend", "extend_from_slice", "push_str", "push_back", "insert", "resize_with") and name != "resize_with":
                                continue  # growing keeps a lower bound
                            env.minlen.pop(k2)
                    if name in ("resize", "resize_with") and n[5]:
                        v = self.iv(n[5][0], env)
                        if v is not None:
                            env.minlen[kk] = v.lo
            return
        if k == "assign":
            self.ev(n[3], env)
            tgt = self.strip(n[2])
            if H.kind(tgt) == "index":
                self.ev(tgt[2], env)
                self.ev(tgt[3], env)
                self.check_index(tgt, env)
            nm = H.path_of(tgt)
            if nm and H.kind(tgt) == "path" and tgt[3] == "local":
                i = env.vars.get(nm.split("::")[-1])
                if i is not None:
                    v = self.iv(n[3], env)
                    if v is not None:
                        env.ints[i] = v
                    else:
                        env.ints.pop(i, None)
                    env.minlen[i] = self.seq_len(n[3], env)
            else:
                kk = self.key(n[2], env)
                if kk is not None:
                    env.minlen[kk] = self.seq_len(n[3], env)
            return
        if k == "assignop":
            self.ev(n[4], env)
            tgt = self.strip(n[3])
            if H.kind(tgt) == "index":
                self.ev(tgt[2], env)
                self.ev(tgt[3], env)
                self.check_index(tgt, env)
            nm = H.path_of(tgt)
            if nm and H.kind(tgt) == "path" and tgt[3] == "local":
                i = env.vars.get(nm.split("::")[-1])
                if i is not None and i in env.ints:
                    a, b = env.ints[i], self.iv(n[4], env)
                    if n[2] in ("Add", "AddAssign") and b is not None and b.hi is not None:
                        env.ints[i] = Val(a.lo + b.lo, None if a.hi is None else a.hi + b.hi, {k2: v + b.hi for k2, v in a.rel.items()})
                    else:
                        env.ints.pop(i, None)
            return
        if k in ("slet", "semi", "sexpr"):
            self.stmt(n, env)
            return
        if k == "ref" and n[2] is True:
            # a mutable borrow of a growable container may change its length; slices and arrays keep theirs
            tgt = self.strip(n[3])
            ty = ""
            if H.kind(tgt) == "path" and len(tgt) > 4:
                ty = str(tgt[4])
            elif H.kind(tgt) == "field" and len(tgt) > 4:
                ty = str(tgt[4])
            if H.kind(tgt) in ("path", "field") and not re.match(r"^(&|mut |'\w+ )*\[", ty.strip()):
                kk = self.key(tgt, env)
                if kk is not None:
                    for k2 in list(env.minlen):
                        if k2 == kk or str(k2).startswith(str(kk) + "."):
                            env.minlen.pop(k2)
        if k == "call":
            c = H.callee(n) or ""
            m = re.search(r"byteorder::ByteOrder>?::(read|write)_([uif])(\d+)$", c)
            if m:
                args = H.call_args(n)
                for a in args:
                    self.ev(a, env)
                need = int(m.group(3)) // 8
                have = self.seq_len(args[0], env) if args else 0
                self.site(n[1], "byteorder", have >= need, f"slice len>={have}; needs {need}", H.show(n, 5))
                return
        for c in H.children(n):
            self.ev(c, env)

    def ev_cond(self, c, env):
        """evaluate sites inside a condition, honouring short-circuit refinement (a && b: b sees a true)"""
        c0 = H.peel(c)
        if H.kind(c0) == "bin" and c0[2] == "And":
            self.ev_cond(c0[3], env)
            self.ev_cond(c0[4], self.refine(c0[3], env.clone(), True))
            return
        if H.kind(c0) == "bin" and c0[2] == "Or":
            self.ev_cond(c0[3], env)
            self.ev_cond(c0[4], self.refine(c0[3], env.clone(), False))
            return
        if H.kind(c0) == "un" and c0[2] == "Not":
            self.ev_cond(c0[3], env)
            return
        if H.kind(c0) == "let":
            self.ev(c0[3], env)
            return
        self.ev(c0, env)

    def bind_int_pat(self, p, sv, scr, env):
        k = p[0] if isinstance(p, list) and p else None
        if k == "plit" and p[1][0] == "int":
            c = int(p[1][1])
            self.cmp_fact(scr, "Eq", ["lit", 0, ["int", str(c)], "usize"], env)
        elif k == "pbind":
            i = env.bind(p[1])
            v = sv.copy()
            env.ints[i] = v
        elif k == "por":
            # facts common to all alternatives: lower bound = min of literals
            lits = [int(q[1][1]) for q in p[1] if q[0] == "plit" and q[1][0] == "int"]
            if lits and len(lits) == len(p[1]):
                self.cmp_fact(scr, "Ge", ["lit", 0, ["int", str(min(lits))], "usize"], env)
        elif k == "prange":
            lo = p[1]
            if lo and lo[0] == "plit":
                self.cmp_fact(scr, "Ge", ["lit", 0, ["int", lo[1][1]], "usize"], env)

    def stmt(self, s, env):
        k = H.kind(s)
        if k in ("semi", "sexpr"):
            self.ev(s[2], env)
            return
        if k == "slet":
            pat, init, els = s[2], s[3], s[4] if len(s) > 4 else None
            sl = None
            v = None
            if init is not None:
                self.ev(init, env)
                sl = self.seq_len(init, env)
                v = self.iv(init, env)
                tup = None
                i0 = H.peel(init)
                if H.kind(i0) == "mcall" and i0[3] in ("split_at", "split_at_mut") and len(i0[5]) == 1:
                    mv = self.iv(i0[5][0], env)
                    bl = self.seq_len(i0[4], env)
                    bk = self.key(i0[4], env)
                    rest = (bl - mv.hi) if mv and mv.hi is not None else 0
                    if mv and bk in mv.rel:
                        rest = max(rest, -mv.rel[bk])
                    tup = (mv.lo if mv else 0, rest)
            if isinstance(pat, list) and pat and pat[0] == "pbind":
                i = env.bind(pat[1])
                if sl:
                    env.minlen[i] = sl
                if v is not None:
                    env.ints[i] = v
            elif isinstance(pat, list) and pat and pat[0] == "ptuple" and init is not None and tup is not None and len(pat[1]) == 2:
                for q, ln_ in zip(pat[1], tup):
                    if q[0] == "pbind":
                        i = env.bind(q[1])
                        env.minlen[i] = max(ln_, 0)
                    else:
                        self.bind_pat(q, None, env)
            else:
                self.bind_pat(pat, init, env)
            if els is not None:
                self.ev(els, env.clone())
            return
        self.ev(s, env)

    def run(self):
        env = Env()
        for prm in self.fn.get("params") or []:
            if isinstance(prm, str):
                env.bind(prm)
            elif isinstance(prm, list):
                self.bind_pat(prm, None, env)
        self.ev(self.fn["body"], env)
        return self.sites


def analyse(hirfn):
    return Analysis(hirfn).run()
