"""CAST/GUARD helpers on MIR: range guards that dominate a narrowing cast."""
import re

from . import mirq as M

NAMED = {"u8>::MAX": 255, "u16>::MAX": 65535, "u32>::MAX": 4294967295, "i8>::MAX": 127, "i16>::MAX": 32767}


def const_value(o):
    """integer value of an origin tuple ('const', text, ty) if known"""
    if o[0] != "const":
        return None
    t = str(o[1])
    if re.fullmatch(r"-?\d+", t):
        return int(t)
    for k, v in NAMED.items():
        if k in t:
            return v
    m = re.match(r"(-?\d+)_[iu](8|16|32|64|128|size)$", t)
    if m:
        return int(m.group(1))
    return None


def narrowing_casts(f, to_types=("u8", "u16", "u32"), from_types=None):
    out = []
    order = {"u8": 8, "u16": 16, "u32": 32, "u64": 64, "usize": 64, "i32": 32, "i64": 64, "i16": 16, "i8": 8, "u128": 128, "isize": 64}
    for bb, j, s in M.assigns(f):
        r = s["r"]
        if r["rv"] == "cast" and r["kind"] == "IntToInt" and r["to"] in to_types:
            fr = r["from"]
            if from_types is not None and fr not in from_types:
                continue
            if order.get(fr, 0) > order.get(r["to"], 0):
                out.append((bb, j, s))
    return out


def upper_bound_guard(f, cast_bb, src_origin, limit, dom=None, rc=None):
    """Is the block `cast_bb` dominated by a comparison of the value `src_origin` (an origin tuple) against a constant
    such that on the edge leading to the cast the value is <= limit, and the other edge cannot reach the cast and
    reaches only error returns?  Returns (ok, explanation)."""
    dom = dom or M.dominators(f)
    rc = rc if rc is not None else M.ret_classes(f)
    why = "no dominating comparison of the cast operand with a constant"
    for d in sorted(dom.get(cast_bb, ())):
        t = f["blocks"][d]["t"]
        if t["t"] != "switch" or t["ty"] != "bool":
            continue
        cl = M.op_local(t["o"])
        if cl is None:
            continue
        defs = [x for x in M.defs_of(f, cl) if x[0] == "stmt"]
        if len(defs) != 1 or defs[0][3]["r"]["rv"] != "bin":
            continue
        r = defs[0][3]["r"]
        a, b = M.origin(f, r["a"]), M.origin(f, r["b"])
        op = r["op"]
        if a == src_origin and const_value(b) is not None:
            c = const_value(b)
        elif b == src_origin and const_value(a) is not None:
            c = const_value(a)
            op = {"Gt": "Lt", "Lt": "Gt", "Ge": "Le", "Le": "Ge"}.get(op, op)
        else:
            continue
        true_bb = t["else"]
        false_bbs = [v[1] for v in t["vals"] if v[0] == "0"]
        if not false_bbs:
            continue
        false_bb = false_bbs[0]
        on_true = true_bb == cast_bb or true_bb in dom[cast_bb]
        on_false = false_bb == cast_bb or false_bb in dom[cast_bb]
        if on_true == on_false:
            continue
        if on_true:
            bound = {"Lt": c - 1, "Le": c}.get(op)
            other = false_bb
        else:
            bound = {"Gt": c, "Ge": c - 1}.get(op)
            other = true_bb
        if bound is None:
            why = f"bb{d}: comparison `{op} {c}` does not bound the value from above on the cast edge"
            continue
        if bound > limit:
            why = f"bb{d}: bound {bound} exceeds {limit}"
            continue
        reach = M.reachable(f, other)
        if cast_bb in reach:
            why = f"bb{d}: the out-of-range edge still reaches the cast"
            continue
        errs = [x for x in reach if rc.get(x) == "err"]
        oks = [x for x in reach if rc.get(x) == "ok"]
        if errs and not oks:
            return True, f"bb{d}: value <= {bound} on the cast edge; out-of-range edge returns Err"
        why = f"bb{d}: out-of-range edge does not end in an error return only (err={len(errs)}, ok={len(oks)})"
    return False, why
