"""C04 — encoded output has exact lengths and VR-specific padding.

1. padding-byte: the three padding sites of StatefulEncoder choose NUL/SPACE per VR as refs/vr.tsv says.
2. bytes-written (ACC): on every Ok path of every StatefulEncoder method, bytes handed to `self.to` equal the
   amount added to `self.bytes_written`.
3. unit-width (SIB): per PrimitiveValue variant, calculate_byte_len's multiplier, encode_primitive's reported
   count and the width of the basic encoder callee agree.
4. even-round: every copy of "round up to even" is `(x + 1) & !1`, and the header-writing methods route every
   defined length through it.
"""
import re

from . import facts, hirq as H, common as C, acc, accmodels

LEVEL_TEXT = ("All StatefulEncoder methods are interpreted symbolically on all paths (byte accounting as polynomial identities); "
              "padding tables are total over the 34 VRs; unit widths are compared for all 16 PrimitiveValue variants across three "
              "sibling tables. Decides the structure that makes lengths exact, not the bytes of executed output.")

SE = "dicom_parser::stateful::encode::StatefulEncoder"
PV = "dicom_core::value::primitive::PrimitiveValue"
WIDTH = {"us": 2, "ss": 2, "ul": 4, "sl": 4, "fl": 4, "uv": 8, "sv": 8, "fd": 8}


def byte_lit(n):
    """value of a byte/int literal expression like b' ' / b'\\0' / 0"""
    return H.int_lit(n)


def run(chk, tier):
    fx = facts.load("W")
    ref = C.vr_ref()
    variants = fx.variants(C.VR_ENUM)
    chk.analysed["facts"] = fx.meta
    chk.assume("Write::write_all writes the whole slice or fails; Encode/EncodeTo impls write what they report (header sizes checked in C03)")
    chk.assume("refs/vr.tsv transcribes PS3.5 6.2 / 7.1.1 padding rules")

    # ---------- rule 1: padding
    chk.rule("padding-byte", "odd-length values are padded with NUL for UI and binary VRs, SPACE for other text VRs, at every padding site")
    for fn in ("encode_text_element", "encode_texts_element"):
        h = fx.hirfn(f"{SE}::<W, E>::{fn}")
        pads = [x for x in H.walk(h["body"]) if H.kind(x) == "slet" and H.pat_bindings(x[2]) == ["pad"]]
        chk.expect(len(pads) == 1, "padding-byte", fn, "pad-binding", "one `let pad = ...`", len(pads), loc=C.fn_loc(h))
        if len(pads) != 1:
            continue
        e = H.peel(pads[0][3])
        ok = False
        detail = H.show(e, 6)
        if H.kind(e) == "if":
            cond = H.peel(e[2])
            is_ui = H.kind(cond) == "bin" and cond[2] == "Eq" and (
                (H.path_of(cond[4]) == C.VR_ENUM + "::UI" and H.show(cond[3]).endswith(".vr")) or
                (H.path_of(cond[3]) == C.VR_ENUM + "::UI" and H.show(cond[4]).endswith(".vr")))
            ok = is_ui and byte_lit(e[3]) == 0 and byte_lit(e[4]) == 32
        for v in variants:
            if ref[v]["kind"] == "text":
                want = ref[v]["pad"]
                got = ("NUL" if v == "UI" else "SPACE") if ok else "unrecognised:" + detail
                chk.expect(got == want, "padding-byte", fn, v, want, got, loc=f"{h['loc']['f']}:{pads[0][1]}")
        # the pad is pushed only when the length is odd
        pushes = [x for x in H.walk(h["body"]) if H.kind(x) == "if" and any(H.kind(y) == "mcall" and y[3] == "push" and H.path_of(y[5][0]) == "pad" for y in H.walk(x[3]))]
        good = len(pushes) == 1 and "Rem" in H.show(pushes[0][2], 6) and H.show(pushes[0][2], 6).rstrip(")").endswith("1")
        chk.expect(good, "padding-byte", fn, "pad-iff-odd", "if len % 2 == 1 { push(pad) }", [H.show(p[2], 6) for p in pushes])
        # one buffer: the buffer whose length is tested for oddness, the one padded, the one measured for the header
        # and the one written must be the same place (otherwise declared length and written bytes can differ)
        from .acc import place_text
        written = [place_text(H.call_args(x)[1]) for c, x in H.calls(h["body"]) if c and c.endswith("io::Write::write_all")]
        padded = [place_text(y[4]) for p_ in pushes for y in H.walk(p_[3]) if H.kind(y) == "mcall" and y[3] == "push" and H.path_of(y[5][0]) == "pad"]
        tested = [place_text(y[4]) for p_ in pushes for y in H.walk(p_[2]) if H.kind(y) == "mcall" and y[3] == "len"]
        hdr_calls = [x for x in H.walk(h["body"]) if H.kind(x) == "mcall" and x[3] == "encode_element_header"]
        measured = [place_text(y[4]) for x in hdr_calls for y in H.walk(x) if H.kind(y) == "mcall" and y[3] == "len"]
        same = len(written) == 1 and padded == written and tested == written and measured == written
        chk.expect(same, "padding-byte", fn, "one-buffer", "tested, padded, measured (header length) and written buffer are the same place",
                   {"tested": tested, "padded": padded, "measured": measured, "written": written}, loc=C.fn_loc(h))
    # binary path of encode_primitive_element
    h = fx.hirfn(f"{SE}::<W, E>::encode_primitive_element")
    pms = [x for x in H.walk(h["body"]) if H.kind(x) == "slet" and H.pat_bindings(x[2]) == ["padding"]]
    chk.expect(len(pms) == 1, "padding-byte", "encode_primitive_element", "padding-binding", "one `let padding = match de.vr`", len(pms), loc=C.fn_loc(h))
    if len(pms) == 1:
        m = H.peel(pms[0][3])
        if H.kind(m) != "match" or m[3].lstrip("&") != C.VR_ENUM:
            raise facts.MissingAnchor("encode_primitive_element: padding match over VR")
        table, arms = H.enum_table(m, variants, C.VR_ENUM)
        for v in variants:
            idxs = table[v]
            val = byte_lit(arms[idxs[0]][2]) if idxs else None
            got = {0: "NUL", 32: "SPACE"}.get(val, f"?{val}")
            kind = ref[v]["kind"]
            if kind in ("num", "bytes", "tag") or v in ("DA", "DT", "TM"):
                # values of these VRs reach the binary path as non-string primitives (numbers, bytes, tags, date/time variants)
                chk.expect(got == ref[v]["pad"], "padding-byte", "encode_primitive_element", v, ref[v]["pad"], got,
                           loc=f"{h['loc']['f']}:{arms[idxs[0]][3] if idxs else 0}")
        # DS / IS binary values go through encode_element_as_text (space padding)
        ifl = [x for x in H.walk(h["body"]) if H.kind(x) == "if" and H.kind(H.peel(x[2])) == "let"]
        routed = False
        for x in ifl:
            lt = H.peel(x[2])
            alts = {H.pat_head(a)[1].split("::")[-1] for a in H.pat_alts(lt[2]) if H.pat_head(a)[0] == "variant"}
            if alts == {"DS", "IS"} and any((c or "").endswith("encode_element_as_text") for c, _ in H.calls(x[3])):
                routed = True
        chk.expect(routed, "padding-byte", "encode_primitive_element", "DS/IS-binary-as-text", "if let DS|IS = de.vr => encode_element_as_text", routed)
    h = fx.hirfn(f"{SE}::<W, E>::encode_element_as_text")
    sp = [x for c, x in H.calls(h["body"]) if c and c.endswith("io::Write::write_all") and H.kind(H.peel(H.call_args(x)[1])) == "lit"]
    chk.expect(len(sp) == 1 and H.peel(H.call_args(sp[0])[1])[2][1] == " ", "padding-byte", "encode_element_as_text", "DS/IS", "SPACE",
               [H.show(x) for x in sp], loc=C.fn_loc(h))
    h = fx.hirfn(f"{SE}::<W, E>::write_bytes")
    arr = [H.peel(H.call_args(x)[1]) for c, x in H.calls(h["body"]) if c and c.endswith("io::Write::write_all")]
    lits = [[H.int_lit(e) for e in a[2]] for a in arr if H.kind(a) == "array"]
    chk.expect(lits == [[0]], "padding-byte", "write_bytes", "raw-bytes", "[0]", lits, loc=C.fn_loc(h))

    # ---------- rule 2: ACC
    chk.rule("bytes-written", "ACC: on every Ok path of every StatefulEncoder method, bytes handed to self.to == bytes added to self.bytes_written")
    hs = fx.find_hir("dicom_parser", lambda p: p.startswith(SE + "::<W, E>::"))
    model = accmodels.EncoderModel()
    n_fns = 0
    present = set()
    for h in sorted(hs, key=lambda x: x["path"]):
        short = h["path"].split("::")[-1]
        present.add(short)
        try:
            recs = acc.check_fn(model, h, short)
        except acc.Unknown as e:
            chk.bad("bytes-written", short, "shape", "a shape the byte-movement model knows", str(e), loc=C.fn_loc(h))
            continue
        relevant = [r for r in recs if r["moved"] != "0" or r["acct"] != "0"]
        if not relevant:
            # functions that only call balanced siblings still count as verified members when they are in the balanced set
            continue
        n_fns += 1
        seen = set()
        for r in recs:
            if r["outcome"] == "err":
                continue
            key = (r["outcome"], r["moved"], r["acct"])
            if key in seen:
                continue
            seen.add(key)
            chk.expect(r["balanced"], "bytes-written", short, f"path[{r['outcome']}]:written={r['moved']};accounted={r['acct']}",
                       "written == accounted", f"written {r['moved']} vs accounted {r['acct']}", loc=C.fn_loc(h), detail={"trace": r["trace"]})
        if short == "write_bytes":
            chk.sample({"rule": "bytes-written", "fn": short, "paths": recs})
    missing = model.balanced_self_methods - present
    chk.expect(not missing, "bytes-written", "StatefulEncoder", "balanced-callees-all-verified", "every sibling treated as balanced is itself analysed", sorted(missing))
    chk.floor("bytes-written", "encoder methods writing to the stream", n_fns, 11)

    # constants agree with the Encode impls: item header / delimiters write 8 bytes (C03 header-layout checks the buffers);
    # encode_offset_table reports 4 * len in all three encoders
    for enc in ("explicit_le::ExplicitVRLittleEndianEncoder", "explicit_be::ExplicitVRBigEndianEncoder", "implicit_le::ImplicitVRLittleEndianEncoder"):
        h = fx.hirfn(f"<dicom_encoding::encode::{enc} as dicom_encoding::encode::Encode>::encode_offset_table")
        oks = [x for x in H.walk(h["body"]) if H.kind(x) == "call" and (H.callee(x) or "").endswith("Result::Ok")]
        txt = [H.show(x[3][0], 5) for x in oks]
        calls = [c.split("::")[-1] for c, _ in H.calls(h["body"]) if c and "BasicEncode::encode_" in c]
        chk.expect(txt == ["(offset_table.len() Mul 4)"] and calls == ["encode_ul"], "bytes-written", enc.split("::")[-1], "encode_offset_table",
                   "one encode_ul per entry, Ok(len * 4)", {"ok": txt, "calls": calls}, loc=C.fn_loc(h))

    # ---------- rule 3: unit widths
    chk.rule("unit-width", "per PrimitiveValue variant: calculate_byte_len multiplier == encode_primitive reported multiplier == width of the basic encoder call")
    pvars = fx.variants(PV)
    h1 = fx.hirfn(f"{PV}::calculate_byte_len")
    m1 = H.matches_over(h1["body"], lambda t: t == PV)
    h2 = fx.hirfn("dicom_encoding::encode::BasicEncode::encode_primitive")
    m2 = H.matches_over(h2["body"], lambda t: t == PV)
    if len(m1) != 1 or len(m2) != 1:
        raise facts.MissingAnchor("calculate_byte_len / encode_primitive: match over PrimitiveValue")
    t1, a1 = H.enum_table(m1[0], pvars, PV)
    t2, a2 = H.enum_table(m2[0], pvars, PV)

    def mult(e):
        """k for expressions `x.len() * k` / `x.len()`; None otherwise"""
        e = H.peel(e)
        if H.kind(e) == "bin" and e[2] == "Mul" and H.kind(H.peel(e[3])) == "mcall" and H.peel(e[3])[3] == "len":
            return H.int_lit(e[4])
        if H.kind(e) == "mcall" and e[3] == "len":
            return 1
        if H.int_lit(e) == 0:
            return 0
        return None

    want = {"Empty": 0, "U8": 1, "I16": 2, "U16": 2, "I32": 4, "U32": 4, "I64": 8, "U64": 8, "F32": 4, "F64": 8, "Tags": 4}
    enc_for = {"I16": ["ss"], "U16": ["us"], "I32": ["sl"], "U32": ["ul"], "I64": ["sv"], "U64": ["uv"], "F32": ["fl"], "F64": ["fd"], "Tags": ["us", "us"]}
    chk.expect(set(want) <= set(pvars), "unit-width", "PrimitiveValue", "variants", sorted(want), sorted(pvars))
    for v in pvars:
        i1, i2 = t1[v], t2[v]
        if not i1 or not i2:
            chk.bad("unit-width", v, "arm-present", "an arm in both tables", {"byte_len": i1, "encode": i2})
            continue
        b1, b2 = a1[i1[0]][2], a2[i2[0]][2]
        if v in want:
            k1 = mult(b1)
            oks = [x for x in H.walk(b2) if H.kind(x) == "call" and (H.callee(x) or "").endswith("Result::Ok")]
            k2 = mult(oks[-1][3][0]) if oks else None
            chk.expect(k1 == want[v] and k2 == want[v], "unit-width", v, "multipliers", want[v], {"calculate_byte_len": k1, "encode_primitive": k2},
                       loc=f"{h2['loc']['f']}:{a2[i2[0]][3]}")
            if v in enc_for:
                cs = [c.split("::")[-1].replace("encode_", "") for c, _ in H.calls(b2) if c and "BasicEncode::encode_" in c]
                wsum = sum(WIDTH.get(c, 0) for c in cs)
                chk.expect(cs == enc_for[v] and wsum == want[v], "unit-width", v, "basic-encoder-callee", enc_for[v], cs, loc=f"{h2['loc']['f']}:{a2[i2[0]][3]}")
        else:
            # textual variants: byte_len is even-rounded sum(len+1) ; encode side uses the delimited-collection helper
            txt = H.show(b1, 8)
            if v == "Str":
                chk.expect(mult(b1) == 1, "unit-width", v, "byte_len", "s.len()", txt)
            else:
                # structurally: <the arm's collection>.iter().map(|x| <length of x as written> + 1).sum() & !1 — the length of each value as it is
                # stored (s.len() / da|tm|dt_byte_len(x)), not of a trimmed or re-rendered copy
                bind = H.pat_bindings(a1[i1[0]][0]) if i1 else []
                e = H.peel(b1)
                ok = False
                detail = txt
                if H.kind(e) == "bin" and e[2] == "BitAnd" and H.kind(H.peel(e[4])) == "un" and H.peel(e[4])[2] == "Not" and H.int_lit(H.peel(e[4])[3]) == 1:
                    names = []
                    n_ = H.peel(e[3])
                    clos = None
                    while H.kind(n_) == "mcall":
                        names.append(n_[3])
                        if n_[3] == "map" and n_[5]:
                            clos = H.peel(n_[5][0])
                        n_ = H.peel(n_[4])
                    root = H.path_of(n_)
                    per = None
                    if clos is not None and H.kind(clos) == "closure":
                        cb = H.peel(clos[4])
                        if H.kind(cb) == "bin" and cb[2] == "Add" and H.int_lit(cb[4]) == 1:
                            t_ = H.peel(cb[3])
                            if H.kind(t_) == "mcall" and t_[3] == "len" and H.kind(H.peel(t_[4])) == "path":
                                per = "len"
                            elif H.kind(t_) == "call" and re.search(r"::(da|tm|dt)_byte_len$", H.callee(t_) or ""):
                                per = (H.callee(t_) or "").split("::")[-1]
                    want_per = {"Strs": "len", "Date": "da_byte_len", "Time": "tm_byte_len", "DateTime": "dt_byte_len"}.get(v)
                    ok = list(reversed(names)) == ["iter", "map", "sum"] and root in bind and per == want_per
                    detail = {"chain": list(reversed(names)), "root": root, "per-value": per}
                chk.expect(ok, "unit-width", v, "byte_len", "(<values>.iter().map(|x| stored_len(x) + 1).sum()) & !1", detail)
                cs = [c.split("::")[-1] for c, _ in H.calls(b2) if c]
                chk.expect("encode_collection_delimited" in cs, "unit-width", v, "encode", "encode_collection_delimited", cs)
    # encode_collection_delimited: n-1 separators, returns accumulated count
    h = fx.hirfn("dicom_encoding::encode::encode_collection_delimited")
    txt = H.show(h["body"], 14)
    lits = [x[2][1] for x in H.walk(h["body"]) if H.kind(x) == "lit" and x[2][0] in ("bstr", "str", "int", "char")]
    chk.sample({"rule": "unit-width", "fn": "encode_collection_delimited", "literals": lits})
    sep_writes = [x for c, x in H.calls(h["body"]) if c and c.endswith("write_all")]
    chk.expect(len(sep_writes) == 1 and any(l == "\\" or l == "92" for l in lits), "unit-width", "encode_collection_delimited", "separator", "one write of a backslash between items", lits, loc=C.fn_loc(h))
    # the count it returns is what it wrote: the separator byte is counted in the block that writes it, every element count is accumulated, Ok(acc) is returned
    # (encode_primitive_element decides on the padding byte from the parity of this count)
    counted = False
    for x, anc in H.walk_anc(h["body"]):
        if sep_writes and x is sep_writes[0]:
            blk = None
            for a in reversed(anc):
                if H.is_node(a) and H.kind(a) == "block" and a[2]:
                    blk = a
                    break
            counted = blk is not None and any(H.kind(y) == "assignop" and y[2] in ("Add", "AddAssign") and H.path_of(y[3]) == "acc" and H.int_lit(y[4]) == 1 for s_ in blk[2] for y in H.walk(s_))
    elem_acc = [y for y in H.walk(h["body"]) if H.kind(y) == "assignop" and y[2] in ("Add", "AddAssign") and H.path_of(y[3]) == "acc" and "encode_element_fn(" in H.show(y[4], 8)]
    ret_acc = "core::result::Result::Ok(acc)" in H.show(h["body"], 6)
    chk.expect(counted and len(elem_acc) == 1 and ret_acc, "unit-width", "encode_collection_delimited", "count-equals-bytes-written",
               "acc += encode_element_fn(..)?; separator write paired with acc += 1; Ok(acc)", {"separator_counted": counted, "element_counts": len(elem_acc), "returns_acc": ret_acc}, loc=C.fn_loc(h))

    # ---------- rule 4: even rounding
    chk.rule("even-round", "every copy of round-up-to-even is `(x + 1) & !1`; StatefulEncoder routes every defined length through it")
    for p in ("dicom_parser::stateful::encode::even_len", "dicom_object::mem::even_len", "dicom_object::meta::dicom_len"):
        h = fx.hirfn(p)
        e = H.peel(h["body"])
        ok = (H.kind(e) == "bin" and e[2] == "BitAnd" and H.kind(H.peel(e[3])) == "bin" and H.peel(e[3])[2] == "Add"
              and H.int_lit(H.peel(e[3])[4]) == 1 and H.kind(H.peel(e[4])) == "un" and H.peel(e[4])[2] == "Not" and H.int_lit(H.peel(e[4])[3]) == 1)
        chk.expect(ok, "even-round", p, "shape", "(x + 1) & !1", H.show(e, 6), loc=C.fn_loc(h))
    h = fx.hirfn(f"{SE}::<W, E>::encode_element_header")
    ev = [x for c, x in H.calls(h["body"]) if c and c.endswith("stateful::encode::even_len")]
    iflet = [x for x in H.walk(h["body"]) if H.kind(x) == "if" and H.kind(H.peel(x[2])) == "let" and "get()" in H.show(x[2], 6)]
    assigned = [x for x in H.walk(h["body"]) if H.kind(x) == "assign" and H.show(x[2]).endswith(".len") and ev and ev[0] in list(H.walk(x[3]))]
    enc_call = [x for c, x in H.calls(h["body"]) if c and c.endswith("encode_element_header")]
    chk.expect(len(ev) == 1 and len(iflet) == 1 and len(assigned) == 1 and enc_call and enc_call[0][1] > assigned[0][1], "even-round",
               "encode_element_header", "defined-length-rounded-before-encoding", "if let Some(len) = de.len.get() { de.len = Length(even_len(len)) } before encoding",
               {"even_len_calls": len(ev), "assign": len(assigned)}, loc=C.fn_loc(h))
    h = fx.hirfn(f"{SE}::<W, E>::encode_item_header")
    lets = [x for x in H.walk(h["body"]) if H.kind(x) == "slet" and H.kind(H.peel(x[3])) == "if"]
    ok = False
    if len(lets) == 1:
        e = H.peel(lets[0][3])
        cond = H.show(e[2], 5)
        ok = "4294967295" in cond and "Eq" in cond and H.path_of(e[3]) == "len" and any((c or "").endswith("even_len") for c, _ in H.calls(e[4]))
    chk.expect(ok, "even-round", "encode_item_header", "defined-length-rounded", "undefined kept, defined rounded to even", [H.show(x[3], 6) for x in lets], loc=C.fn_loc(h))

    # ---------- rule 5: textual widths of date / time values
    chk.rule("date-time-width", "the byte length declared for DA/TM/DT values (da_byte_len / tm_byte_len / dt_byte_len, used for the header) equals the width of the text "
             "that to_encoded() formats, per precision: templates compared with compiled references of the PS3.5 forms (YYYY, YYYYMM, YYYYMMDD, HH, HHMM, HHMMSS, HHMMSS.F+)")
    import json as _json

    def fmt_sig(body):
        s = _json.dumps(body)
        return (re.findall(r'\["bstr", "(?:[^"\\]|\\.)*", "([0-9a-f]+)"\]', s), re.findall(r"Argument::<'_>::(new_\w+)", s))
    refs = facts.fixture("fmtref")
    PART = "dicom_core::value::partial"
    want = {"DicomDate": {"Year": ("da_y", 4), "Month": ("da_ym", 6), "Day": ("da_ymd", 8)},
            "DicomTime": {"Hour": ("tm_h", 2), "Minute": ("tm_hm", 4), "Second": ("tm_hms", 6), "Fraction": ("tm_hmsf", 7)}}
    for ty, table in want.items():
        h = fx.hirfn(f"{PART}::{ty}::to_encoded")
        ms = [m for m in H.walk(h["body"]) if H.kind(m) == "match" and H.path_of(H.peel(m[2])) == "self"]
        if len(ms) != 1:
            raise facts.MissingAnchor(f"{ty}::to_encoded: match self")
        seen_v = set()
        for p, g, b, ln in H.match_arms(ms[0]):
            t = H.show_pat(p)
            mm = re.match(rf"{ty}\((\w+)\(", t)
            if not mm or mm.group(1) not in table:
                chk.bad("date-time-width", f"{ty}::to_encoded", t, "a known precision variant", t, loc=f"{h['loc']['f']}:{ln}")
                continue
            v = mm.group(1)
            seen_v.add(v)
            refname, width = table[v]
            chk.expect(fmt_sig(b) == fmt_sig(refs[f"fmtref::{refname}"]["body"]), "date-time-width", f"{ty}::to_encoded", v, f"template of fmtref::{refname} ({width} characters" + (" + fraction digits)" if v == "Fraction" else ")"),
                       fmt_sig(b), loc=f"{h['loc']['f']}:{ln}")
        chk.expect(seen_v == set(table), "date-time-width", f"{ty}::to_encoded", "variants", sorted(table), sorted(seen_v))
    # the fraction text has exactly `fp` digits: 10^fp + f printed without its leading digit
    ht = fx.hirfn(f"{PART}::DicomTime::to_encoded")
    tt = H.show(ht["body"], 40)
    frac_arm = [b for p, g, b, ln in H.match_arms([m for m in H.walk(ht["body"]) if H.kind(m) == "match" and H.path_of(H.peel(m[2])) == "self"][0]) if "Fraction" in H.show_pat(p)]
    ft = H.show(frac_arm[0], 40) if frac_arm else ""
    chk.expect("core::num::<impl u32>::pow(10, (Deref(fp) as u32)) Add f" in ft.replace("(", "(").replace("  ", " ") or ("pow(10" in ft and "Add f" in ft and "sfrac.get(core::ops::range::RangeFrom{start: 1})" in ft),
               "date-time-width", "DicomTime::to_encoded", "fraction-digits", "(10^fp + f).to_string()[1..]: exactly fp digits", ft[:200], loc=C.fn_loc(ht))
    # the length tables
    for fn, table in (("da_byte_len", {"Year": 4, "Month": 6, "Day": 8}), ("tm_byte_len", {"Hour": 2, "Minute": 4, "Second": 6})):
        h = fx.hirfn(f"{PV}::{fn}")
        ms = [m for m in H.walk(h["body"]) if H.kind(m) == "match" and m[3].endswith("DateComponent")]
        if len(ms) != 1:
            raise facts.MissingAnchor(f"{fn}: match over DateComponent")
        got = {}
        for p, g, b, ln in H.match_arms(ms[0]):
            hd = H.pat_head(H.pat_alts(p)[0])
            if hd[0] == "variant":
                got[hd[1].split("::")[-1]] = H.int_lit(H.peel(b))
        for v, w in table.items():
            chk.expect(got.get(v) == w, "date-time-width", fn, v, w, got.get(v), loc=C.fn_loc(h))
        if fn == "tm_byte_len":
            fr = [b for p, g, b, ln in H.match_arms(ms[0]) if H.show_pat(p).endswith("Fraction")]
            t = H.show(fr[0], 12) if fr else ""
            arms = [H.show(a[2], 8) for m2 in H.walk(fr[0]) if H.kind(m2) == "match" for a in m2[4]] if fr else []
            chk.expect(any(a.replace(" ", "") == "(7Add(fpasusize))" for a in arms), "date-time-width", fn, "Fraction", "7 + fp (HHMMSS + '.' + fp digits)", arms, loc=C.fn_loc(h))
    h = fx.hirfn(f"{PV}::dt_byte_len")
    t = H.show(h["body"], 20)
    tz = [H.int_lit(H.peel(a[2])) for m2 in H.walk(h["body"]) if H.kind(m2) == "match" and "has_time_zone" in H.show(m2[2], 4) for a in m2[4]]
    tm_calls = [x for c, x in H.calls(h["body"]) if c and c.endswith("::tm_byte_len")]
    chk.expect("da_byte_len(datetime.date())" in t and len(tm_calls) == 1 and sorted(x for x in tz if x is not None) == [0, 5], "date-time-width", "dt_byte_len", "terms",
               "da_byte_len(date) + (tm_byte_len(time) | 0) + (5 | 0)  [&ZZXX]", {"text": t[:160], "tz": tz}, loc=C.fn_loc(h))
    hd_ = fx.hirfn(f"{PART}::DicomDateTime::to_encoded")
    td = H.show(hd_["body"], 30)
    n_tz = len(re.findall(r"offset\.to_string\(\)\.replace\(':', ''\)", td)) + len([x for x in H.walk(hd_["body"]) if H.kind(x) == "mcall" and x[3] == "replace"])
    chk.expect(n_tz >= 2, "date-time-width", "DicomDateTime::to_encoded", "offset-text", "the UTC offset is printed as +HH:MM with the colon removed (5 characters)", n_tz, loc=C.fn_loc(hd_))

    from . import shared
    shared.writer_text_identity(chk, fx, "writer-text-identity")
    shared.fragment_lengths_explicit(chk, fx, "fragment-lengths-explicit")
    chk.undecided.append("validation of real output bytes by an independent parser; DataSetWriter delimiter placement is covered under C02")
