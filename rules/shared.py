"""Rules that more than one property depends on (each caller registers them under its own rule name)."""
import re

from . import facts, hirq as H, common as C


def parser_availability(chk, fx, rule):
    """pdu::reader: every cursor read has a dominating availability proof (C25 pdu-budget / C27 parser-availability / C26)"""
    from . import budget
    chk.rule(rule, "every Buf getter of pdu::reader is preceded by a proof that the bytes are there: a PDU cut anywhere by the transport is reported as incomplete and retried, never misread or panicking")
    d = fx.crate("dicom_ul")
    n_sites = 0
    for h in d["hir"]:
        if not h["path"].startswith("dicom_ul::pdu::reader::"):
            continue
        short = h["path"].split("::")[-1]
        b = budget.analyse(h, short)
        ordn = {}
        for s in b.sites:
            n_sites += 1
            k = (s.cursor, s.op)
            ordn[k] = ordn.get(k, 0) + 1
            chk.expect(s.ok, rule, short, f"{s.cursor}.{s.op}#{ordn[k]}", f"remaining() >= {s.need} proven", f"proven lower bound {s.bound}", loc=f"{h['loc']['f']}:{s.line}")
    chk.floor(rule, "cursor read sites in pdu::reader", n_sites, 60)


_SUB = {}
IMPORTING = False


def import_rules(chk, tier, pid, rules, why, floor, only=None):
    """Make the instances of another property's rules part of this check (rule name `<pid>:<rule>`): used where the other property's
    clause is a necessary condition of this one (the umbrella properties C01/C02 need every codec clause of C03/C04/C07; the tools need
    the association clauses). The other module runs once per process; its own imports are switched off while it runs."""
    global IMPORTING
    import importlib
    from . import report
    if IMPORTING:
        return 0
    if pid not in _SUB:
        IMPORTING = True
        try:
            sub = report.Check(pid, tier)
            importlib.import_module(f"rules.{pid.lower()}").run(sub, tier)
            _SUB[pid] = sub
        finally:
            IMPORTING = False
    sub = _SUB[pid]
    n = 0
    for r in sorted({i["rule"] for i in sub.instances}):
        if rules is not None and r not in rules:
            continue
        name = f"{pid}:{r}"
        chk.rule(name, f"[{why}] " + sub.rules.get(r, r))
        for inst in sub.instances:
            if inst["rule"] != r or inst["fn"] == "<floor>" or (only is not None and not only(inst)):
                continue
            n += 1
            if inst["status"] == "ok":
                chk.ok(name, inst["fn"], inst["instance"], inst.get("detail"))
            elif inst["status"] == "violation":
                chk.bad(name, inst["fn"], inst["instance"], inst.get("expected"), inst.get("found"), loc=inst.get("loc"))
    chk.expect(n >= floor, f"{pid}:imported", "<floor>", f"instances imported from {pid}", f">= {floor}", n)
    return n


# Clauses of one property that are necessary conditions of another (applied by vcheck after the property's own rules; C01 and C02 list
# theirs in their modules). (source property, rules, reason, counted instances on the pinned tree, instance filter)
IMPORTS = {
    "C01": [("C06", {"initial-state", "object-builders"}, "the eager reader starts from the neutral state; build_object stops only at read_until / read_to", 5,
             lambda i: "(eager)" in i["fn"] or i["fn"] == "build_object"),
            ("C10", {"declared-vs-default", "charset-switch"}, "text is written and read back with the same (declared or default) character set per VR", 30, None),
            ("C34", {"no-bare-write"}, "every value byte is written (write_all), never a possibly short write", 1, None)],
    "C02": [("C06", {"initial-state", "object-builders"}, "the eager reader starts from the neutral state; build_object stops only at read_until / read_to", 5,
             lambda i: "(eager)" in i["fn"] or i["fn"] == "build_object"),
            ("C01", {"value-reader-conditions", "value-separator", "vr-value-reader"}, "every value is read back as it was written before it is rewritten", 90, None),
            ("C34", {"no-bare-write"}, "every value byte is written (write_all), never a possibly short write", 1, None)],
    "C04": [("C34", {"no-bare-write"}, "the declared length is what is written only if the whole value is written (write_all)", 1, None)],
    "C06": [("C07", {"sanitize-length", "length-provenance"}, "both readers derive the value length from the header in the same way", 36, None)],
    "C13": [("C11", {"extend-truncate", "value-truncate"}, "Truncate and Push* delegate to PrimitiveValue::truncate / extend_*", 30, None),
            ("C10", {"declared-vs-default", "charset-switch"}, "an object built by operations survives write and read-back: text VRs use the declared character set on both sides", 30, None)],
    "C09": [("C03", {"vr-header-form", "header-layout", "header-bytes-read"}, "the meta group is written and read with the Explicit VR Little Endian codec", 85,
             lambda i: "explicit_le" in i["fn"]),
            ("C34", {"no-bare-write"}, "every byte of the meta group values is written (write_all)", 1, None)],
    "C25": [("C29", {"pdu-roles"}, "`a PDU longer than the maximum is rejected` is decided by the maximum the associations hand to read_pdu / encode_pdu", 20, None)],
    "C26": [("C25", {"pdu-tables", "item-framing", "chunk-length"}, "P-DATA PDUs and their PDV items are framed as the reader parses them", 117, None),
            ("C28", {"max-pdu"}, "the P-DATA writer of an acceptor is sized with the requestor's maximum as recorded at negotiation", 2, None),
            ("C29", {"pdu-roles", "response-processing"}, "the P-DATA writer is sized with the peer's maximum as stored in the association", 40, None)],
    "C28": [("C25", {"pdu-tables", "item-framing"}, "the association PDUs the acceptor reads and writes are coded as the peer codes them", 114, None),
            ("C29", {"pdu-roles"}, "the requestor's maximum recorded by the acceptor is the one stored in the established association", 20, None)],
    "C29": [("C25", {"pdu-tables", "item-framing"}, "both peers code the association PDUs alike", 114, None)],
    "C30": [("C25", {"pdu-tables"}, "release / abort PDUs are coded as the peer decodes them", 91, None),
            ("C29", {"pdu-roles"}, "release and abort go out through send(), limited by the peer's maximum as negotiated", 20, None),
            ("C27", {"wire-loop"}, "release() judges the peer's answer by what receive() returns: receive hands on every PDU the wire reader yields", 5,
             lambda i: str(i["instance"]).startswith(("(g)", "(h)", "(i)", "(j)")))],
    "C31": [("C04", {"padding-byte", "bytes-written", "even-round", "unit-width", "date-time-width"},
             "the group length counts the canonical encoded size of each element: what the encoder writes (value, separators, padding) must be that size", 120, None)],
    "C32": [("C27", {"wire-loop"}, "the SCP receives every PDU whatever the segmentation", 39, None),
            ("C03", {"endianness-purity", "vr-header-form", "header-layout"}, "the stored file is the received data set decoded and re-encoded in the negotiated transfer syntax", 340, None)],
    "C33": [("C26", {"header-setup", "writer-siblings", "async-state", "writer-max-from-peer"}, "the SCU's data set goes out through the P-DATA writer", 28, None)],
}


TWIN_USE = {"C28": ["server-establish"], "C29": ["client-establish", "server-establish"], "C30": ["release", "abort", "storescp-loop"], "C32": ["storescp-loop"],
            "C33": ["storescu-send_file", "storescu-loop"]}


def apply_imports(chk, tier, pid):
    for src, rules, why, counted, only in IMPORTS.get(pid, []):
        import_rules(chk, tier, src, rules, why, (counted * 9) // 10, only=only)
    if pid in TWIN_USE:
        sync_async_twins(chk, facts.load("W"), "sync-async-twins", TWIN_USE[pid])
    if pid in ("C25", "C26", "C28", "C29"):
        pdu_limit_constants(chk, facts.load("W"), "pdu-limit-constants")


_TWIN_IGN = re.compile(r"into_future|IntoFuture|Future|poll|Pin|get_mut|branch|from_residual|from_output|Ok$|Err$|Some$|timeout$|context$|map_err$|into$|from$|new_unchecked|Context|as_mut$|deref|^fail$|build$|^await$")

# (crate, kind, path suffix of the synchronous function, suffix of the asynchronous twin, calls only the sync one makes, calls only the async one makes, why)
TWINS = {
    "client-establish": ("dicom_ul", None, "client::ClientAssociationOptions::<'a>::establish_impl", "client::ClientAssociationOptions::<'a>::establish_impl_async", {}, {}, ""),
    "server-establish": ("dicom_ul", None, "server::ServerAssociationOptions::<'a, A, N>::establish", "server::ServerAssociationOptions::<'_, A, N>::establish_async", {}, {}, ""),
    "release": ("dicom_ul", None, "association::private::SyncAssociationSealed::release", "association::private::AsyncAssociationSealed::release", {}, {}, ""),
    "abort": ("dicom_ul", None, "association::private::SyncAssociationSealed::abort", "association::private::AsyncAssociationSealed::abort", {}, {}, ""),
    "storescp-loop": ("dicom_storescp", "bin", "store_sync::inner", "store_async::inner", {}, {}, ""),
    "storescu-send_file": ("dicom_storescu", "bin", "store_sync::send_file", "store_async::send_file", {"set_message": 1, "clone": 1}, {"lock": 1},
                           "progress bar: the sync loop owns it, the async tasks share it behind a mutex"),
    "storescu-loop": ("dicom_storescu", "bin", "store_sync::inner", "store_async::inner", {"into_iter": 1, "zip": 1, "next": 1, "finish_with_message": 1}, {"lock": 1, "pop": 1},
                      "the sync loop iterates the file list, the async workers pop from a shared queue"),
}


def sync_async_twins(chk, fx, rule, names):
    """a synchronous function and its asynchronous twin make the same calls (names up to `_async`, await / future plumbing ignored), except the audited
    differences of the table: a step added to, dropped from or changed in one twin only is drift"""
    import collections
    chk.rule(rule, "SIB: sync / async twins make the same multiset of calls (callee names up to `_async`; await / future plumbing ignored); audited differences are listed in shared.TWINS")

    def call_sig(hh):
        c_ = collections.Counter()
        for x, anc in H.walk_anc(hh["body"]):
            if H.kind(x) not in ("call", "mcall"):
                continue
            cal = H.callee(x)
            if not cal or re.search(r"tracing|log::|format_args|fmt::", " ".join([H.mac(x), cal] + [H.mac(a) for a in anc if H.is_node(a)])):
                continue  # logging (and what is computed only for a log line) added to one twin only is not drift
            nm = re.sub(r"_async$", "", cal.split("::")[-1])
            if _TWIN_IGN.search(nm) or _TWIN_IGN.search(cal.split("::")[-2] if "::" in cal else ""):
                continue
            c_[nm] += 1
        return c_
    for nm in names:
        crate, kind, a, b, only_a, only_b, why = TWINS[nm]
        d = fx.crate(crate, kind)
        ha = [h for h in d["hir"] if h["path"].endswith(a) and "{closure" not in h["path"]]
        hb = [h for h in d["hir"] if h["path"].endswith(b) and "{closure" not in h["path"]]
        if len(ha) != 1 or len(hb) != 1:
            raise facts.MissingAnchor(f"twins {nm}: {len(ha)} / {len(hb)} candidates")
        x, y = call_sig(ha[0]), call_sig(hb[0])
        chk.expect((dict(x - y), dict(y - x)) == (only_a, only_b), rule, nm, "same-calls", {"only sync": only_a, "only async": only_b, "because": why},
                   {"only sync": dict(x - y), "only async": dict(y - x)}, loc=C.fn_loc(ha[0]))


def pdu_limit_constants(chk, fx, rule):
    """the PDU size constants can be used the way the writers use them: MAXIMUM_PDU_SIZE (what a peer's `0 = unlimited` becomes, and the clamp of
    every announced maximum) plus the 6-byte PDU header still fits a u32 (`max_pdu_length + PDU_HEADER_SIZE` in send / the P-DATA writers), the
    minimum is not above the default, the default not above the large size, and that not above the maximum"""
    chk.rule(rule, "CONST: MAXIMUM_PDU_SIZE + PDU_HEADER_SIZE <= u32::MAX (no overflow in `max + header`); MINIMUM_PDU_SIZE <= DEFAULT_MAX_PDU <= LARGE_PDU_SIZE <= MAXIMUM_PDU_SIZE; "
                   "PDU_HEADER_SIZE == 6 and PDV_HEADER_SIZE == 6")

    def val(name):
        c = fx.const(f"dicom_ul::pdu::{name}")
        m = re.fullmatch(r"(\d+)_?u(32|size|64)", str(c.get("val", "")))
        if not m:
            raise facts.MissingAnchor(f"constant dicom_ul::pdu::{name}")
        return int(m.group(1))
    v = {n: val(n) for n in ("MAXIMUM_PDU_SIZE", "PDU_HEADER_SIZE", "PDV_HEADER_SIZE", "MINIMUM_PDU_SIZE", "DEFAULT_MAX_PDU", "LARGE_PDU_SIZE")}
    chk.expect(v["MAXIMUM_PDU_SIZE"] + v["PDU_HEADER_SIZE"] <= 0xFFFF_FFFF, rule, "dicom_ul::pdu", "max-plus-header-fits-u32", "<= 4294967295", v["MAXIMUM_PDU_SIZE"] + v["PDU_HEADER_SIZE"])
    chk.expect(v["MINIMUM_PDU_SIZE"] <= v["DEFAULT_MAX_PDU"] <= v["LARGE_PDU_SIZE"] <= v["MAXIMUM_PDU_SIZE"], rule, "dicom_ul::pdu", "ordered", "MINIMUM <= DEFAULT <= LARGE <= MAXIMUM", v)
    chk.expect(v["PDU_HEADER_SIZE"] == 6 and v["PDV_HEADER_SIZE"] == 6, rule, "dicom_ul::pdu", "header-sizes", {"PDU_HEADER_SIZE": 6, "PDV_HEADER_SIZE": 6},
               {"PDU_HEADER_SIZE": v["PDU_HEADER_SIZE"], "PDV_HEADER_SIZE": v["PDV_HEADER_SIZE"]})


def pdata_reader_error_kinds(chk, fx, rule):
    """PDataReader (sync read, async poll_read): no error it raises has kind UnexpectedEof. The data set readers take an UnexpectedEof met at
    an element boundary for the regular end of a data set, so a lost connection or an A-ABORT in the middle of a data set that is
    decoded straight from the reader would come back as Ok(partial object) (C34: failures are reported; C30: abort during data)"""
    chk.rule(rule, "PDataReader::read / poll_read: every io::Error they construct has a kind other than UnexpectedEof (Other / InvalidData ...): the data set readers "
                   "treat UnexpectedEof between two elements as the end of the data")
    d = fx.crate("dicom_ul")
    n = 0
    for hh in d["hir"]:
        if not re.search(r"pdata::(non_blocking::)?PDataReader<.*>::(read|poll_read)$", hh["path"]):
            continue
        ctor = [x for c_, x in H.calls(hh["body"]) if c_ and re.search(r"io::error::Error::(new|other|from)$|io::Error::(new|other)$", c_)]
        kinds = [(H.show(H.call_args(x)[0], 4) if (H.callee(x) or "").endswith("::new") else "Other") for x in ctor]
        n += len(ctor)
        bad = [k for k in kinds if "UnexpectedEof" in k]
        chk.expect(len(ctor) >= 2 and not bad, rule, hh["path"].split("::")[-1] + ("(async)" if "non_blocking" in hh["path"] else "(sync)"), "error-kinds", "no UnexpectedEof among the constructed errors", kinds,
                   loc=C.fn_loc(hh))
    chk.floor(rule, "errors constructed by the two readers", n, 4)


def collector_preamble(chk, fx, rule):
    """DicomCollector::read_preamble is the twin of FileDicomObject::detect_preamble + skip: Never reads nothing, Always takes 128 bytes,
    Auto takes 128 bytes when DICM is at offset 128 (of at least 132 buffered bytes), nothing when DICM is at offset 0 (C09, C06)"""
    chk.rule(rule, "DicomCollector::read_preamble: `== Never` returns before touching the reader; `== Always` read_exact([u8;128]); detection "
                   "`len >= 132 && buf[128..132] == DICM` -> consume(128), `buf[0..4] == DICM` -> nothing consumed, otherwise read_exact([u8;128])")
    hs = fx.find_hir("dicom_object", lambda p: p.startswith("dicom_object::collector::DicomCollector::<") and p.endswith("::read_preamble"))
    if len(hs) != 1:
        raise facts.MissingAnchor(f"DicomCollector::read_preamble: {len(hs)} candidates")
    h = hs[0]
    ifs = [x for x in H.walk(h["body"]) if H.kind(x) == "if"]

    def ops(c):
        return sorted(y[2] for y in H.walk(c) if H.kind(y) == "bin" and y[2] not in ("Add",))

    def extents(c):
        return [C.slice_extent(y)[1:] for y in H.walk(c) if H.kind(y) == "index"]

    never = [x for x in ifs if "ReadPreamble::Never" in H.show(x[2], 6)]
    always = [x for x in ifs if "ReadPreamble::Always" in H.show(x[2], 6)]
    chk.expect(len(never) == 1 and ops(never[0][2]) == ["Eq"] and not any("reader" in H.show(y, 3) for y in H.walk(never[0][3]) if H.kind(y) == "mcall"),
               rule, "read_preamble", "Never-reads-nothing", "`== Never` branch returns without a read", [H.show(x[2], 6) for x in never], loc=C.fn_loc(h))
    ok = len(always) == 1 and ops(always[0][2]) == ["Eq"] and [C.array_len(y[3]) for y in H.walk(always[0][3]) if H.kind(y) == "repeat"] == [128] \
        and any((c or "").endswith("Read::read_exact") for c, _ in H.calls(always[0][3]))
    chk.expect(ok, rule, "read_preamble", "Always-takes-128", "read_exact(&mut [0; 128])", [H.show(x[2], 6) for x in always], loc=C.fn_loc(h))
    at128 = [x for x in ifs if (128, 4) in extents(x[2])]
    at0 = [x for x in ifs if extents(x[2]) == [(0, 4)]]
    ok = len(at128) == 1 and ops(at128[0][2]) == ["And", "Eq", "Ge"] and "DICM" in H.show(at128[0][2], 8) \
        and [H.int_lit(y[5][0]) for y in H.walk(at128[0][3]) if H.kind(y) == "mcall" and y[3] == "consume"] == [128]
    if ok:
        ge = [y for y in H.walk(at128[0][2]) if H.kind(y) == "bin" and y[2] == "Ge"][0]
        from .budget import poly_of
        need = poly_of(ge[4], {})
        ok = need.is_const() and need.const_value() == 132
    chk.expect(ok, rule, "read_preamble", "DICM@128-consumes-128", "len >= 132 && buf[128..132] == DICM -> consume(128)", [H.show(x[2], 8) for x in at128], loc=C.fn_loc(h))
    ok = len(at0) == 1 and ops(at0[0][2]) == ["Eq"] and "DICM" in H.show(at0[0][2], 8) and not [y for y in H.walk(at0[0][3]) if H.kind(y) == "mcall" and y[3] in ("consume", "read_exact", "read")]
    chk.expect(ok, rule, "read_preamble", "DICM@0-consumes-nothing", "buf[0..4] == DICM -> None, nothing consumed", [H.show(x[2], 8) for x in at0], loc=C.fn_loc(h))
    # whatever the option, a successful read_preamble leaves the collector in state Preamble (read_file_meta reads the meta group only
    # from that state): every `return Ok(..)` and the tail are preceded, in their own block, by `self.state = CollectorState::Preamble`
    def sets_state(block):
        return any(H.kind(s) in ("semi", "sexpr") and H.kind(H.peel(s[2])) == "assign" and H.show(H.peel(s[2])[2], 3) == "self.state"
                   and H.show(H.peel(s[2])[3], 3).endswith("CollectorState::Preamble") for s in block[2])
    exits = []
    for n_, anc in H.walk_anc(h["body"]):
        if H.kind(n_) == "ret" and n_[2] is not None and "Result::Ok(" in H.show(n_[2], 3):
            blk = [a for a in anc if H.is_node(a) and H.kind(a) == "block"]
            exits.append((n_[1], bool(blk) and sets_state(blk[-1])))
    body = h["body"]
    if H.kind(body) == "block" and body[3] is not None:
        exits.append((body[3][1] if H.is_node(body[3]) else 0, sets_state(body)))
    chk.expect(len(exits) >= 2 and all(ok_ for _, ok_ in exits), rule, "read_preamble", "every-success-sets-state-Preamble", "self.state = CollectorState::Preamble before each Ok exit", exits, loc=C.fn_loc(h))
    if len(at0) == 1 and at0[0][4] is not None:
        e = at0[0][4]
        ok = [C.array_len(y[3]) for y in H.walk(e) if H.kind(y) == "repeat"] == [128] and any((c or "").endswith("Read::read_exact") for c, _ in H.calls(e))
        chk.expect(ok, rule, "read_preamble", "undetected-takes-128", "read_exact(&mut [0; 128])", H.show(e, 4)[:120], loc=C.fn_loc(h))


def text_values_as_stored(chk, fx, rule):
    """PrimitiveValue::to_multi_str (the only source of the strings of a JSON `Value` array): a single string is one value -- it is not cut
    at backslashes (ST/LT/UT/UR hold one value and `\\` is ordinary text there); the multi-valued variants yield one string per element"""
    chk.rule(rule, "PrimitiveValue::to_multi_str: the `Str` arm yields exactly the one stored string (no split / lines / chunking call on it) and does not share "
                   "its arm with `Strs`; every other variant maps its elements one to one (no filter / skip / take / dedup)")
    PV = "dicom_core::value::primitive::PrimitiveValue"
    h = fx.method("dicom_core", PV, "to_multi_str")
    ms = H.matches_over(h["body"], lambda t: t == PV)
    if len(ms) != 1:
        raise facts.MissingAnchor("to_multi_str: match over PrimitiveValue")
    variants = fx.variants(PV)
    tab, arms = H.enum_table(ms[0], variants, PV)
    n = 0
    for v in variants:
        if not tab[v]:
            chk.bad(rule, "to_multi_str", v, "an arm", "no arm", loc=C.fn_loc(h))
            continue
        p, g, b, ln = arms[tab[v][0]]
        calls = [x[3] for x in H.walk(b) if H.kind(x) == "mcall"]
        n += 1
        if v == "Str":
            shared_arm = [w for w in variants if w != v and tab[w] and tab[w][0] == tab[v][0]]
            cutting = [c for c in calls if c.startswith("split") or c in ("lines", "chunks", "matches", "rsplit", "trim_matches", "replace")]
            chk.expect(not shared_arm and not cutting, rule, "to_multi_str", v, "one value: the stored string itself", {"arm shared with": shared_arm, "cutting calls": cutting},
                       loc=f"{h['loc']['f']}:{ln}")
        elif v != "Empty":
            dropping = [c for c in calls if c in ("filter", "filter_map", "skip", "take", "skip_while", "take_while", "step_by", "dedup", "rev")
                        or (c.startswith("split") and c != "split") or c.startswith("rsplit") or c.startswith("trim") or c in ("lines", "pop", "truncate")]
            # a value list that ends in an empty value keeps it: `split` yields the component after the last separator, `split_terminator` /
            # `split_whitespace` / `lines` do not
            chk.expect(not dropping, rule, "to_multi_str", v, "one string per element, in order", dropping, loc=f"{h['loc']['f']}:{ln}")
    chk.floor(rule, "variants", n, 15)


def guard_tightness(chk, fx, rule):
    """pdu::reader: a guard demanding a constant number of bytes demands no more than is read before the next guard on that cursor or the
    end of the loop iteration -- an over-strict guard rejects the shortest valid encoding (a PDV without data, a last item ...)"""
    from . import budget
    chk.rule(rule, "every availability guard of pdu::reader (`remaining() >= N`, N constant or symbolic, named constants evaluated) is exact: no constant number of "
                   "demanded bytes is still unread at the next guard on the cursor, the start of a loop over it, the end of the branch / loop iteration or a successful "
                   "return, so the shortest valid item is still accepted")
    d = fx.crate("dicom_ul")
    n = 0
    for h in d["hir"]:
        if not h["path"].startswith("dicom_ul::pdu::reader::"):
            continue
        short = h["path"].split("::")[-1]
        b = budget.analyse(h, short)
        ordn = {}
        for g in b.guards:
            n += 1
            k = (g["cursor"], g["need"])
            ordn[k] = ordn.get(k, 0) + 1
            chk.expect(g["slack"] is None, rule, short, f"{g['cursor']}.remaining()>={g['need']}#{ordn[k]}", "all demanded bytes are read before the next guard", g["slack"],
                       loc=f"{h['loc']['f']}:{g['line']}")
    chk.floor(rule, "availability guards in pdu::reader", n, 48)


def max_pdu(chk, fx, rule):
    """acceptor: requestor maximum length 0 means "no limit" (C28 max-pdu; C30: the release reply must be sendable)"""
    chk.rule(rule, "acceptor records the requestor's maximum PDU length as: MaxLength(0) -> MAXIMUM_PDU_SIZE, MaxLength(n) -> n.min(MAXIMUM_PDU_SIZE), absent -> DEFAULT_MAX_PDU "
             "(a recorded maximum of 0 would make every reply, including A-RELEASE-RP and A-ABORT, unsendable)")
    h = fx.method("dicom_ul", "dicom_ul::association::server::ServerAssociationOptions", "process_a_association_rq")
    body = h["body"]
    init = [x for x in H.walk(body) if H.kind(x) == "slet" and H.pat_bindings(x[2]) == ["requestor_max_pdu_length"]]
    chk.expect(len(init) == 1 and (H.path_of(init[0][3]) or "").endswith("pdu::DEFAULT_MAX_PDU"), rule, "process_a_association_rq", "default", "DEFAULT_MAX_PDU",
               H.show(init[0][3], 3) if init else None, loc=C.fn_loc(h))
    asg = [x for x in H.walk(body) if H.kind(x) == "assign" and H.path_of(x[2]) == "requestor_max_pdu_length"]
    ok = False
    if len(asg) == 1:
        e = H.peel(asg[0][3])
        if H.kind(e) == "if":
            ok = H.show(e[2], 4) == "(len Eq 0)" and (H.path_of(H.peel(e[3])) or H.show(e[3], 4)).endswith("MAXIMUM_PDU_SIZE") and "len.min(" in H.show(e[4], 5) and "MAXIMUM_PDU_SIZE" in H.show(e[4], 5)
    chk.expect(ok, rule, "process_a_association_rq", "from-request", "if len == 0 { MAXIMUM_PDU_SIZE } else { len.min(MAXIMUM_PDU_SIZE) }", H.show(asg[0][3], 6) if asg else None, loc=C.fn_loc(h))


def trim_uid(chk, fx, rule):
    """ul::association::uid::trim_uid removes trailing NUL padding on every path that changes the UID (C28: configured abstract syntaxes must match padded ones)"""
    chk.rule(rule, "trim_uid: every trimming call removes NUL as well as white space (no whitespace-only trim / truncate of an owned UID); the acceptor compares trimmed abstract syntaxes")
    h = fx.hirfn("dicom_ul::association::uid::trim_uid")
    trims = [x for x in H.walk(h["body"]) if H.kind(x) == "mcall" and x[3].startswith("trim")]
    if not trims:
        raise facts.MissingAnchor("trim_uid: no trimming call")
    for i, x in enumerate(trims):
        arg = H.show(x[5][0], 8) if x[5] else ""
        chars = [y[2][1] for a in x[5] for y in H.walk(a) if H.kind(y) == "lit" and y[2][0] == "char"]
        nul = any(c in ("\0", "\\0", "\x00") for c in chars) or "'\\0'" in arg or "\\u{0}" in arg
        chk.expect(x[3] in ("trim_end_matches", "trim_matches") and nul, rule, "trim_uid", f"{x[3]}#{i}", "trim_end_matches(|c| c.is_whitespace() || c == '\\0')", {"call": x[3], "arg": arg[:80], "chars": chars}, loc=f"{h['loc']['f']}:{x[1]}")
    trunc = [x[3] for x in H.walk(h["body"]) if H.kind(x) == "mcall" and x[3] in ("truncate", "pop", "drain")]
    chk.expect(not trunc, rule, "trim_uid", "no-in-place-shortening", "none", trunc, loc=C.fn_loc(h))
    hp = fx.method("dicom_ul", "dicom_ul::association::server::ServerAssociationOptions", "process_a_association_rq")
    uses = [x for c, x in H.calls(hp["body"]) if c and c.endswith("uid::trim_uid")]
    chk.expect(len(uses) >= 1, rule, "process_a_association_rq", "abstract-syntax-trimmed", "trim_uid applied to the proposed abstract syntax", len(uses), loc=C.fn_loc(hp))
    # the trimming predicate itself: a character is padding when it is white space OR NUL (operators included), and the only test that
    # selects the trimming path asks for a trailing NUL
    for i, x in enumerate(trims):
        cl = [y for a in x[5] for y in H.walk(a) if H.kind(y) == "closure"]
        body = H.show(cl[0][4] if cl and len(cl[0]) > 4 else (x[5][0] if x[5] else None), 6) if cl else ""
        norm = re.sub(r"'\\0'|'\\u\{0\}'|'\x00'|\x00", "NUL", body)
        ok = re.fullmatch(r"\{?\((\w+)\.is_whitespace\(\) Or \(\1 Eq NUL\)\)\}?|\{?\(\((\w+) Eq NUL\) Or \2\.is_whitespace\(\)\)\}?", norm) is not None
        chk.expect(ok, rule, "trim_uid", f"padding-predicate#{i}", "c.is_whitespace() || c == NUL", body[:100], loc=f"{h['loc']['f']}:{x[1]}")
    conds = [H.show(y[2], 5) for y in H.walk(h["body"]) if H.kind(y) == "if"]
    chk.expect(all(re.fullmatch(r"uid\.ends_with\(.*\)", c) for c in conds), rule, "trim_uid", "trimming-path-selector", "if uid.ends_with(NUL) (not negated)", conds, loc=C.fn_loc(h))


def negotiated_labels(chk, fx, rule):
    """requestor: each accepted presentation context is labelled with the abstract syntax of the proposal *with the same id* (C29
    response-processing; C33: storescu chooses a context by that label, so a wrong label sends a file on another class's context)"""
    chk.rule(rule, "ClientAssociationOptions::process_a_association_resp: negotiated context = (id and transfer syntax of the result item, abstract syntax of proposed.find(|pc| pc.id == c.id)); "
             "no positional pairing (zip / enumerate / index) of results with proposals")
    h = fx.method("dicom_ul", "dicom_ul::association::client::ClientAssociationOptions", "process_a_association_resp")
    st = [y for y in H.walk(h["body"]) if H.kind(y) == "struct" and y[2].endswith("PresentationContextNegotiated")]
    if not st:
        raise facts.MissingAnchor("process_a_association_resp: PresentationContextNegotiated construction")
    for i, s in enumerate(st):
        f_id, f_ts, f_as = (H.show(H.struct_field(s, k), 4) for k in ("id", "transfer_syntax", "abstract_syntax"))
        c = f_id.split(".")[0]
        src = re.match(r"(\w+)\.abstract_syntax", f_as)
        looked = None
        if src:
            bl = [y for y in H.walk(h["body"]) if H.kind(y) == "slet" and H.pat_bindings(y[2]) == [src.group(1)] and y[1] <= s[1]]
            looked = H.show(bl[-1][3], 9) if bl else None
        by_id = looked is not None and ".iter().find(" in looked and re.search(rf"\(\w+\.id Eq {c}\.id\)", looked) is not None
        chk.expect(f_id == f"{c}.id" and f_ts == f"{c}.transfer_syntax" and by_id, rule, "process_a_association_resp", f"negotiated-context#{i}",
                   "abstract syntax from the proposal found by id", {"id": f_id, "transfer_syntax": f_ts, "abstract_syntax": f_as, "lookup": (looked or "")[:140]}, loc=f"{h['loc']['f']}:{s[1]}")
    pos = [x[3] for x in H.walk(h["body"]) if H.kind(x) == "mcall" and x[3] in ("zip", "enumerate")]
    chk.expect(not pos, rule, "process_a_association_resp", "no-positional-pairing", "none", pos, loc=C.fn_loc(h))


def value_reader_codec_calls(chk, fx, rule):
    """the value readers decode units only through the endianness-aware basic decoder, one call per unit kind, and do no byte-order
    arithmetic of their own (C01/C02: a reader that assembles a tag or number by shifting is right in one byte order only)"""
    chk.rule(rule, "StatefulDecoder::read_value_*: AT through basic.decode_tag (group then element in stream order); numbers through decode_<kind>_into; "
             "the only shifts are `len >> k` element counts; no shift / mask / cast arithmetic on decoded units")
    want = {"read_value_tag": ["decode_tag"], "read_value_us": ["decode_us_into"], "read_value_ss": ["decode_ss_into"], "read_value_ul": ["decode_ul_into"],
            "read_value_sl": ["decode_sl_into"], "read_value_uv": ["decode_uv_into"], "read_value_sv": ["decode_sv_into"], "read_value_fl": ["decode_fl_into"],
            "read_value_od": ["decode_fd_into"], "read_u32": ["decode_ul_into"]}
    for fn, w in want.items():
        h = fx.method("dicom_parser", "dicom_parser::stateful::decode::StatefulDecoder", fn)
        decs = [x[3] for x in H.walk(h["body"]) if H.kind(x) == "mcall" and x[3].startswith("decode_")]
        shifts = [H.show(x, 4) for x in H.walk(h["body"]) if H.kind(x) == "bin" and x[2] in ("Shr", "Shl", "BitOr") and not (x[2] == "Shr" and H.path_of(H.peel(x[3])) == "len")]
        chk.expect(decs == w and not shifts, rule, fn, "decoder-calls", {"calls": w, "other shifts": []}, {"calls": decs, "other shifts": shifts}, loc=C.fn_loc(h))


def fragment_lengths_explicit(chk, fx, rule):
    """pixel data fragments are always written with their explicit length (PS3.5 A.4): the token generator expands fragments with the
    default options, so the `force_invalidate_sq_length` option (meant for data set sequences) never reaches ItemValueTokens"""
    chk.rule(rule, "DataElementTokens::next expands pixel fragments with `.into_tokens()` (default options): fragment items never get an undefined length")
    hn = fx.find_hir("dicom_parser", lambda p: "DataElementTokens" in p and p.endswith("Iterator>::next"))
    if len(hn) != 1:
        raise facts.MissingAnchor("DataElementTokens::next")
    h = hn[0]
    made = []
    for x in H.walk(h["body"]):
        if H.kind(x) == "call" and (H.callee(x) or "").endswith("DataElementTokens::PixelDataFragments"):
            for a in H.call_args(x):
                for y in H.walk(a):
                    if H.kind(y) == "mcall" and y[3].startswith("into_tokens"):
                        made.append(y[3])
    chk.expect(made == ["into_tokens"], rule, "DataElementTokens::next", "PixelDataFragments", ["into_tokens"], made, loc=C.fn_loc(h))


def file_create_truncates(chk, fx, rule):
    """FileDicomObject::write_to_file replaces the target file: File::create (truncating) or OpenOptions with truncate(true)
    (C32: a shorter re-send of the same instance must not leave the tail of the earlier file behind)"""
    chk.rule(rule, "FileDicomObject::write_to_file opens the target with File::create, or OpenOptions ... .create(true).truncate(true)")
    h = fx.find_hir("dicom_object", lambda p: p.endswith("::write_to_file") and "FileDicomObject" in p)
    if len(h) != 1:
        raise facts.MissingAnchor(f"FileDicomObject::write_to_file ({len(h)})")
    h = h[0]
    cs = [c for c, _ in H.calls(h["body"]) if c]
    create = any(c.endswith("fs::File::create") for c in cs)
    trunc = [x for x in H.walk(h["body"]) if H.kind(x) == "mcall" and x[3] == "truncate" and x[5] and H.lit(H.peel(x[5][0])) == ("bool", "true")]
    opened = [x for x in H.walk(h["body"]) if H.kind(x) == "mcall" and x[3] == "open" and "OpenOptions" in str(x[2])]
    chk.expect(create or (opened and trunc), rule, "write_to_file", "truncating-create", "File::create(path) or OpenOptions .. truncate(true)", {"File::create": create, "OpenOptions::open": len(opened), "truncate(true)": len(trunc)}, loc=C.fn_loc(h))


def value_truncate(chk, fx, rule):
    """Value::truncate hands the limit to the variant's own truncate unconditionally; the sequence kinds truncate their item /
    fragment vectors with that limit (C11/C13: Truncate changes the items exactly as documented, for every kind of value)"""
    chk.rule(rule, "Value::truncate = match self { Primitive(v) | Sequence(v) | PixelSequence(v) => v.truncate(limit) } with nothing before the match; "
             "DataSetSequence / PixelFragmentSequence::truncate call items / fragments .truncate(limit)")
    h = fx.method("dicom_core", "dicom_core::value::Value", "truncate")
    body = H.peel(h["body"])
    stmts = body[2] if H.kind(body) == "block" else []
    tail = H.peel(body[3]) if H.kind(body) == "block" and body[3] is not None else body
    arms = {}
    if H.kind(tail) == "match" and H.path_of(H.peel(tail[2])) == "self":
        for p, g, b, ln in H.match_arms(tail):
            hd = H.pat_head(H.pat_alts(p)[0])
            t = H.show(H.peel(b), 4)
            arms[hd[1].split("::")[-1] if hd[0] == "variant" else "?"] = (t, g is not None)
    want = {"Primitive": ("v.truncate(limit)", False), "Sequence": ("v.truncate(limit)", False), "PixelSequence": ("v.truncate(limit)", False)}
    chk.expect(not stmts and arms == want, rule, "Value::truncate", "unconditional-dispatch", want, {"statements_before_match": len(stmts), "arms": arms}, loc=C.fn_loc(h))
    for ty, field in (("dicom_core::value::DataSetSequence", "items"), ("dicom_core::value::fragments::PixelFragmentSequence", "fragments"), ("dicom_core::value::PixelFragmentSequence", "fragments")):
        try:
            hh = fx.method("dicom_core", ty, "truncate")
        except Exception:
            continue
        t = H.show(H.peel(hh["body"]), 5)
        chk.expect(t.replace("{", "").replace("}", "").strip().rstrip(";") == f"self.{field}.truncate(limit)", rule, ty.split("::")[-1] + "::truncate", "vector-truncate", f"self.{field}.truncate(limit)", t, loc=C.fn_loc(hh))


def tag_range_inner(chk, fx, rule):
    """TagRange::inner returns the range's own base tag; if it normalises, Group100 may only mask the group and Element100 only the
    element (C15: the dictionary files each row under entry.tag.inner() and looks ranges up by the masked tag)"""
    chk.rule(rule, "TagRange::inner: Single/Group100/Element100 -> the wrapped tag (Group100 may mask .0 only, Element100 .1 only, with 0xFF00)")
    h = fx.method("dicom_core", "dicom_core::dictionary::data_element::TagRange", "inner")
    ms = [m for m in H.walk(h["body"]) if H.kind(m) == "match" and H.path_of(H.peel(m[2])) == "self"]
    if len(ms) != 1:
        raise facts.MissingAnchor("TagRange::inner: match self")
    for p, g, b, ln in H.match_arms(ms[0]):
        hd = H.pat_head(H.pat_alts(p)[0])
        v = hd[1].split("::")[-1] if hd[0] == "variant" else "?"
        if v not in ("Single", "Group100", "Element100"):
            continue
        t = H.show(H.peel(b), 6).replace("dicom_core::header::", "")
        ok = t == "tag"
        if v == "Group100":
            ok = ok or t == "Tag((tag.0 BitAnd 65280), tag.1)"
        if v == "Element100":
            ok = ok or t == "Tag(tag.0, (tag.1 BitAnd 65280))"
        chk.expect(ok, rule, "TagRange::inner", v, "the wrapped tag (own component masked at most)", t, loc=f"{h['loc']['f']}:{ln}")


def meta_order_ascending(chk, fx, rule):
    """FileMetaTable::into_element_iter emits the group-0002 elements in ascending tag order (C09: the written meta group is a valid
    data set; C24: the JSON object of a file lists them in that order)"""
    from . import c09
    chk.rule(rule, "FileMetaTable::into_element_iter yields its elements in strictly ascending tag order")
    hi = fx.hirfn("dicom_object::meta::FileMetaTable::into_element_iter")
    etab = c09.element_table(hi)
    tags = [v[0] for v in etab.values()]
    bad = [(f"({a[0]:04X},{a[1]:04X})", f"({b[0]:04X},{b[1]:04X})") for a, b in zip(tags, tags[1:]) if not a < b]
    chk.expect(len(tags) >= 12 and not bad, rule, "into_element_iter", "ascending", "each tag greater than the one before", bad or len(tags), loc=C.fn_loc(hi))


def send_pdata_plumbing(chk, fx, rule):
    """the P-DATA writers are created with the peer's maximum PDU length as negotiated, not a widened value (C26: every fragment fits)"""
    chk.rule(rule, "SyncAssociation / AsyncAssociation ::send_pdata pass self.peer_max_pdu_length() unchanged to the writer")
    n = 0
    for h in fx.find_hir("dicom_ul", lambda p: re.search(r"association::(SyncAssociation|AsyncAssociation)::send_pdata$", p) is not None):
        n += 1
        ctor = [x for x in H.walk(h["body"]) if H.kind(x) == "call" and re.search(r"PDataWriter::<.*>::new$|PDataWriter::new$", H.callee(x) or "")]
        arg = H.show(H.call_args(ctor[0])[2], 6) if ctor and len(H.call_args(ctor[0])) >= 3 else None
        lets = {H.pat_bindings(x[2])[0]: H.show(x[3], 6) for x in H.walk(h["body"]) if H.kind(x) == "slet" and x[3] is not None and len(H.pat_bindings(x[2])) == 1}
        val = lets.get(arg, arg)
        chk.expect(val == "self.peer_max_pdu_length()", rule, h["path"].split("::")[-2] + "::send_pdata", "max-pdu-argument", "self.peer_max_pdu_length()", val, loc=C.fn_loc(h))
    chk.floor(rule, "send_pdata default methods", n, 2)


def pdata_reader_other_pdus_fail(chk, fx, rule):
    """PDataReader: any PDU other than P-DATA-TF while data is expected is an error (C30: an abort never looks like a clean end of data)"""
    chk.rule(rule, "PDataReader::read / poll_read: `match msg { Pdu::PData {..} => .., _ => error }` — no other PDU kind is swallowed")
    P = "dicom_ul::pdu::Pdu"
    n = 0
    for h in fx.find_hir("dicom_ul", lambda p: "PDataReader" in p and re.search(r"::(read|poll_read)$", p) is not None):
        ms = [m for m in H.walk(h["body"]) if H.kind(m) == "match" and m[3].replace("&", "").strip() == P]
        if not ms:
            continue
        n += 1
        for p, g, b, ln in H.match_arms(ms[0]):
            hd = H.pat_head(H.pat_alts(p)[0])
            v = hd[1].split("::")[-1] if hd[0] == "variant" else "_"
            if v == "PData":
                continue
            errs = any(H.kind(x) == "ret" and "Err(" in H.show(x, 6).replace("core::result::Result::", "") for x in H.walk(b))
            chk.expect(errs, rule, h["path"].split("::")[-1], f"arm:{v}", "returns an error", H.show(b, 4)[:120], loc=f"{h['loc']['f']}:{ln}")
    chk.floor(rule, "reader functions with a match over Pdu", n, 2)


def keyword_lookup(chk, fx, rule):
    """StandardDataDictionary::by_name (both impls) is the registry's keyword index consulted with the caller's text itself:
    no branch, early return or rewriting of the text on the way (one level of forwarding to a helper of the crate is followed)"""
    DS = "dicom_dictionary_std"
    chk.rule(rule, "StandardDataDictionary::by_name (value and reference impl): straight-line `registry().by_name.get(name)` on the argument itself; one forwarding helper is followed, no branch or early return anywhere on the way")
    d = fx.crate(DS)
    fns = [hh for hh in d["hir"] if hh["path"].endswith("DataDictionary>::by_name") and "StandardDataDictionary" in hh["path"]]
    chk.floor(rule, "by_name impls", len(fns), 2)
    for hh in fns:
        bodies = [hh]
        branches, gets = [], []
        for c, x in H.calls(hh["body"]):
            if c and c.startswith(DS + "::") and not c.endswith("::registry") and fx.has_hir(c):
                bodies.append(fx.hirfn(c))
                if not all(re.fullmatch(r"\w+", H.show(a, 3)) for a in H.call_args(x)):
                    branches.append("rewritten-argument@" + c.split("::")[-1])
        for b in bodies:
            for x in H.walk(b["body"]):
                k = H.kind(x)
                if k in ("if", "match", "ret", "loop"):
                    branches.append(f"{k}@{b['path'].split('::')[-1]}")
                if k == "mcall" and x[3] == "get":
                    gets.append((H.show(x[4], 4), [H.show(a, 4) for a in x[5]]))
        params = [H.show_pat(p) if not isinstance(p, str) else p for p in hh.get("params", [])]
        ok = not branches and len(gets) == 1 and re.fullmatch(r"(\w+::)*registry\(\)\.by_name", gets[0][0]) is not None and len(gets[0][1]) == 1 and re.fullmatch(r"&?\w+", gets[0][1][0]) is not None
        chk.expect(ok, rule, hh["path"].split(" as ")[0].strip("<"), "straight-keyword-index-lookup", "registry().by_name.get(<the argument>) and nothing conditional", {"gets": gets, "branches": branches}, loc=C.fn_loc(hh))


def open_options_passthrough(chk, fx, rule):
    """OpenFileOptions::{open_file, from_reader} hand every configured option to the reader unchanged (C09: the preamble option,
    C07: the odd-length strategy, C10: the character set override ... are what the caller set)"""
    chk.rule(rule, "OpenFileOptions::open_file / from_reader call *_with_all_options(source, self.<option> ...) with every option field passed as it is, each exactly once")
    n = 0
    for nm in ("open_file", "from_reader"):
        h = fx.method("dicom_object", "dicom_object::file::OpenFileOptions", nm)
        calls = [x for x in H.walk(h["body"]) if H.kind(x) == "call" and re.search(r"::(open_file|from_reader)_with_all_options$", H.callee(x) or "")]
        if len(calls) != 1:
            raise facts.MissingAnchor(f"OpenFileOptions::{nm}: call of *_with_all_options")
        n += 1
        args = [H.show(a, 4) for a in H.call_args(calls[0])[1:]]
        fields = ["self.data_dictionary", "self.ts_index", "self.read_until", "self.read_to", "self.read_preamble", "self.odd_length", "self.charset_override"]
        chk.expect(sorted(args) == sorted(fields), rule, f"OpenFileOptions::{nm}", "options-as-set", fields, args, loc=C.fn_loc(h))
    chk.floor(rule, "option forwarders", n, 2)


def writer_text_identity(chk, fx, rule):
    """StatefulEncoder::convert_text_untrailed encodes the given text as it is (C04 exact lengths; C31: the command group length is
    computed from the in-memory text lengths, so the writer must not shorten or lengthen a value beyond the even-length pad)"""
    chk.rule(rule, "convert_text_untrailed hands the text to the codec unchanged in every arm (no trimming or other rewriting before encoding)")
    h = fx.method("dicom_parser", "dicom_parser::stateful::encode::StatefulEncoder", "convert_text_untrailed")
    prm = [b for p in (h.get("params") or [])[1:2] for b in H.pat_bindings(p)]
    encs = [x for x in H.walk(h["body"]) if H.kind(x) == "mcall" and x[3] == "encode" and x[5]]
    if not encs or not prm:
        raise facts.MissingAnchor("convert_text_untrailed: encode calls")
    for i, x in enumerate(encs):
        a = H.peel(x[5][0])
        chk.expect(H.kind(a) == "path" and H.path_of(a) == prm[0], rule, "convert_text_untrailed", f"encode#{i}", f".encode({prm[0]})", H.show(x[5][0], 6), loc=f"{h['loc']['f']}:{x[1]}")
    chk.floor(rule, "encode calls", len(encs), 2)
