"""Rules that more than one property depends on (each caller registers them under its own rule name)."""
import re

from . import facts, hirq as H, common as C


def parser_availability(chk, fx, rule):
    """pdu::reader: every cursor read has a dominating availability proof (C25 pdu-budget / C27 parser-availability / C26)"""
    from . import budget
    chk.rule(rule, "every Buf getter of pdu::reader is preceded by a proof that the bytes are there: a PDU cut anywhere by the transport is reported as incomplete and retried, never misread or panicking")
    d = fx.crate("dicom_ul")
    n_sites = 0
    for h in d["hir"]:
        if not h["path"].startswith("dicom_ul::pdu::reader::"):
            continue
        short = h["path"].split("::")[-1]
        b = budget.analyse(h, short)
        ordn = {}
        for s in b.sites:
            n_sites += 1
            k = (s.cursor, s.op)
            ordn[k] = ordn.get(k, 0) + 1
            chk.expect(s.ok, rule, short, f"{s.cursor}.{s.op}#{ordn[k]}", f"remaining() >= {s.need} proven", f"proven lower bound {s.bound}", loc=f"{h['loc']['f']}:{s.line}")
    chk.floor(rule, "cursor read sites in pdu::reader", n_sites, 60)


def max_pdu(chk, fx, rule):
    """acceptor: requestor maximum length 0 means "no limit" (C28 max-pdu; C30: the release reply must be sendable)"""
    chk.rule(rule, "acceptor records the requestor's maximum PDU length as: MaxLength(0) -> MAXIMUM_PDU_SIZE, MaxLength(n) -> n.min(MAXIMUM_PDU_SIZE), absent -> DEFAULT_MAX_PDU "
             "(a recorded maximum of 0 would make every reply, including A-RELEASE-RP and A-ABORT, unsendable)")
    h = fx.method("dicom_ul", "dicom_ul::association::server::ServerAssociationOptions", "process_a_association_rq")
    body = h["body"]
    init = [x for x in H.walk(body) if H.kind(x) == "slet" and H.pat_bindings(x[2]) == ["requestor_max_pdu_length"]]
    chk.expect(len(init) == 1 and (H.path_of(init[0][3]) or "").endswith("pdu::DEFAULT_MAX_PDU"), rule, "process_a_association_rq", "default", "DEFAULT_MAX_PDU",
               H.show(init[0][3], 3) if init else None, loc=C.fn_loc(h))
    asg = [x for x in H.walk(body) if H.kind(x) == "assign" and H.path_of(x[2]) == "requestor_max_pdu_length"]
    ok = False
    if len(asg) == 1:
        e = H.peel(asg[0][3])
        if H.kind(e) == "if":
            ok = H.show(e[2], 4) == "(len Eq 0)" and (H.path_of(H.peel(e[3])) or H.show(e[3], 4)).endswith("MAXIMUM_PDU_SIZE") and "len.min(" in H.show(e[4], 5) and "MAXIMUM_PDU_SIZE" in H.show(e[4], 5)
    chk.expect(ok, rule, "process_a_association_rq", "from-request", "if len == 0 { MAXIMUM_PDU_SIZE } else { len.min(MAXIMUM_PDU_SIZE) }", H.show(asg[0][3], 6) if asg else None, loc=C.fn_loc(h))


def trim_uid(chk, fx, rule):
    """ul::association::uid::trim_uid removes trailing NUL padding on every path that changes the UID (C28: configured abstract syntaxes must match padded ones)"""
    chk.rule(rule, "trim_uid: every trimming call removes NUL as well as white space (no whitespace-only trim / truncate of an owned UID); the acceptor compares trimmed abstract syntaxes")
    h = fx.hirfn("dicom_ul::association::uid::trim_uid")
    trims = [x for x in H.walk(h["body"]) if H.kind(x) == "mcall" and x[3].startswith("trim")]
    if not trims:
        raise facts.MissingAnchor("trim_uid: no trimming call")
    for i, x in enumerate(trims):
        arg = H.show(x[5][0], 8) if x[5] else ""
        chars = [y[2][1] for a in x[5] for y in H.walk(a) if H.kind(y) == "lit" and y[2][0] == "char"]
        nul = any(c in ("\0", "\\0", "\x00") for c in chars) or "'\\0'" in arg or "\\u{0}" in arg
        chk.expect(x[3] in ("trim_end_matches", "trim_matches") and nul, rule, "trim_uid", f"{x[3]}#{i}", "trim_end_matches(|c| c.is_whitespace() || c == '\\0')", {"call": x[3], "arg": arg[:80], "chars": chars}, loc=f"{h['loc']['f']}:{x[1]}")
    trunc = [x[3] for x in H.walk(h["body"]) if H.kind(x) == "mcall" and x[3] in ("truncate", "pop", "drain")]
    chk.expect(not trunc, rule, "trim_uid", "no-in-place-shortening", "none", trunc, loc=C.fn_loc(h))
    hp = fx.method("dicom_ul", "dicom_ul::association::server::ServerAssociationOptions", "process_a_association_rq")
    uses = [x for c, x in H.calls(hp["body"]) if c and c.endswith("uid::trim_uid")]
    chk.expect(len(uses) >= 1, rule, "process_a_association_rq", "abstract-syntax-trimmed", "trim_uid applied to the proposed abstract syntax", len(uses), loc=C.fn_loc(hp))


def writer_text_identity(chk, fx, rule):
    """StatefulEncoder::convert_text_untrailed encodes the given text as it is (C04 exact lengths; C31: the command group length is
    computed from the in-memory text lengths, so the writer must not shorten or lengthen a value beyond the even-length pad)"""
    chk.rule(rule, "convert_text_untrailed hands the text to the codec unchanged in every arm (no trimming or other rewriting before encoding)")
    h = fx.method("dicom_parser", "dicom_parser::stateful::encode::StatefulEncoder", "convert_text_untrailed")
    prm = [b for p in (h.get("params") or [])[1:2] for b in H.pat_bindings(p)]
    encs = [x for x in H.walk(h["body"]) if H.kind(x) == "mcall" and x[3] == "encode" and x[5]]
    if not encs or not prm:
        raise facts.MissingAnchor("convert_text_untrailed: encode calls")
    for i, x in enumerate(encs):
        a = H.peel(x[5][0])
        chk.expect(H.kind(a) == "path" and H.path_of(a) == prm[0], rule, "convert_text_untrailed", f"encode#{i}", f".encode({prm[0]})", H.show(x[5][0], 6), loc=f"{h['loc']['f']}:{x[1]}")
    chk.floor(rule, "encode calls", len(encs), 2)
