"""C06 — lazy reader and collector agree with the eager reader (sibling agreement).

1. reader-state-machine (SIB): DataSetReader::next (eager) vs LazyDataSetReader::advance (lazy). For every decode outcome
   (item header kinds inside a sequence; first item of encapsulated pixel data; element header kinds; end of stream; errors)
   the pair is compared on: emitted token variant, assignments to in_sequence / delimiter_check_pending / hard_break /
   last_header, pushes and pops of the delimiter stack with their arguments, and error exits. Tolerated differences are
   the named audit rows below (one reason each); anything else is a disagreement.
2. object-builders (SIB): InMemDicomObject::build_object vs DicomCollector::collect_elements: the stop comparators of
   read_until (`t <= tag`, exclusive) and read_to (`t < tag`, inclusive) at the three stop sites of each.
3. first-item-flag (PAIR): in the collector's build_encapsulated_data the "next item value is the basic offset table"
   flag is cleared on both ways out of the first item (value read, or ItemEnd of an empty table).
4. token-conversion (TAB): the peek/replay conversions between DataToken and LazyDataToken preserve the variant.
"""
import re

from . import facts, hirq as H, common as C

LEVEL_TEXT = ("Every decode-outcome arm of the two readers (14 rows) is reduced to an effect signature and compared; 12 stop comparators and "
              "both exits of the first pixel-data item are checked. Decides structural agreement of the sibling implementations; equality "
              "of the values read from concrete streams is not decided.")

P = "dicom_parser::dataset"
FIELDS = ("in_sequence", "delimiter_check_pending", "hard_break", "last_header")
# differences that are intended (audited, one reason each): (row, text that may differ) -> reason
AUDIT = {
    ("seq/Err+guard", "*"): "eager only: UnexpectedEof while inside a pixel data sequence is treated as a graceful end of the object; the lazy reader reports the error",
    ("*", "offset_table_next"): "eager only: the eager reader decodes the basic offset table itself and needs to know when it comes next; the lazy reader hands out a lazy item value",
    ("encap/other", "error"): "different error variants for an unexpected item tag at the start of encapsulated pixel data (UnexpectedItemTag vs UnexpectedItemDelimiter); both stop the reader",
}


def arm_key_header(p, g):
    """classify an arm of `match self.parser.decode_header()`"""
    txt = H.show_pat(p)
    gtxt = H.show(g, 6) if g is not None else ""
    if txt.startswith("Ok("):
        if "vr: SQ" in txt:
            return "hdr/SQ"
        if "57357" in txt or "E00D" in txt or "tag: Tag(65534, 57357)" in txt:
            return "hdr/item-delim" + ("+empty-stack" if "seq_delimiters.is_empty()" in gtxt else "")
        if "is_encapsulated_pixeldata" in gtxt:
            return "hdr/encapsulated"
        if "is_undefined" in gtxt:
            return "hdr/undefined-length"
        return "hdr/plain" + ("+guard" if g is not None else "")
    if txt.startswith("Err("):
        if "UnexpectedEof" in gtxt:
            return "hdr/eof"
        return "hdr/err" + ("+guard" if g is not None else "")
    return "hdr/?" + txt[:30]


def arm_key_item(p, g, prefix):
    txt = H.show_pat(p)
    if txt.startswith("Item{") or txt.startswith("Item {") or txt == "Item":
        return prefix + "/Item"
    if txt.startswith("ItemDelimiter"):
        # no item delimiter is legal before the first item of a pixel data sequence: it is the "anything else" outcome there
        return prefix + ("/other" if prefix == "encap" else "/ItemDelimiter")
    if txt.startswith("SequenceDelimiter"):
        return prefix + "/SequenceDelimiter"
    return prefix + "/other"


def effects(body, token_enum_suffixes=("DataToken", "LazyDataToken")):
    """effect signature of an arm body: sorted list of strings"""
    out = set()
    for n, anc in H.walk_anc(body):
        k = H.kind(n)
        if k == "assign":
            lhs = H.show(n[2], 3)
            if lhs.startswith("self.") and lhs[5:] in FIELDS + ("offset_table_next",):
                rhs = H.show(n[3], 5)
                rhs = re.sub(r"core::option::Option::", "", rhs)
                cond = ""
                for a in reversed(anc):
                    if H.is_node(a) and H.kind(a) == "if" and n in list(H.walk(a[3])):
                        c = H.show(a[2], 5)
                        cond = "?[" + c.replace("dicom_core::header::", "") + "]"
                        break
                    if H.is_node(a) and H.kind(a) == "if" and a[4] is not None and n in list(H.walk(a[4])):
                        cond = "?[else]"
                        break
                out.add(f"{lhs[5:]}={rhs}{cond}")
        elif k == "mcall" and n[3] == "push_sequence_token":
            args = [H.show(a, 4) for a in n[5]]
            args = [a.split("::")[-1] if "SeqTokenType" in a else a for a in args]
            args = [re.sub(r"^(last_delimiter\.|parent\.)?pixel_data$", "parent.pixel_data", a) for a in args]
            args = [a.replace("dicom_core::header::", "") for a in args]
            out.add("push(" + ", ".join(args) + ")")
        elif k == "mcall" and n[3] == "pop" and "seq_delimiters" in H.show(n[4], 3):
            out.add("pop")
        elif k == "mcall" and n[3] == "fail":
            nm = H.show(n[4], 1)
            m = re.search(r"(\w+)Snafu", H.show(n[4], 2))
            out.add("error:" + (m.group(1) if m else nm))
        elif k in ("struct", "call", "path"):
            pth = n[2] if k in ("struct", "path") else (H.callee(n) or "")
            if k == "path" and not n[3].startswith("ctor"):
                continue
            for suf in token_enum_suffixes:
                m = re.search(rf"::{suf}::(\w+)$", pth)
                if m:
                    out.add("token:" + m.group(1))
        elif k == "continue":
            out.add("retry")
        elif k == "mcall" and n[3] == "advance" and H.path_of(n[4]) == "self":
            out.add("retry")
    # an `Err(e)` style exit
    if any(H.kind(x) == "call" and (H.callee(x) or "").endswith("Result::Err") for x in H.walk(body)):
        out.add("error:propagated")
    return sorted(out)


def outcome_rows(h, token_enum):
    """{row key: effects} for one reader function"""
    rows = {}
    SIH = "dicom_core::header::SequenceItemHeader"
    item_matches = [m for m in H.walk(h["body"]) if H.kind(m) == "match" and m[3] == SIH]
    item_matches.sort(key=lambda m: m[1])
    if len(item_matches) != 2:
        raise facts.MissingAnchor(f"{h['path']}: expected 2 matches over SequenceItemHeader, found {len(item_matches)}")
    for prefix, m in zip(("seq", "encap"), item_matches):
        for p, g, b, ln in H.match_arms(m):
            rows[arm_key_item(p, g, prefix)] = effects(b)
    # the enclosing `match self.parser.decode_item_header()` of the first: error arms
    outer = [m for m in H.walk(h["body"]) if H.kind(m) == "match" and "decode_item_header()" in H.show(m[2], 4) and not m[5].startswith("TryDesugar")]
    outer.sort(key=lambda m: m[1])
    for prefix, m in zip(("seq", "encap"), outer):
        for p, g, b, ln in H.match_arms(m):
            t = H.show_pat(p)
            if t.startswith("Err("):
                rows[f"{prefix}/Err" + ("+guard" if g is not None else "")] = effects(b)
    hm = [m for m in H.walk(h["body"]) if H.kind(m) == "match" and "decode_header()" in H.show(m[2], 4) and not m[5].startswith("TryDesugar")]
    if len(hm) != 1:
        raise facts.MissingAnchor(f"{h['path']}: match over decode_header()")
    for p, g, b, ln in H.match_arms(hm[0]):
        rows[arm_key_header(p, g)] = effects(b)
    return rows


def run(chk, tier):
    fx = facts.load("W")
    chk.analysed["facts"] = fx.meta
    # ---------- rule 1
    chk.rule("reader-state-machine", "per decode outcome: token, state-field updates, delimiter stack pushes/pops and error exits agree between the eager and the lazy reader "
             "(audited differences: " + "; ".join(f"{k[0]}:{k[1]}" for k in AUDIT) + ")")
    he = fx.hirfn(f"<{P}::read::DataSetReader<S> as core::iter::traits::iterator::Iterator>::next")
    hl = fx.method("dicom_parser", f"{P}::lazy_read::LazyDataSetReader", "advance")
    re_, rl = outcome_rows(he, "DataToken"), outcome_rows(hl, "LazyDataToken")
    chk.sample({"rule": "reader-state-machine", "eager": re_, "lazy": rl})
    keys = sorted(set(re_) | set(rl))
    chk.floor("reader-state-machine", "decode outcome rows", len(keys), 14)
    for k in keys:
        if (k, "*") in AUDIT:
            chk.ok("reader-state-machine", "eager~lazy", k, "audited: " + AUDIT[(k, "*")])
            continue
        a, b = re_.get(k), rl.get(k)
        if a is None or b is None:
            chk.bad("reader-state-machine", "eager~lazy", k, "the outcome is handled by both readers", {"eager": a, "lazy": b})
            continue
        def norm(eff):
            out = []
            for e in eff:
                if e.startswith("offset_table_next"):
                    continue  # audited
                if k == "encap/other" and e.startswith("error:"):
                    e = "error:<unexpected item>"
                out.append(e)
            return sorted(set(out))
        na, nb = norm(a), norm(b)
        chk.expect(na == nb, "reader-state-machine", "eager~lazy", k, na, nb, loc=f"{hl['loc']['f']}:{hl['loc']['l']}")
    # update_seq_delimiters + push_sequence_token + sanitize_length are siblings too
    for fn in ("update_seq_delimiters", "push_sequence_token"):
        a = fx.method("dicom_parser", f"{P}::read::DataSetReader", fn)
        b = fx.method("dicom_parser", f"{P}::lazy_read::LazyDataSetReader", fn)
        ta = H.show(a["body"], 14).replace("DataToken::", "T::").replace("LazyDataToken::", "T::").replace("dicom_parser::dataset::lazy_read::", "").replace("dicom_parser::dataset::read::", "").replace("dicom_parser::dataset::", "")
        tb = H.show(b["body"], 14).replace("LazyDataToken::", "T::").replace("DataToken::", "T::").replace("dicom_parser::dataset::lazy_read::", "").replace("dicom_parser::dataset::read::", "").replace("dicom_parser::dataset::", "")
        ta = re.sub(r"\bLazyT::", "T::", ta)
        tb = re.sub(r"\bLazyT::", "T::", tb)
        chk.expect(ta == tb, "reader-state-machine", "eager~lazy", fn, "structurally identical bodies", "equal" if ta == tb else {"eager": ta[:300], "lazy": tb[:300]}, loc=C.fn_loc(b))

    # ---------- rule 2
    chk.rule("object-builders", "build_object and collect_elements stop with `read_until.map(|t| t <= X)` (exclusive) and `read_to.map(|t| t < X)` (inclusive) at the three element kinds")
    hb = fx.method("dicom_object", "dicom_object::mem::InMemDicomObject", "build_object")
    hc = fx.method("dicom_object", "dicom_object::collector::DicomCollector", "collect_elements")
    want_x = {"PixelSequenceStart": ("sq_start_tag", "dicom_core::header::Tag(32736, 16)"), "ElementHeader": ("header.tag",), "SequenceStart": ("tag",)}
    n_cmp = 0
    for name, h in (("build_object", hb), ("collect_elements", hc)):
        ms = [m for m in H.walk(h["body"]) if H.kind(m) == "match" and m[3].endswith("dataset::DataToken")]
        if len(ms) < 1:
            raise facts.MissingAnchor(f"{name}: match over DataToken")
        m = max(ms, key=lambda mm: len(mm[4]))
        for p, g, b, ln in H.match_arms(m):
            hd = H.pat_head(H.pat_alts(p)[0])
            if hd[0] != "variant":
                continue
            v = hd[1].split("::")[-1]
            if v not in want_x:
                continue
            stops = []
            for x in H.walk(b):
                if H.kind(x) == "if" and any(H.kind(y) == "break" for y in H.walk(x[3])):
                    t = H.show(x[2], 8)
                    mm = re.match(r"(read_until|read_to)\.map\(\|\.\.\| \(t (Le|Lt) (.+)\)\)\.unwrap_or\(false\)$", t)
                    if mm:
                        stops.append((mm.group(1), mm.group(2), mm.group(3)))
            n_cmp += len(stops)
            ok = len(stops) == 2 and stops[0][0] == "read_until" and stops[0][1] == "Le" and stops[1][0] == "read_to" and stops[1][1] == "Lt" \
                and stops[0][2] in want_x[v] and stops[1][2] in want_x[v]
            chk.expect(ok, "object-builders", name, v, f"read_until: t <= X; read_to: t < X; X in {want_x[v]}", stops, loc=f"{h['loc']['f']}:{ln}")
    chk.floor("object-builders", "stop comparators", n_cmp, 12)
    # what each builder constructs per token kind: constructor and the operands taken from the token
    acts = {}
    for name, h in (("build_object", hb), ("collect_elements", hc)):
        ms = [m for m in H.walk(h["body"]) if H.kind(m) == "match" and m[3].endswith("dataset::DataToken")]
        m = max(ms, key=lambda mm: len(mm[4]))
        for p, g, b, ln in H.match_arms(m):
            hd = H.pat_head(H.pat_alts(p)[0])
            v = hd[1].split("::")[-1] if hd[0] == "variant" else None
            if v not in want_x:
                continue
            made = []
            for x in H.walk(b):
                if H.kind(x) == "call" and re.search(r"header::DataElement::<.*>::(new|new_with_len)$", H.callee(x) or ""):
                    ctor = (H.callee(x) or "").split("::")[-1]
                    args = [H.show(a, 3).replace("dicom_core::header::", "") for a in H.call_args(x)]
                    args = ["Tag(32736, 16)" if a == "sq_start_tag" else a for a in args]
                    nfix = 3 if ctor == "new_with_len" else 2
                    made.append((ctor, tuple(args[:nfix])))
            seq_len = None
            if v == "SequenceStart":
                # the sequence value carries the same length
                for x in H.walk(b):
                    if H.kind(x) == "call" and re.search(r"(DataSetSequence::<.*>::new|Value::<.*>::new_sequence|DataSetSequence::new|::new_sequence)$", H.callee(x) or ""):
                        seq_len = H.show(H.call_args(x)[-1], 3)
            acts[(name, v)] = (made, seq_len, ln)
    want_act = {"PixelSequenceStart": [("new", ("Tag(32736, 16)", "VR::OB"))], "ElementHeader": [("new_with_len", ("header.tag", "header.vr", "header.len"))],
                "SequenceStart": [("new_with_len", ("tag", "VR::SQ", "len"))]}
    for v, w in want_act.items():
        a, b2 = acts.get(("build_object", v)), acts.get(("collect_elements", v))
        chk.expect(a is not None and b2 is not None and a[0] == w and b2[0] == w, "object-builders", "build_object~collect_elements", f"{v}/constructed-element",
                   w, {"build_object": a[0] if a else None, "collect_elements": b2[0] if b2 else None}, loc=f"{hc['loc']['f']}:{b2[2] if b2 else 0}")
        if v == "SequenceStart":
            chk.expect(a and b2 and a[1] == "len" and b2[1] == "len", "object-builders", "build_object~collect_elements", "SequenceStart/sequence-length", "sequence value built with (items, len)",
                       {"build_object": a[1] if a else None, "collect_elements": b2[1] if b2 else None})

    # ---------- rule 3
    chk.rule("first-item-flag", "collector build_encapsulated_data: `first` is cleared when the first item's value is read and when the first item ends without a value")
    hh = fx.method("dicom_object", "dicom_object::collector::DicomCollector", "build_encapsulated_data")
    LT = f"{P}::LazyDataToken"
    ms = [m for m in H.walk(hh["body"]) if H.kind(m) == "match" and m[3].startswith(LT)]
    if len(ms) != 1:
        raise facts.MissingAnchor("collector build_encapsulated_data: match over LazyDataToken")
    cleared = {}
    for p, g, b, ln in H.match_arms(ms[0]):
        for alt in H.pat_alts(p):
            hd = H.pat_head(alt)
            if hd[0] == "variant":
                v = hd[1].split("::")[-1]
                cleared[v] = any(H.kind(x) == "assign" and H.path_of(x[2]) == "first" and H.lit(x[3]) == ("bool", "false") for x in H.walk(b))
    chk.expect(cleared.get("LazyItemValue") is True, "first-item-flag", "build_encapsulated_data", "LazyItemValue", "first = false after the offset table is read", cleared.get("LazyItemValue"), loc=C.fn_loc(hh))
    chk.expect(cleared.get("ItemEnd") is True, "first-item-flag", "build_encapsulated_data", "ItemEnd", "first = false when the (possibly empty) first item ends", cleared.get("ItemEnd"), loc=C.fn_loc(hh))
    # eager counterpart: the offset table comes as its own token, fragments as ItemValue; ItemEnd ensures an (empty) table
    hm = fx.method("dicom_object", "dicom_object::mem::InMemDicomObject", "build_encapsulated_data")
    me = [m for m in H.walk(hm["body"]) if H.kind(m) == "match" and m[3].endswith("dataset::DataToken")]
    arms_e = {}
    for p, g, b, ln in H.match_arms(me[0]) if me else []:
        for alt in H.pat_alts(p):
            hd = H.pat_head(alt)
            if hd[0] == "variant":
                arms_e[hd[1].split("::")[-1]] = H.show(b, 5)
    ok = "offset_table = core::option::Option::Some(table)" in arms_e.get("OffsetTable", "") and "fragments.push(data)" in arms_e.get("ItemValue", "") and "offset_table.is_none()" in arms_e.get("ItemEnd", "")
    chk.expect(ok, "first-item-flag", "InMemDicomObject::build_encapsulated_data", "eager-classification", "OffsetTable -> table; ItemValue -> fragment; ItemEnd -> ensure (empty) table", arms_e)

    # ---------- rule 4
    chk.rule("token-conversion", "peek replay (advance) and peek map each structural token variant to the variant of the same name")
    for name, fnh, src_enum, dst_enum in (("advance:peek-replay", hl, f"{P}::DataToken", "LazyDataToken"),
                                          ("peek", fx.method("dicom_parser", f"{P}::lazy_read::LazyDataSetReader", "peek"), f"{P}::LazyDataToken", "DataToken")):
        ms = [m for m in H.walk(fnh["body"]) if H.kind(m) == "match" and m[3].startswith(src_enum) and len(m[4]) >= 6]
        if len(ms) != 1:
            raise facts.MissingAnchor(f"{name}: conversion match")
        n_ok = 0
        for p, g, b, ln in H.match_arms(ms[0]):
            hd = H.pat_head(H.pat_alts(p)[0])
            if hd[0] != "variant":
                continue
            v = hd[1].split("::")[-1]
            made = sorted({mm.group(1) for x in H.walk(b) for mm in [re.search(rf"::{dst_enum}::(\w+)$", (x[2] if H.kind(x) in ("struct", "path") else (H.callee(x) or "")) if H.kind(x) in ("struct", "path", "call") else "")] if mm})
            chk.expect(made == [v], "token-conversion", name, v, [v], made, loc=f"{fnh['loc']['f']}:{ln}")
            n_ok += 1
        chk.expect(n_ok == 6, "token-conversion", name, "structural-variants", 6, n_ok)
    # ---- both readers start from the same neutral state: no pending check, not in a sequence, no offset table expected, not broken
    chk.rule("initial-state", "every constructor of DataSetReader / LazyDataSetReader starts with delimiter_check_pending, offset_table_next, in_sequence, hard_break = false, "
             "an empty delimiter stack, no saved header and nothing peeked")
    n_ctor = 0
    for hh in fx.crate("dicom_parser")["hir"]:
        if "{closure" in hh["path"] or not re.search(r"dataset::(read::DataSetReader|lazy_read::LazyDataSetReader)", hh["path"]):
            continue
        for y in H.walk(hh["body"]):
            if H.kind(y) == "struct" and re.search(r"(read::DataSetReader|lazy_read::LazyDataSetReader)$", y[2]) and isinstance(y[4], list):
                inits = {f[0]: H.show(f[1], 4) for f in y[4] if isinstance(f, list) and len(f) == 2}
                n_ctor += 1
                flags = {k: inits.get(k) for k in ("delimiter_check_pending", "offset_table_next", "in_sequence", "hard_break") if k in inits}
                others = {k: inits.get(k) for k in ("seq_delimiters", "last_header", "peek") if k in inits}
                ok = len(flags) >= 3 and all(v == "false" for v in flags.values()) and all(v.endswith(("Vec::<T>::new()", "Vec::new()", "Option::None")) for v in others.values())
                chk.expect(ok, "initial-state", hh["path"].split("::")[-1] + ("(lazy)" if "lazy_read" in hh["path"] else "(eager)"), f"literal@{n_ctor}", "all flags false, empty stack, nothing saved",
                           {**flags, **others}, loc=f"{hh['loc']['f']}:{y[1]}")
    chk.floor("initial-state", "reader constructors", n_ctor, 3)
    # ---- the collector's public portions: state tests are equalities on the documented states, the parser is obtained in one way, and
    # the portion readers hand the right stop arguments to collect_to_object
    chk.rule("collector-portions", "DicomCollector: read_file_meta reads the preamble iff state == Start and the meta group iff state == Preamble; every portion reader "
             "obtains the parser as `if !has_parser() { set_parser_with_ts(hint) } else { parser() }`; read_dataset_to_end / _up_to call "
             "collect_to_object(state, parser, false, None | Some(stop_tag), None, to, dict); nested items recurse with (true, None, None)")
    DC = "dicom_object::collector::DicomCollector::<"
    def coll(name):
        hs = fx.find_hir("dicom_object", lambda p: p.startswith(DC) and p.endswith("::" + name))
        if len(hs) != 1:
            raise facts.MissingAnchor(f"DicomCollector::{name}: {len(hs)} candidates")
        return hs[0]
    hm = coll("read_file_meta")
    st_ifs = [(H.show(x[2], 6), sorted({c.split("::")[-1] for c, _ in H.calls(x[3]) if c and c.startswith("dicom_object")})) for x in H.walk(hm["body"]) if H.kind(x) == "if" and "CollectorState" in H.show(x[2], 6)]
    want = [("(self.state Eq dicom_object::collector::CollectorState::Start)", ["read_preamble"]), ("(self.state Eq dicom_object::collector::CollectorState::Preamble)", ["from_reader", "raw_reader_mut"])]
    chk.expect(st_ifs == want, "collector-portions", "read_file_meta", "state-tests", want, st_ifs, loc=C.fn_loc(hm))
    parser_inits = {}
    for name, stop in (("read_dataset_to_end", "core::option::Option::None"), ("read_dataset_up_to", "core::option::Option::Some(stop_tag)")):
        hh = coll(name)
        lets = [x for x in H.walk(hh["body"]) if H.kind(x) == "slet" and H.pat_bindings(x[2]) == ["parser"]]
        parser_inits[name] = H.show(lets[0][3], 12) if len(lets) == 1 else None
        cs = [x for c, x in H.calls(hh["body"]) if c and c.endswith("::collect_to_object")]
        args = [H.show(a, 4) for a in H.call_args(cs[0])] if len(cs) == 1 else None
        wanted = ["&self.state", "parser", "false", stop, "core::option::Option::None", "to", "&self.dictionary"]
        chk.expect(args == wanted, "collector-portions", name, "collect_to_object-arguments", wanted, args, loc=C.fn_loc(hh))
    for name in ("read_next_fragment", "read_basic_offset_table"):
        hh = coll(name)
        lets = [x for x in H.walk(hh["body"]) if H.kind(x) == "slet" and H.pat_bindings(x[2]) == ["parser"]]
        if lets:
            parser_inits[name] = H.show(lets[-1][3], 12)
    ref = parser_inits.get("read_dataset_to_end")
    shape_ok = ref is not None and ref.startswith("if Not(self.source.has_parser())") and "set_parser_with_ts(" in ref and "self.source.parser()" in ref and "populate_ts_hint()" in ref
    chk.expect(shape_ok and all(v == ref for v in parser_inits.values()) and len(parser_inits) >= 3, "collector-portions", "parser-initialisation", "same-in-every-portion-reader",
               "if !has_parser() { hint -> set_parser_with_ts } else { parser() }, identical in all portion readers", {k: (v or "")[:80] for k, v in parser_inits.items()})
    hcs = coll("collect_sequence")
    rec = [[H.show(a, 4) for a in H.call_args(x)][2:5] for c, x in H.calls(hcs["body"]) if c and c.endswith("::collect_to_object")]
    chk.expect(rec == [["true", "core::option::Option::None", "core::option::Option::None"]], "collector-portions", "collect_sequence", "items-read-whole", [["true", "None", "None"]], rec, loc=C.fn_loc(hcs))
    hf = coll("read_next_fragment")
    st = [H.show(x[2], 7) for x in H.walk(hf["body"]) if H.kind(x) == "if" and "CollectorState" in H.show(x[2], 7)]
    want_st = ["((self.state Eq dicom_object::collector::CollectorState::Start) Or (self.state Eq dicom_object::collector::CollectorState::Preamble))",
               "(self.state Ne dicom_object::collector::CollectorState::InPixelData)"]
    chk.expect(st == want_st, "collector-portions", "read_next_fragment", "state-tests", want_st, st, loc=C.fn_loc(hf))
    hb = coll("read_basic_offset_table")
    stb = [H.show(x[2], 7) for x in H.walk(hb["body"]) if H.kind(x) == "if" and "CollectorState" in H.show(x[2], 7)]
    want_stb = ["(self.state Eq dicom_object::collector::CollectorState::InPixelData)"] + want_st
    chk.expect(stb == want_stb, "collector-portions", "read_basic_offset_table", "state-tests", want_stb, stb, loc=C.fn_loc(hb))
    # both skip to the pixel data with the same predicate: a PixelData element header of defined length, or the start of a pixel sequence
    preds = {}
    for nm_, hh in (("read_next_fragment", hf), ("read_basic_offset_table", hb)):
        cl = []
        for x in H.walk(hh["body"]):
            if H.kind(x) == "mcall" and x[3] == "skip_until":
                for a in x[5]:
                    arms_ = [H.show_pat(arm[0]) + (" if " + H.show(arm[1], 12) if arm[1] is not None else "") + " => " + H.show(arm[2], 6) for m_ in H.walk(a) if H.kind(m_) == "match" for arm in m_[4]]
                    cl.append(" ; ".join(arms_))
        preds[nm_] = cl[0] if len(cl) == 1 else None
    ref_p = preds["read_next_fragment"] or ""
    ok_p = preds["read_next_fragment"] is not None and preds["read_next_fragment"] == preds["read_basic_offset_table"] \
        and "((header.tag Eq dicom_dictionary_std::tags::PIXEL_DATA) And header.length().is_defined())" in ref_p and "PixelSequenceStart" in ref_p \
        and re.search(r"PixelSequenceStart => true", ref_p) is not None and re.search(r"_ => false", ref_p) is not None
    chk.expect(ok_p, "collector-portions", "skip-to-pixel-data", "same-predicate", "ElementHeader(h) if h.tag == PIXEL_DATA && h.length().is_defined() => true, PixelSequenceStart => true, _ => false",
               {k: (v or "")[:200] for k, v in preds.items()})
    from . import shared
    shared.collector_preamble(chk, fx, "collector-preamble")
    chk.undecided.append("equality of the values and of the token sequence on concrete streams; collector portions split at arbitrary tags (covered structurally by the stop comparators)")
