"""C32 — the storage SCP stores what it receives, only inside its output directory (FLOW on both store loops).

1. path-taint: in storescp `inner` (sync and async) the only file-system write sink is `write_to_file(path)`; `path` starts as
   `out_dir.to_path_buf()` and every component pushed onto it went through `Path::file_name` (a path-component sanitiser:
   it keeps only the final component, so `../x`, `a/b` or an absolute path cannot leave the directory). The pushed text is
   peer-controlled (PDU -> command data set -> Affected SOP Instance UID), so the sanitiser is required, not optional.
2. meta-from-negotiation: the stored file's meta group takes its transfer syntax from the presentation context whose id is the
   one of the received P-DATA value, and its media storage SOP class / instance UIDs from the received data set.
"""
from . import facts, hirq as H, common as C

LEVEL_TEXT = ("Both store loops are checked for every file-system sink and every path-building call. Decides the provenance "
              "structure (sanitiser on the only tainted path, meta fields from negotiation/data set); the stored bytes are not compared.")

FS_SINK_PREFIXES = ("std::fs::", "tokio::fs::", "std::fs::File::", "std::fs::OpenOptions")
FS_WRITE_NAMES = {"write", "create", "create_new", "create_dir", "create_dir_all", "rename", "copy", "remove_file", "remove_dir", "remove_dir_all", "open", "hard_link",
                  "set_permissions", "write_to_file"}


def binding_init(body, name, before_line):
    lets = [x for x in H.walk(body) if H.kind(x) == "slet" and name in H.pat_bindings(x[2]) and x[1] <= before_line and x[3] is not None]
    return lets[-1][3] if lets else None


def goes_through_file_name(body, expr, line, depth=4):
    """does the value of `expr` come out of `Path::file_name`? follows local bindings, `?`/context wrappers"""
    e = H.peel(expr)
    for _ in range(depth):
        if any((c or "").endswith("path::Path::file_name") for c, _ in H.calls(e)):
            return True
        p = H.path_of(e)
        if p is None:
            return False
        e2 = binding_init(body, p, line)
        if e2 is None:
            return False
        e = H.peel(e2)
    return False


def run(chk, tier):
    fx = facts.load("W")
    chk.analysed["facts"] = fx.meta
    chk.assume("Path::file_name returns only the final normal component (None for `..`), PathBuf::push of a relative single component stays below the base")
    chk.rule("path-taint", "only sink = write_to_file(P); P = out_dir.to_path_buf() + push(component) where every pushed component went through Path::file_name")
    chk.rule("meta-from-negotiation", "FileMetaTableBuilder: transfer_syntax = negotiated context's (looked up by the P-DATA value's context id); SOP class/instance from the data set")
    for mod in ("store_sync", "store_async"):
        hs = fx.find_hir("dicom_storescp", lambda p, mod=mod: p.startswith(f"dicom_storescp::{mod}::inner"), kind="bin")
        if len(hs) != 1:
            raise facts.MissingAnchor(f"storescp {mod}::inner: {len(hs)}")
        h = hs[0]
        body = h["body"]
        # sinks
        sinks = []
        for c, x in H.calls(body):
            if not c:
                continue
            last = c.split("::")[-1]
            if c.endswith("FileDicomObject::<O>::write_to_file") or (any(c.startswith(p) for p in FS_SINK_PREFIXES) and last in FS_WRITE_NAMES):
                sinks.append((c, x))
        wtf = [s for s in sinks if s[0].endswith("write_to_file")]
        other = [s[0] for s in sinks if not s[0].endswith("write_to_file")]
        chk.expect(len(wtf) == 1 and not other, "path-taint", mod, "sinks", "exactly one write_to_file, no other file-system write", {"write_to_file": len(wtf), "other": other}, loc=C.fn_loc(h))
        if len(wtf) != 1:
            continue
        arg = H.peel(H.call_args(wtf[0][1])[1])
        pvar = H.path_of(arg)
        chk.expect(pvar is not None, "path-taint", mod, "sink-argument", "a local path variable", H.show(arg, 3))
        init = binding_init(body, pvar, wtf[0][1][1])
        ok_init = init is not None and H.show(init, 4) == "out_dir.to_path_buf()"
        chk.expect(ok_init, "path-taint", mod, "path-starts-at-out_dir", "out_dir.to_path_buf()", H.show(init, 4) if init is not None else None, loc=C.fn_loc(h))
        muts = [x for x in H.walk(body) if H.kind(x) == "mcall" and H.path_of(x[4]) == pvar and x[3] in ("push", "join", "set_file_name", "set_extension", "extend", "pop", "clear")]
        chk.expect(len(muts) >= 1 and all(m[3] == "push" for m in muts), "path-taint", mod, "path-building-calls", "only push(component)", [m[3] for m in muts])
        for i, m in enumerate(muts):
            if m[3] != "push":
                continue
            a = m[5][0]
            lit = H.lit(a)
            ok = (lit is not None and lit[0] == "str" and "/" not in lit[1] and ".." not in lit[1]) or goes_through_file_name(body, a, m[1])
            chk.expect(ok, "path-taint", mod, f"push#{i}", "component sanitised by Path::file_name (or a constant single component)", H.show(a, 4), loc=f"{h['loc']['f']}:{m[1]}")
        # the sanitiser's failure is an error, not a fallback to the raw text
        fn_calls = [x for x in H.walk(body) if H.kind(x) == "mcall" and x[3] == "file_name" and (H.callee(x) or "").endswith("path::Path::file_name")]
        ok = len(fn_calls) == 1 and any(H.kind(y) == "mcall" and y[3] in ("whatever_context", "context", "ok_or_else", "ok_or") and fn_calls[0] in list(H.walk(y[4])) for y in H.walk(body))
        chk.expect(ok, "path-taint", mod, "sanitiser-failure-is-an-error", "file_name().whatever_context(..)? (no unwrap_or(raw))", len(fn_calls))

        # ---- meta
        ts_calls = [x for x in H.walk(body) if H.kind(x) == "mcall" and x[3] == "transfer_syntax" and (H.callee(x) or "").endswith("FileMetaTableBuilder::transfer_syntax")]
        ok = False
        detail = None
        if len(ts_calls) == 1:
            a = H.path_of(ts_calls[0][5][0])
            init_ts = binding_init(body, a, ts_calls[0][1]) if a else None
            t1 = H.show(init_ts, 4) if init_ts is not None else None
            pc_init = binding_init(body, "presentation_context", ts_calls[0][1])
            t2 = H.show(pc_init, 9) if pc_init is not None else ""
            ok = t1 == "&presentation_context.transfer_syntax" and "presentation_contexts().iter().find(" in t2 and "pc.id Eq data_value.presentation_context_id" in t2
            detail = {"ts": t1, "context": t2[:160]}
        chk.expect(ok, "meta-from-negotiation", mod, "transfer-syntax", "ts of the context with id == data_value.presentation_context_id", detail, loc=C.fn_loc(h))
        for setter, tag in (("media_storage_sop_class_uid", "SOP_CLASS_UID"), ("media_storage_sop_instance_uid", "SOP_INSTANCE_UID")):
            cs = [x for x in H.walk(body) if H.kind(x) == "mcall" and x[3] == setter]
            t = H.show(cs[0][5][0], 9) if len(cs) == 1 else ""
            chk.expect(len(cs) == 1 and f"obj.element(dicom_dictionary_std::tags::{tag})" in t, "meta-from-negotiation", mod, setter, f"obj.element(tags::{tag})", t[:120], loc=C.fn_loc(h))
        # the object written is the one read from the received bytes with that transfer syntax
        rd = [x for c, x in H.calls(body) if c and c.endswith("read_dataset_with_ts") and "instance_buffer" in H.show(x[3][0], 4)]
        ok = len(rd) == 1 and "instance_buffer" in H.show(rd[0][3][0], 4) and "get(ts)" in H.show(rd[0][3][1], 5)
        chk.expect(ok, "meta-from-negotiation", mod, "dataset-read-with-negotiated-ts", "read_dataset_with_ts(instance_buffer, registry.get(ts))", [H.show(x, 5)[:120] for x in rd])
    # the fragments of a data set are put together in arrival order: (Data, not last) appends; (Command, last) handles the command and
    # clears the buffer; (Data, last) appends and then reads the object from the buffer -- in both store loops
    chk.rule("reassembly-dispatch", "store loops: `value_type == Data && !is_last` -> instance_buffer.append(data); `== Command && is_last` -> command handling, buffer cleared; "
             "`== Data && is_last` -> append, then the object is read from instance_buffer")
    import re as _re
    for mod in ("store_sync", "store_async"):
        h = fx.find_hir("dicom_storescp", lambda p, mod=mod: p.startswith(f"dicom_storescp::{mod}::inner"), kind="bin")[0]
        chain = [x for x in H.walk(h["body"]) if H.kind(x) == "if" and "data_value.value_type" in H.show(x[2], 6) and "is_last" in H.show(x[2], 6)]
        conds = [_re.sub(r"dicom_ul::pdu::", "", H.show(x[2], 6)) for x in chain]
        want_c = ["((data_value.value_type Eq PDataValueType::Data) And Not(data_value.is_last))",
                  "((data_value.value_type Eq PDataValueType::Command) And data_value.is_last)",
                  "((data_value.value_type Eq PDataValueType::Data) And data_value.is_last)"]
        chk.expect(conds == want_c, "reassembly-dispatch", mod, "conditions", want_c, conds, loc=C.fn_loc(h))
        if len(chain) == 3:
            def acts(b):
                return [y[3] for y in H.walk(b) if H.kind(y) == "mcall" and "instance_buffer" in H.show(y[4], 3) and y[3] in ("append", "clear", "extend", "extend_from_slice", "as_slice", "truncate", "drain", "push")]
            a0, a1, a2 = acts(chain[0][3]), acts(chain[1][3]), acts(chain[2][3])
            chk.expect(a0 == ["append"] and a1 == ["clear"] and a2[:2] == ["append", "as_slice"], "reassembly-dispatch", mod, "buffer-actions",
                       {"data,more": ["append"], "command,last": ["clear"], "data,last": ["append", "as_slice", "..."]}, {"data,more": a0, "command,last": a1, "data,last": a2}, loc=C.fn_loc(h))
            args = [H.show(y[5][0], 4) for b in (chain[0][3], chain[2][3]) for y in H.walk(b) if H.kind(y) == "mcall" and y[3] == "append" and "instance_buffer" in H.show(y[4], 3)]
            chk.expect(args == ["&data_value.data", "&data_value.data"], "reassembly-dispatch", mod, "appended-bytes", "the fragment's own data", args, loc=C.fn_loc(h))
    # "each stored file contains the received data set": the sink replaces whatever was stored under that name before
    from . import shared
    shared.file_create_truncates(chk, fx, "stored-file-replaced")
    # every data-set fragment the peer sends reaches the store loop: the P-DATA parser accepts every PDV it has the bytes for
    # (a PDV with no data after its 6-byte header included) -- the cursor budget rule shared with C25/C26/C27
    shared.parser_availability(chk, fx, "fragments-received")
    shared.guard_tightness(chk, fx, "fragment-guards-exact")
    chk.undecided.append("content equality of the stored file with the received data set; reassembly of fragments (C26/C27)")
